#!/bin/sh
# usage: tools/seed_rebase.sh <seeded/dir> - re-applies a seeded patch that no longer applies to /repo HEAD with a 3-way merge in a
# scratch worktree, checks that the library's suite stays green, and stores the re-based diff (patch.orig.diff keeps the author's).
set -e
d=$(cd "$1" && pwd)
wt=/tmp/sc/rebase.$$
mkdir -p /tmp/sc
git -C /repo worktree add -q "$wt" HEAD
trap 'git -C /repo worktree remove --force "$wt"' EXIT
cd "$wt"
if git apply --check "$d/patch.diff" 2>/dev/null; then echo "applies as is"; exit 0; fi
git apply --3way "$d/patch.diff" || { echo "3-way merge failed"; git diff --name-only --diff-filter=U; exit 1; }
/venv/bin/python -m pytest -q -p no:cacheprovider 2>&1 | tail -1
[ -f "$d/patch.orig.diff" ] || cp "$d/patch.diff" "$d/patch.orig.diff"
git diff HEAD > "$d/patch.diff"
echo "rebased: $(wc -l < "$d/patch.diff") lines"
