#!/usr/bin/env python3
"""Regenerates the table of independently seeded changes in DESIGN.md (section 6a) from seeded/*/meta.json."""
import glob, json, os, re
HERE = os.path.dirname(os.path.dirname(os.path.abspath(__file__)))
rows = []
for f in sorted(glob.glob(os.path.join(HERE, "seeded", "*", "meta.json"))):
    m = json.load(open(f))
    name = os.path.basename(os.path.dirname(f))
    needs = " ".join((m.get("needs") or "").split())
    first = needs[:230].replace("|", "/")
    res = m.get("checks_result", "")
    caught = re.findall(r"(C\d\d):rc1/(\d+)v", res)
    missed = re.findall(r"(C\d\d):rc0", res)
    rows.append("| %s | %s | %s | %s |" % (name, "yes" if m.get("confirmed") else "NO", ", ".join("%s (%s)" % c for c in caught) or "-", first + "..."))
table = "\n".join(["| seed | confirmed (suite green, demo fails/passes) | caught by (violations on quick tier) | mechanism (from the author's notes) |", "|---|---|---|---|"] + rows)
p = os.path.join(HERE, "DESIGN.md")
s = open(p).read()
b, e = "<!-- SEEDED-TABLE-BEGIN -->", "<!-- SEEDED-TABLE-END -->"
if b in s:
    s = s[:s.index(b) + len(b)] + "\n" + table + "\n" + s[s.index(e):]
    open(p, "w").write(s)
print(table[:2000])
