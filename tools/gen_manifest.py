#!/usr/bin/env python3
"""Regenerates MANIFEST.json from the table below (kept in one place so the file is always valid)."""
import json, os, subprocess

HERE = os.path.dirname(os.path.dirname(os.path.abspath(__file__)))
ALL = ["C%02d" % i for i in range(1, 19)]

CHECKS = {
    "C01": dict(
        technique="runtime history monitor: every live object vs a fresh rebuild of its own construction, after call forests and under step reordering",
        text="Deterministic prime/branch-A/branch-B scenarios for every builder-decorated method found in the live modules (x6 "
             "dialect classes) and seeded call forests with branching and sharing are executed against the real package; "
             "after each history every live object must fingerprint (6 contexts x inline/parameterised, str, metadata) like a "
             "fresh rebuild of its own sub-program, also under a dependency-respecting reordering of the steps. Held on the "
             "executions observed.",
        note="Observation = the fingerprint function; programs use explicit aliases for subquery/self-join arguments "
             "(auto-alias exemption checked by dedicated scenarios).",
        ref="DESIGN.md section 4 C01"),
    "C02": dict(
        technique="runtime monitors over render histories, child interpreters with different PYTHONHASHSEED, and threads with sys.monitoring yield injection",
        text="Random render histories must repeat their first output per (object, op, context) key and leave every live object "
             "equal to a never-rendered twin; digests of the corpus must agree across child interpreters with different hash "
             "seeds; concurrent renders of one shared object under 1us switch interval and injected yields must equal the "
             "single-threaded baseline. Held on the histories, seeds and interleavings observed.",
        note="Hash seeds and interleavings are sampled; the evidence reports switches observed inside overlapping render windows.",
        ref="DESIGN.md section 4 C02"),
    "C03": dict(
        technique="engine oracle: sqlite3 EXPLAIN bytecode identity, else execution on generated databases, of the rendered SQL vs an independent fully parenthesised/qualified transcription",
        text="Seeded random relational programs (joins, subqueries in FROM/IN, GROUP BY/HAVING, DISTINCT, ORDER BY, LIMIT/OFFSET, "
             "unwrapped set operations, window functions, INSERT values/select/replace, upsert, UPDATE incl. UPDATE..FROM, DELETE) are "
             "interpreted through the real SQLite dialect classes and by an independent reference writer; on a strict-DQS connection "
             "identical EXPLAIN programs count as equivalence on all data, otherwise both run on 6/24 generated databases and must "
             "give the same rows (same sequence under a total ORDER BY) or the same table contents. Held on the programs observed.",
        note="Trusts the reference writer and SQLite; LIMIT without a total order is compared by row count only (counted).",
        ref="DESIGN.md section 4 C03"),
    "C04": dict(
        technique="lockstep walk of the token streams of the parameterised and inline renderings (reference lexers); sqlite3 executes both forms",
        text="Every single-value position x value kind x dialect, fixed multi-clause statements (upsert, UPDATE..ORDER BY/LIMIT, "
             "set operations, CTEs, SQL Server offset/fetch) and seeded random statements of every kind are rendered with and "
             "without a Parameterizer; placeholders must be in dialect style, count and order, values plain data, and each "
             "placeholder must stand where the inline literal that decodes to its value stands; SQLite executes both forms. "
             "Held on the executions observed.",
        note="Reference lexers decide placeholder style and literal decoding for the non-SQLite dialects.",
        ref="DESIGN.md section 4 C04"),
    "C05": dict(
        technique="differential tokenisation with reference dialect lexers; sqlite3 engine evaluates emitted literals",
        text="Complete product value-position x value-class x dialect plus seeded hostile random values: the statement rendered "
             "with the value and with a marker must tokenise identically except for one literal token that decodes to the "
             "value; for SQLite the engine evaluates the emitted literal. Held on the cases observed.",
        note="Trusted base for MySQL/PostgreSQL/SQL Server/Oracle is the reference lexer (self-tested, cross-checked on SQLite).",
        ref="DESIGN.md section 4 C05"),
    "C06": dict(
        technique="reference precedence parser reads the rendering back; sqlite3 evaluates rendering vs fully parenthesised reference",
        text="All parent/position/child triples, all depth-2 compositions, sampled (thorough: all) depth-3 compositions and "
             "seeded random trees are built with the real operators, rendered under six contexts in bare/select/WHERE "
             "position, parsed by the reference Pratt parser and compared modulo the allowed re-associations; SQLite "
             "corroborates values. Held on the trees observed, with two recorded known findings.",
        note="Standard precedence table with lenient left-associative comparisons; SQLite semantics for value corroboration.",
        ref="DESIGN.md section 4 C06"),
    "C07": dict(
        technique="differential tokenisation of name vs marker renderings with reference dialect lexers; sqlite3 prepares against a schema carrying the names",
        text="Complete product emission site (47 sites) x name class (30) x dialect plus seeded random names: the rendering with "
             "the name and with a marker must tokenise identically except at identifier tokens, which must be quoted with the "
             "dialect's quote and denote exactly the name at the definition and every reference; SQLite prepares the statement "
             "against a schema with those names. Held on the cases observed, with recorded known findings (no escaping of the "
             "quote character; bare CTE names).",
        note="Identifier lexing rules per dialect are the trusted base for the non-SQLite dialects.",
        ref="DESIGN.md section 4 C07"),
    "C10": dict(
        technique="token-level containment: outer rendering must hold '(' + tokens of the stand-alone rendering + ')' [+ alias] at the embedding position",
        text="Inner queries from a shape grammar (aliased terms and aliased whole-clause criteria in WHERE/GROUP BY/HAVING/ORDER BY/ON, "
             "nested queries, set operations, limit/offset) are embedded at 20 positions (FROM, JOIN, IN, NOT IN, negated IN, "
             "comparison, select item, CTE body, set operand, INSERT..SELECT, aliased inner at non-defining positions) under six "
             "dialect classes, inline and parameterised; the outer token stream must contain exactly the stand-alone token stream, "
             "wrapped and aliased as the position prescribes. Held on the executions observed.",
        note="Comparison through the reference lexers; placeholders compared by kind.",
        ref="DESIGN.md section 4 C10"),
    "C11": dict(
        technique="reference scope model vs qualifier tokens of uniquely named columns (reference lexers); Field.get_sql render events for shared names; sqlite3 prepare on an all-columns schema",
        text="Statements generated from specifications (kind x source shapes x second source by FROM/JOIN/USING/UPDATE..FROM/foreign "
             "WHERE/self-join x clause) give every Field a unique column name; the qualifier in front of each occurrence must be "
             "exactly what the scope model prescribes (alias for aliased sources, name when several sources are in scope, bare "
             "otherwise and for names without a table); same-named columns of two tables are checked in both operand orders; SQLite "
             "prepares against a schema where every table has every column. Held on the executions observed, two known findings.",
        note="The scope model is written from the property statement; SQLite prepare covers plain/aliased/subquery sources.",
        ref="DESIGN.md section 4 C11"),
    "C12": dict(
        technique="differential tokenisation of aliased vs plain renderings for every Term subclass taken from the live modules",
        text="Every Term subclass/variant (zoo + leaf classes, discovered by introspection) is placed in every defining position "
             "(select list, RETURNING, DISTINCT ON, INSERT..SELECT; FROM/JOIN for sources), in every operand slot of every composite "
             "class (select-list and WHERE context), and referenced from GROUP BY / ORDER BY (selected, unselected, with joins, in "
             "subqueries, in set operations) under six dialect classes; the aliased rendering must equal the plain one plus exactly "
             "one alias token directly after the item in defining positions and be identical in operand positions; SQLite prepares "
             "alias references. Held on the executions observed; five criterion classes that print their alias unconditionally are "
             "recorded known findings (pinned by the suite).",
        note="Token comparison through the reference lexers; SQLite prepare for classes whose SQL SQLite understands.",
        ref="DESIGN.md section 4 C12"),
    "C13": dict(
        technique="reference lexer + per-dialect clause-order tables over all call subsets; all-orders permutation comparison; sqlite3 parser",
        text="All subsets of clause-setting calls per statement kind and dialect are rendered: no lexical errors, balanced "
             "brackets, each top-level clause once and in the dialect's order, empty string while incomplete, SQLite parser "
             "accepts; every order of each 2..5-call group of commuting calls must render the same SQL; repeated calls "
             "accumulate in call order. Held on the executions observed, with three recorded known findings.",
        note="Clause-order tables are the reference for non-SQLite dialects; only SQLite has an engine parser here.",
        ref="DESIGN.md section 4 C13"),
    "C08": dict(
        technique="context invariant at a get_sql hook (class-attribute wrappers) + probe depth-variance + cross-dialect token equality on the neutral subset",
        text="During every root render the wrapped get_sql of every class records the context each nested render receives: dialect "
             "(must be a Dialects member), quote characters, AS policy and Parameterizer identity must equal the root's; nine "
             "dialect-sensitive probes placed at depth 1-3 inside eight nesting constructs (own-class and generic-class nested "
             "builders, inline and parameterised) must render as at depth 0; seeded dialect-neutral programs must tokenise "
             "identically under all six classes. Held on the executions observed for own-class trees; class-bound conventions "
             "in generic-class nested builders are recorded known findings.",
        note="The dialect's convention is defined as what its own class renders at depth 0; lexers per dialect.",
        ref="DESIGN.md section 4 C08"),
    "C09": dict(
        technique="differential tokenisation isolates the row-limiting tail, matched against a per-dialect reference grammar; SQLite executes",
        text="The complete product limit x offset x setter/call order x ORDER BY x embedding position x dialect x "
             "{inline, parameterised} is rendered by the real builders; the tail must be the dialect's row-limiting clause with "
             "the limit/offset sentinels in the right slots (through the placeholders when parameterised); SQLite statements are "
             "executed on a 10-row table. Held on the full product, with recorded known findings for set-operation pagination "
             "and TOP combined with OFFSET/FETCH.",
        note="Reference tail grammars for MySQL/PostgreSQL/SQL Server/Oracle are the trusted base; SQLite is executed.",
        ref="DESIGN.md section 4 C09"),
    "C16": dict(
        technique="runtime differential: build over T_old then replace_table vs the same recipe built over T_new, for every zoo entry and clause slot",
        text="Every Term subclass/variant found in the live modules (the zoo) x operand slot x table pair (plain/aliased/schema/None), "
             "directly and nested under every other entry, and every clause slot of 28 statement shapes x 6 dialect classes: "
             "replace_table(T_old, T_new) must render exactly like the same construction over T_new, the receiver must be "
             "unchanged and third tables untouched. Held on the executions observed.",
        note="Renderings compared under namespace-forced generic and MySQL contexts.",
        ref="DESIGN.md section 4 C16"),
    "C17": dict(
        technique="direct contract monitors (eq/hash/set membership) over an exhaustive variant product; field/table collection vs construction",
        text="All ordered pairs of 336 table variants and of builder/aliased-query/CTE/schema variants are checked for eq=>hash, "
             "symmetry, !=, stability under rendering and set/dict membership vs linear search; sampled triples for "
             "transitivity; fields_()/tables_ of generated expressions (every node kind, shared column names, all operand "
             "orders) are compared with the references the expression was built from; consumer-level differentials (join, "
             "RETURNING, star selection, foreign-table flag). Held on the executions observed.",
        note="Hash collisions between unequal objects are legal and not flagged.",
        ref="DESIGN.md section 4 C17"),
    "C14": dict(
        technique="runtime differential: outcome of each call sequence vs an independent reference verdict (linear availability search with ==)",
        text="Join programs over all source shapes (plain, aliased, schema, temporal, subquery, CTE, set operation; equal copies; "
             "declared/undeclared CTEs; table-less fields) x operand forms x operand orders, set operations of every arity 1-4, "
             "CASE without WHEN, every order of conflict-handler calls up to length 4, RETURNING term kinds x statement kinds and "
             "every one-shot call are executed; the exception class (or its absence) at the named call must equal the reference "
             "verdict in both directions. Held on the executions observed.",
        note="The reference availability rule and conflict-handler model are written from the property statement, not from the code.",
        ref="DESIGN.md section 4 C14"),
    "C15": dict(
        technique="runtime history monitor (C01) over objects duplicated by copy/deepcopy/pickle",
        text="Objects from call forests and fixed graphs (schema chains, NOT wrappers, CTEs, nested subqueries, set operations) "
             "are duplicated with each mechanism; duplicates must fingerprint like the original and both sides stay under the "
             "C01 rebuild monitor while further builder calls are applied to either. Held on the executions observed.",
        note="Same observation function as C01.",
        ref="DESIGN.md section 4 C15"),
    "C18": dict(
        technique="runtime oracle: literal read back by an independent reader over an exhaustive digit-pattern sweep",
        text="Every Interval of the exhaustive 6^7 digit-pattern product (x sign), quarters/weeks and seeded random large "
             "values is rendered by the real library under all six dialect contexts (bare and embedded in a SELECT) and "
             "read back by an independent template/field-layout reader; held on the executions observed.",
        note="Trusts the reader's field layout (Y-M-D h:m:s.us) and the per-dialect quoting form table; no engine for "
             "MySQL/PostgreSQL/Oracle interval syntax.",
        ref="DESIGN.md section 4 C18"),
}

def main():
    checks = []
    for pid in ALL:
        c = CHECKS.get(pid)
        if not c:
            continue
        checks.append({
            "property_id": pid,
            "quick_cmd": "./check %s --tier quick" % pid,
            "thorough_cmd": "./check %s --tier thorough" % pid,
            "evidence_file": "/verif/evidence/%s.json" % pid,
            "replay_cmd_template": "./check replay {path}",
            "engine": "pvm",
            "level_claimed": {"category": "exploration", "text": c["text"], "design_ref": c["ref"]},
            "level_note": c["note"],
            "technique": c["technique"],
        })
    src = []
    try:
        out = subprocess.run(["git", "-C", "/repo", "log", "--format=%H %s"], capture_output=True, text=True).stdout
        # no hook commits: instrumentation is installed from the harness (class-attribute wrappers, sys.monitoring)
    except Exception:
        pass
    man = {
        "version": 1,
        "setup_cmd": "./check selftest",
        "hooks": {
            "guard": "PYPIKA_TORTOISE_VERIF",
            "enable": "no source hooks are committed in /repo: with PYPIKA_TORTOISE_VERIF=1 the harness (pvm/hooks.py) "
                      "wraps class attributes of the live package and attaches sys.monitoring callbacks at run time",
            "baseline_off_cmd": "cd /repo && /venv/bin/python -m pytest -ra -q -p no:cacheprovider --timeout=900 "
                                "--continue-on-collection-errors",
            "source_commits": src,
            "add_only": True,
        },
        "engines": [{"name": "pvm", "path": "/verif/pvm", "serves_properties": [c["property_id"] for c in checks],
                     "kind_free_text": "runtime monitors over generated builder programs executed against the live "
                                       "package; reference lexers/parsers; sqlite3 engine oracle"}],
        "checks": checks,
        "not_applicable": [{"property_id": p, "reason": "check not built yet (work in progress; see DESIGN.md)"}
                           for p in ALL if p not in CHECKS],
        "notes": "All checks: ./check <Cxx> --tier quick|thorough (honours VERIF_SEED). Exit 0 held on observed, "
                 "1 violation, 2 inconclusive. Known findings: /verif/known_findings.json.",
    }
    with open(os.path.join(HERE, "MANIFEST.json"), "w") as f:
        json.dump(man, f, indent=1)
    print("MANIFEST.json: %d checks, %d not_applicable" % (len(checks), len(man["not_applicable"])))

if __name__ == "__main__":
    main()
