#!/usr/bin/env python3
"""Regenerates MANIFEST.json from the table below (kept in one place so the file is always valid)."""
import json, os, subprocess

HERE = os.path.dirname(os.path.dirname(os.path.abspath(__file__)))
ALL = ["C%02d" % i for i in range(1, 19)]

CHECKS = {
    "C18": dict(
        technique="runtime oracle: literal read back by an independent reader over an exhaustive digit-pattern sweep",
        text="Every Interval of the exhaustive 6^7 digit-pattern product (x sign), quarters/weeks and seeded random large "
             "values is rendered by the real library under all six dialect contexts (bare and embedded in a SELECT) and "
             "read back by an independent template/field-layout reader; held on the executions observed.",
        note="Trusts the reader's field layout (Y-M-D h:m:s.us) and the per-dialect quoting form table; no engine for "
             "MySQL/PostgreSQL/Oracle interval syntax.",
        ref="DESIGN.md section 4 C18"),
}

def main():
    checks = []
    for pid in ALL:
        c = CHECKS.get(pid)
        if not c:
            continue
        checks.append({
            "property_id": pid,
            "quick_cmd": "./check %s --tier quick" % pid,
            "thorough_cmd": "./check %s --tier thorough" % pid,
            "evidence_file": "/verif/evidence/%s.json" % pid,
            "replay_cmd_template": "./check replay {path}",
            "engine": "pvm",
            "level_claimed": {"category": "exploration", "text": c["text"], "design_ref": c["ref"]},
            "level_note": c["note"],
            "technique": c["technique"],
        })
    src = []
    try:
        out = subprocess.run(["git", "-C", "/repo", "log", "--format=%H %s"], capture_output=True, text=True).stdout
        # no hook commits: instrumentation is installed from the harness (class-attribute wrappers, sys.monitoring)
    except Exception:
        pass
    man = {
        "version": 1,
        "setup_cmd": "./check selftest",
        "hooks": {
            "guard": "PYPIKA_TORTOISE_VERIF",
            "enable": "no source hooks are committed in /repo: with PYPIKA_TORTOISE_VERIF=1 the harness (pvm/hooks.py) "
                      "wraps class attributes of the live package and attaches sys.monitoring callbacks at run time",
            "baseline_off_cmd": "cd /repo && /venv/bin/python -m pytest -ra -q -p no:cacheprovider --timeout=900 "
                                "--continue-on-collection-errors",
            "source_commits": src,
            "add_only": True,
        },
        "engines": [{"name": "pvm", "path": "/verif/pvm", "serves_properties": [c["property_id"] for c in checks],
                     "kind_free_text": "runtime monitors over generated builder programs executed against the live "
                                       "package; reference lexers/parsers; sqlite3 engine oracle"}],
        "checks": checks,
        "not_applicable": [{"property_id": p, "reason": "check not built yet (work in progress; see DESIGN.md)"}
                           for p in ALL if p not in CHECKS],
        "notes": "All checks: ./check <Cxx> --tier quick|thorough (honours VERIF_SEED). Exit 0 held on observed, "
                 "1 violation, 2 inconclusive. Known findings: /verif/known_findings.json.",
    }
    with open(os.path.join(HERE, "MANIFEST.json"), "w") as f:
        json.dump(man, f, indent=1)
    print("MANIFEST.json: %d checks, %d not_applicable" % (len(checks), len(man["not_applicable"])))

if __name__ == "__main__":
    main()
