#!/usr/bin/env python3
"""Self-validation: apply small property-breaking edits to a scratch copy of /repo and confirm the checks fire.

usage: tools/mutants.py [--tier quick] [--only NAME_SUBSTR] [--props C01,C02]    (mutants from tools/mutants.json)
       tools/mutants.py --diff path/to/patch.diff --props C01,C15
Scratch copies live under a mkdtemp dir and are removed afterwards; /repo itself is never touched.
"""
import argparse, json, os, shutil, subprocess, sys, tempfile, concurrent.futures as cf

HERE = os.path.dirname(os.path.dirname(os.path.abspath(__file__)))

class StaleMutant(Exception):
    pass


def prepare(m, root):
    d = os.path.join(root, m["name"].replace("/", "_"))
    os.makedirs(d)
    shutil.copytree("/repo/pypika_tortoise", os.path.join(d, "pypika_tortoise"), ignore=shutil.ignore_patterns("__pycache__"))
    if "diff" in m:
        r = subprocess.run(["patch", "-p1", "-s", "-i", os.path.abspath(m["diff"])], cwd=d, capture_output=True, text=True)
        if r.returncode:
            raise SystemExit("patch failed for %s: %s%s" % (m["name"], r.stdout, r.stderr))
    else:
        for e in m["edits"]:
            p = os.path.join(d, e["file"])
            s = open(p).read()
            if s.count(e["old"]) != 1:
                raise StaleMutant("pattern occurs %d times in %s" % (s.count(e["old"]), e["file"]))
            open(p, "w").write(s.replace(e["old"], e["new"]))
    return d

def run_check(d, prop, tier, seed):
    env = dict(os.environ, PVM_REPO=d, PVM_OUT=os.path.join(d, "out"), VERIF_SEED=str(seed))
    r = subprocess.run([os.path.join(HERE, "check"), prop, "--tier", tier, "--workers", "4"], cwd=HERE, env=env,
                       capture_output=True, text=True)
    viol = [l for l in r.stdout.splitlines() if l.startswith("VIOLATION")]
    return r.returncode, viol, r.stdout

def suite_ok(d):
    # the mutant must keep the repository's own tests green to be "realistic"
    t = os.path.join(d, "tests")
    if not os.path.exists(t):
        shutil.copytree("/repo/tests", t, ignore=shutil.ignore_patterns("__pycache__"))
        shutil.copy("/repo/conftest.py", d)
        if os.path.exists("/repo/pyproject.toml"):
            shutil.copy("/repo/pyproject.toml", d)
    r = subprocess.run(["/venv/bin/python", "-m", "pytest", "-q", "-p", "no:cacheprovider", "-x"], cwd=d,
                       capture_output=True, text=True, env=dict(os.environ, PYTHONDONTWRITEBYTECODE="1"))
    tail = r.stdout.strip().splitlines()[-1] if r.stdout.strip() else r.stderr[-200:]
    return r.returncode == 0, tail

def main():
    ap = argparse.ArgumentParser()
    ap.add_argument("--tier", default="quick")
    ap.add_argument("--only", default="")
    ap.add_argument("--props", default="")
    ap.add_argument("--diff")
    ap.add_argument("--seed", type=int, default=0)
    ap.add_argument("--no-suite", action="store_true")
    ap.add_argument("-v", action="store_true")
    a = ap.parse_args()
    if a.diff:
        muts = [{"name": os.path.basename(os.path.dirname(os.path.abspath(a.diff))) or "diff", "diff": a.diff,
                 "props": a.props.split(",")}]
    else:
        muts = json.load(open(os.path.join(HERE, "tools", "mutants.json")))
        muts = [m for m in muts if a.only in m["name"]]
        if a.props:
            for m in muts:
                m["props"] = a.props.split(",")
    root = tempfile.mkdtemp(prefix="pvm-mut-")
    missed = 0
    try:
        for m in muts:
            try:
                d = prepare(m, root)
            except StaleMutant as e:
                print("%-44s STALE (%s) - the code it edits has changed; update tools/mutants.json" % (m["name"], e))
                shutil.rmtree(os.path.join(root, m["name"].replace("/", "_")), ignore_errors=True)
                continue
            ok, tail = (True, "skipped") if a.no_suite else suite_ok(d)
            res = []
            for prop in m["props"]:
                rc, viol, out = run_check(d, prop, a.tier, a.seed)
                res.append((prop, rc, len(viol), viol[:1]))
                if a.v:
                    print(out[-1500:])
            caught = any(rc == 1 for _, rc, _, _ in res)
            missed += 0 if caught else 1
            print("%-44s suite:%s  %s  => %s" % (m["name"], "green" if ok else "RED(%s)" % tail,
                  " ".join("%s:rc%d/%dv" % (p, rc, n) for p, rc, n, _ in res), "CAUGHT" if caught else "MISSED"))
            if caught and a.v:
                for _, _, _, v in res:
                    for l in v:
                        print("     " + l[:300])
            shutil.rmtree(d, ignore_errors=True)
    finally:
        shutil.rmtree(root, ignore_errors=True)
    return 1 if missed else 0

if __name__ == "__main__":
    sys.exit(main())
