#!/usr/bin/env python3
"""Re-runs the checks against every stored seeded change (seeded/*/patch.diff) on the current /repo and /verif, and records the
result in meta.json (first_result keeps what the checks said before they were strengthened).
usage: tools/seed_recheck.py [name-prefix ...]"""
import glob, json, os, subprocess, sys
HERE = os.path.dirname(os.path.dirname(os.path.abspath(__file__)))
sel = sys.argv[1:]
for f in sorted(glob.glob(os.path.join(HERE, "seeded", "*", "meta.json"))):
    d = os.path.dirname(f)
    name = os.path.basename(d)
    if sel and not any(name.startswith(x) for x in sel):
        continue
    m = json.load(open(f))
    if m.get("neutralised"):
        print(name, "neutralised by a repair (see meta.json)")
        continue
    props = m.get("checks_run") or [m["property"]]
    r = subprocess.run([sys.executable, os.path.join(HERE, "tools", "mutants.py"), "--diff", os.path.join(d, "patch.diff"), "--props", ",".join(props),
                        "--tier", "quick", "--no-suite"], cwd=HERE, capture_output=True, text=True)
    line = [l for l in r.stdout.splitlines() if "=>" in l]
    res = line[-1] if line else (r.stdout + r.stderr)[-300:]
    if "first_result" not in m:
        m["first_result"] = m.get("checks_result")
        m["caught_at_first"] = m.get("caught")
    m["checks_result"] = res
    m["caught"] = "CAUGHT" in res
    json.dump(m, open(f, "w"), indent=1)
    print(name, "first:", "caught" if m["caught_at_first"] else "MISSED", "| now:", res[-100:])
