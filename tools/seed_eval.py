#!/usr/bin/env python3
"""Confirm an independently seeded change and run the checks against it.

usage: tools/seed_eval.py <worktree> <property> [--props C01,C15] [--tier quick]
For every <worktree>/_seeds/<name>/: apply patch.diff in the worktree, run the library's own suite (must stay green) and
demo.py (must FAIL), revert, run demo.py again (must PASS); then run the named checks against a scratch copy with the
patch (tools/mutants.py --diff) and store everything under /verif/seeded/<property>-<name>/ (patch.diff, demo.py, notes.md, meta.json).
"""
import json, os, shutil, subprocess, sys, argparse

HERE = os.path.dirname(os.path.dirname(os.path.abspath(__file__)))

def sh(cmd, cwd, **kw):
    return subprocess.run(cmd, cwd=cwd, capture_output=True, text=True, **kw)

def main():
    ap = argparse.ArgumentParser()
    ap.add_argument("wt"); ap.add_argument("prop")
    ap.add_argument("--props", default=""); ap.add_argument("--tier", default="quick"); ap.add_argument("--tag", default="")
    a = ap.parse_args()
    props = [p for p in (a.props or a.prop).split(",") if p]
    sd = os.path.join(a.wt, "_seeds")
    for name in sorted(os.listdir(sd)):
        d = os.path.join(sd, name)
        patch = os.path.join(d, "patch.diff")
        if not os.path.exists(patch):
            continue
        meta = {"property": a.prop, "seed": name, "checks_run": props, "tier": a.tier}
        r = sh(["git", "apply", patch], a.wt)
        if r.returncode:
            print(name, "patch does not apply:", r.stderr[:200]); continue
        try:
            t = sh(["/venv/bin/python", "-m", "pytest", "-q", "-p", "no:cacheprovider"], a.wt)
            meta["suite_with_patch"] = (t.stdout.strip().splitlines() or ["?"])[-1]
            dm = sh(["/venv/bin/python", os.path.join("_seeds", name, "demo.py")], a.wt)
            meta["demo_with_patch_rc"] = dm.returncode
            meta["demo_with_patch_out"] = (dm.stdout + dm.stderr)[-600:]
        finally:
            sh(["git", "checkout", "--", "pypika_tortoise"], a.wt)
        dm = sh(["/venv/bin/python", os.path.join("_seeds", name, "demo.py")], a.wt)
        meta["demo_without_patch_rc"] = dm.returncode
        ok = "passed" in meta["suite_with_patch"] and "failed" not in meta["suite_with_patch"] and meta["demo_with_patch_rc"] != 0 and meta["demo_without_patch_rc"] == 0
        meta["confirmed"] = ok
        # does the patch apply to the current /repo?
        r = sh(["git", "-C", "/repo", "apply", "--check", patch], "/")
        meta["applies_to_repo_head"] = r.returncode == 0
        res = sh([sys.executable, os.path.join(HERE, "tools", "mutants.py"), "--diff", patch, "--props", ",".join(props), "--tier", a.tier, "--no-suite"], HERE)
        line = [l for l in res.stdout.splitlines() if "=>" in l]
        meta["checks_result"] = line[-1] if line else (res.stdout + res.stderr)[-400:]
        meta["caught"] = "CAUGHT" in meta["checks_result"]
        out = os.path.join(HERE, "seeded", "%s-%s%s" % (a.prop, (a.tag + "-") if a.tag else "", name))
        os.makedirs(out, exist_ok=True)
        for f in ("patch.diff", "demo.py", "notes.md"):
            if os.path.exists(os.path.join(d, f)):
                shutil.copy(os.path.join(d, f), out)
        if os.path.exists(os.path.join(d, "notes.md")):
            meta["needs"] = open(os.path.join(d, "notes.md")).read()[:1500]
        json.dump(meta, open(os.path.join(out, "meta.json"), "w"), indent=1)
        meta["round"] = a.tag or "r1"
        json.dump(meta, open(os.path.join(out, "meta.json"), "w"), indent=1)
        print("%s-%s confirmed=%s suite=%s demo(with/without)=%s/%s :: %s" % (a.prop, name, ok, meta["suite_with_patch"][:30], meta["demo_with_patch_rc"], meta["demo_without_patch_rc"], meta["checks_result"][-120:]))

if __name__ == "__main__":
    main()
