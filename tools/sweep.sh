#!/bin/sh
# usage: tools/sweep.sh "C01 C02 ..." "0 1 2 3 4" [tier]   - runs each check under several seeds, prints one line per run
cd "$(dirname "$0")/.."
tier=${3:-quick}
out=$(mktemp -d)
for p in $1; do for s in $2; do
  PVM_OUT=$out VERIF_SEED=$s ./check $p --tier $tier > $out/$p.$s.log 2>&1; rc=$?
  echo "$p seed=$s rc=$rc $(grep -c '^VIOLATION' $out/$p.$s.log) violations; $(grep -E '^(INCONCLUSIVE|VIOLATION)' $out/$p.$s.log | head -2 | cut -c1-260)"
done; done
rm -rf "$out"
