import sys, functools, inspect, importlib, pkgutil, threading, time, random
import pypika_tortoise
from pypika_tortoise import *
from pypika_tortoise.dialects import *
mods=[importlib.import_module(m.name) for m in pkgutil.walk_packages(pypika_tortoise.__path__,'pypika_tortoise.')]
# --- H-render: wrap get_sql on every class defining it
events=[]; depth=[0]
def wrap(cls,name,fn):
    @functools.wraps(fn)
    def w(self,*a,**k):
        depth[0]+=1
        try:
            r=fn(self,*a,**k)
            ctx=a[0] if a else k.get('ctx')
            events.append((depth[0],cls.__name__,type(self).__name__,getattr(ctx,'dialect',None),getattr(ctx,'with_alias',None),r))
            return r
        finally: depth[0]-=1
    setattr(cls,name,w)
n=0
for mod in mods:
    for cn,cls in list(vars(mod).items()):
        if inspect.isclass(cls) and cls.__module__==mod.__name__ and 'get_sql' in vars(cls) and inspect.isfunction(vars(cls)['get_sql']):
            wrap(cls,'get_sql',vars(cls)['get_sql']); n+=1
print('wrapped',n)
t=Table('t'); u=Table('u')
q=PostgreSQLQuery.from_(t).select(t.a).where(t.a==[1]).union(PostgreSQLQuery.from_(u).select(u.a))
events.clear(); s=q.get_sql(PostgreSQLQuery.SQL_CONTEXT)
bad=[e for e in events if not isinstance(e[3], pypika_tortoise.enums.Dialects)]
print(len(events),'events; non-enum dialect ctx in',len(bad), bad[:2])
# --- H-reach via sys.monitoring
mon=sys.monitoring; TID=3
mon.use_tool_id(TID,'pvm')
reached=set()
def on_start(code,off):
    if 'pypika_tortoise' in code.co_filename:
        reached.add((code.co_filename.split('pypika_tortoise/')[-1],code.co_qualname))
    return mon.DISABLE
mon.register_callback(TID,mon.events.PY_START,on_start)
mon.set_events(TID,mon.events.PY_START)
str(MSSQLQuery.from_(t).select(t.a).limit(1))
mon.set_events(TID,0)
print('reached',len(reached), sorted(reached)[:5])
# --- H-yield: LINE events + threads
switches=[0]; last=[None]; lock=threading.Lock()
rnd=random.Random(1)
def on_line(code,line):
    if 'pypika_tortoise' not in code.co_filename: return mon.DISABLE
    tid=threading.get_ident()
    if last[0] is not None and last[0]!=tid: switches[0]+=1
    last[0]=tid
    if rnd.random()<0.2: time.sleep(0)
mon.register_callback(TID,mon.events.LINE,on_line)
q2=SQLLiteQuery.update(t).join(u).on(t.a==u.a).set(t.b,u.b)
base=None
outs=set()
def work():
    for _ in range(10): outs.add(q2.get_sql())
sys.setswitchinterval(1e-6)
mon.set_events(TID,mon.events.LINE)
ths=[threading.Thread(target=work) for _ in range(6)]
t0=time.time()
[x.start() for x in ths]; [x.join() for x in ths]
mon.set_events(TID,0)
print('threads done',time.time()-t0,'switches',switches[0],'distinct outputs',len(outs))
