import importlib, inspect, pkgutil
import pypika_tortoise
mods=[]
for m in pkgutil.walk_packages(pypika_tortoise.__path__, 'pypika_tortoise.'):
    mods.append(importlib.import_module(m.name))
seen={}
for mod in mods:
    for n,cls in vars(mod).items():
        if inspect.isclass(cls) and cls.__module__.startswith('pypika_tortoise'):
            for an,a in vars(cls).items():
                if inspect.isfunction(a) and a.__qualname__=='builder.<locals>._copy':
                    inner=a.__closure__[0].cell_contents if a.__closure__ else None
                    # find the func cell
                    f=[c.cell_contents for c in a.__closure__ if inspect.isfunction(c.cell_contents)][0]
                    seen[(cls.__module__,cls.__qualname__,an)]=str(inspect.signature(f))
for k,v in sorted(seen.items()): print(k,v)
print(len(seen), len({(k[0],k[1]) for k in seen}))
