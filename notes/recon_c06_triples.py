import sqlite3, itertools, random, sys
from pypika_tortoise import *
from pypika_tortoise.terms import *
from pypika_tortoise import functions as fn
from pypika_tortoise.enums import *
con=sqlite3.connect(':memory:')
con.execute('create table t(a,b,c,d)')
rows=[(1,2,3,4),(7,3,2,5),(0,1,0,1),(-3,2,-1,2),(5,5,5,5),(None,1,2,3),(2,None,3,1),(9,4,2,0),(1,0,1,0),(0,0,0,0),(6,-2,3,-1)]
con.executemany('insert into t values(?,?,?,?)',rows)
t=Table('t')
leaves=[('a',lambda:t.a),('b',lambda:t.b),('c',lambda:t.c),('3',lambda:ValueWrapper(3)),('-2',lambda:ValueWrapper(-2))]
BIN={'+':lambda l,r:l+r,'-':lambda l,r:l-r,'*':lambda l,r:l*r,'/':lambda l,r:l/r,
 '=':lambda l,r:l==r,'<':lambda l,r:l<r,'<>':lambda l,r:l!=r,
 'AND':lambda l,r:ComplexCriterion(Boolean.and_,l,r),'OR':lambda l,r:ComplexCriterion(Boolean.or_,l,r)}
UN={'neg':lambda x:-x,'NOT':lambda x:Not(x),'ISNULL':lambda x:NullCriterion(x),'IN':lambda x:ContainsCriterion(x,Tuple(1,2)),'BETWEEN':lambda x:BetweenCriterion(x,ValueWrapper(0),ValueWrapper(3))}
def ref(node):
    k=node[0]
    if k=='leaf': return node[1] if not node[1].startswith('-') else '(%s)'%node[1]
    if k in BIN: return '(%s %s %s)'%(ref(node[1]),k,ref(node[2]))
    if k=='neg': return '(-%s)'%ref(node[1])
    if k=='NOT': return '(NOT %s)'%ref(node[1])
    if k=='ISNULL': return '(%s IS NULL)'%ref(node[1])
    if k=='IN': return '(%s IN (1,2))'%ref(node[1])
    if k=='BETWEEN': return '(%s BETWEEN 0 AND 3)'%ref(node[1])
def build(node):
    k=node[0]
    if k=='leaf': return dict(leaves)[node[1]]()
    if k in BIN: return BIN[k](build(node[1]),build(node[2]))
    return UN[k](build(node[1]))
def ev(sql):
    try: return con.execute('select %s from t'%sql).fetchall()
    except Exception as e: return 'ERR:'+str(e)[:40]
L=[('leaf',n) for n,_ in leaves]
def kids(op):
    # children: leaves + one-level composites
    out=list(L[:2])
    return out
viol={}
ops=list(BIN)+list(UN)
def comp(op, x=('leaf','a'), y=('leaf','b')):
    return (op,x,y) if op in BIN else (op,x)
n=0
for p in ops:
    for c in ops+['negleaf']:
        child=('leaf','-2') if c=='negleaf' else comp(c)
        positions=['left','right'] if p in BIN else ['operand']
        for pos in positions:
            if p in BIN: tree=(p,child,('leaf','c')) if pos=='left' else (p,('leaf','c'),child)
            else: tree=(p,child)
            try: sql=build(tree).get_sql(Query.SQL_CONTEXT)
            except Exception as e: viol[(p,pos,c)]='BUILD/RENDER EXC %s'%type(e).__name__; continue
            r1=ev(sql); r2=ev(ref(tree)); n+=1
            if r1!=r2: viol[(p,pos,c)]=(sql,ref(tree))
print(n,'triples;',len(viol),'differ')
for k,v in viol.items(): print(k,v)
