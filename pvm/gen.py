"""Seeded generators of builder programs (see prog.py for the DSL).

`Forest` grows *call trees*: every object ever produced stays live and may be used again as a receiver or as an
argument, which is what creates branching (two continuations of one partial query) and sharing.
The generators never iterate over sets and only use the random.Random instance they are given.
"""
from __future__ import annotations

import datetime as dt
import decimal
import uuid

from .prog import P, Cls, Ref, StrEnumU, IntEnumU, MixIntEnumU, MixStrEnumU, PlainIntEnumU

COLS = ["a", "b", "c", "id"]
TABLES = ["t1", "t2", "t3"]

SCALAR_FNS = [("Coalesce", 2), ("Abs", 1), ("Upper", 1), ("Lower", 1), ("Length", 1), ("NullIf", 2), ("IfNull", 2),
              ("Sqrt", 1), ("Floor", 1), ("Concat", 2), ("Trim", 1), ("Reverse", 1), ("Ascii", 1), ("Substring", 3),
              ("IsNull", 1), ("NVL", 2), ("Date", 1), ("Timestamp", 1)]
AGG_FNS = ["Count", "Sum", "Avg", "Min", "Max", "Std", "StdDev", "First", "Last"]
AN_FNS0 = ["an.Rank", "an.DenseRank", "an.RowNumber"]
AN_FNS1 = ["an.Sum", "an.Avg", "an.Min", "an.Max", "an.Count", "an.Median", "an.NTile", "an.Variance", "an.StdDev",
           "an.VarPop", "an.StdDevPop", "an.VarSamp", "an.StdDevSamp"]
AN_FNSV = ["an.FirstValue", "an.LastValue", "an.Lag", "an.Lead"]
WINDOWED = {"an.Sum", "an.Avg", "an.Min", "an.Max", "an.Count", "an.Variance", "an.StdDev", "an.VarPop",
            "an.StdDevPop", "an.VarSamp", "an.StdDevSamp", "an.FirstValue", "an.LastValue"}
IGNORE_NULLS = {"an.FirstValue", "an.LastValue"}


class Obj:
    __slots__ = ("ref", "kind", "info")

    def __init__(self, ref, kind, **info):
        self.ref = ref
        self.kind = kind
        self.info = info


def benign_const(rnd):
    r = rnd.random()
    if r < 0.35:
        return rnd.choice([0, 1, 2, 5, 10, -1, -3, 42, 100])
    if r < 0.55:
        return rnd.choice(["x", "abc", "foo bar", "", "Z9", "it's", "back\\slash", "q\\'; --"])
    if r < 0.65:
        return rnd.choice([1.5, -0.25, 2.0, 1e3])
    if r < 0.72:
        return rnd.choice([True, False])
    if r < 0.78:
        return None
    if r < 0.83:
        return decimal.Decimal(rnd.choice(["1.10", "-2.5", "100", "123456789.123456789", "0.000001234567", "1E+2", "98765432109876543210.5"]))
    if r < 0.88:
        return dt.date(2020, rnd.randint(1, 12), rnd.randint(1, 28))
    if r < 0.92:
        return dt.datetime(2021, 3, 4, rnd.randint(0, 23), 5, 6, tzinfo=rnd.choice([None, dt.timezone.utc]))
    if r < 0.94:
        return dt.time(rnd.randint(0, 23), 30, 1, tzinfo=rnd.choice([None, dt.timezone(dt.timedelta(hours=2))]))
    if r < 0.96:
        return uuid.UUID(int=rnd.getrandbits(128))
    if r < 0.98:
        return rnd.choice([StrEnumU.plain, IntEnumU.one, MixIntEnumU.high, MixStrEnumU.red, MixStrEnumU.quote, PlainIntEnumU.minus, StrEnumU.pct])
    return rnd.choice([{"k": [1, "v"]}, [1, 2], ["p", "q"]])


class Forest:
    """Grows a forest of builder calls as a program for one dialect class."""

    def __init__(self, rnd, dialect="Query", explicit_alias=True, allow_setops=True):
        self.rnd = rnd
        self.d = dialect
        self.p = P()
        self.objs = {}  # kind -> [Obj]
        self.explicit_alias = explicit_alias
        self.allow_setops = allow_setops
        self.n_alias = 0
        self.calls = []  # (step index, class kind, method) for coverage accounting

    # ---------------------------------------------------------------- pools
    def put(self, ref, kind, **info):
        o = Obj(ref, kind, **info)
        self.objs.setdefault(kind, []).append(o)
        return o

    def pick(self, kind):
        pool = self.objs.get(kind)
        if not pool:
            return None
        # bias to recent objects but keep old ones reachable (branching on shared ancestors)
        if self.rnd.random() < 0.5:
            return pool[-1 - min(len(pool) - 1, int(self.rnd.expovariate(0.7)))]
        return self.rnd.choice(pool)

    def fresh_alias(self, prefix="al"):
        self.n_alias += 1
        return "%s%d" % (prefix, self.n_alias)

    def note(self, ref, kind, method):
        self.calls.append((ref.i, kind, method))

    # ---------------------------------------------------------------- leaves
    def table(self, new=False):
        rnd = self.rnd
        t = None if new else self.pick("table")
        if t is None or rnd.random() < 0.25:
            name = rnd.choice(TABLES)
            kw = {}
            r = rnd.random()
            if r < 0.25:
                kw["alias"] = self.fresh_alias("ta")
            if rnd.random() < 0.15:
                kw["schema"] = rnd.choice(["s1", ["db", "s1"]])
            ref = self.p.new("Table", name, **kw)
            t = self.put(ref, "table", name=name, alias=kw.get("alias"))
        return t

    def field(self, tables=None):
        rnd = self.rnd
        if tables:
            t = rnd.choice(tables)
        else:
            t = self.table()
        col = rnd.choice(COLS)
        r = rnd.random()
        if r < 0.7:
            ref = self.p.call(t.ref, "field", col)
        elif r < 0.9:
            ref = self.p.attr(t.ref, col)
        else:
            ref = self.p.item(t.ref, col)
        return self.put(ref, "term", tables=[t], agg=False)

    def const(self):
        return benign_const(self.rnd)

    # ---------------------------------------------------------------- terms
    def term(self, depth=2, tables=None, agg_ok=False):
        rnd = self.rnd
        if depth <= 0 or rnd.random() < 0.3:
            r = rnd.random()
            if r < 0.6:
                return self.field(tables)
            if r < 0.75 and self.objs.get("term"):
                return self.pick("term")
            ref = self.p.new("ValueWrapper", self.const())
            return self.put(ref, "term", tables=[], agg=False)
        r = rnd.random()
        if r < 0.35:
            a = self.term(depth - 1, tables, agg_ok)
            b = self.term(depth - 1, tables, agg_ok) if rnd.random() < 0.6 else None
            op = rnd.choice(["+", "-", "*", "/"])
            if b is None:
                c = rnd.choice([1, 2, -1, 10, 0.5])
                ref = self.p.bin(op, a.ref, c) if rnd.random() < 0.7 else self.p.bin(op, c, a.ref)
                tabs = a.info.get("tables", [])
            else:
                ref = self.p.bin(op, a.ref, b.ref)
                tabs = a.info.get("tables", []) + b.info.get("tables", [])
            return self.put(ref, "term", tables=tabs, agg=False)
        if r < 0.55:
            name, n = rnd.choice(SCALAR_FNS)
            args = []
            tabs = []
            for _ in range(n):
                if rnd.random() < 0.6:
                    a = self.term(depth - 1, tables, agg_ok)
                    args.append(a.ref)
                    tabs += a.info.get("tables", [])
                else:
                    args.append(rnd.choice([0, 1, "x", 3]))
            ref = self.p.new("fn." + name, *args)
            return self.put(ref, "fn", tables=tabs, agg=False)
        if r < 0.62:
            a = self.term(depth - 1, tables, agg_ok)
            ref = self.p.un("neg", a.ref)
            return self.put(ref, "term", tables=a.info.get("tables", []), agg=False)
        if r < 0.72:
            return self.case(depth - 1, tables)
        if r < 0.78 and agg_ok:
            return self.agg(depth - 1, tables)
        if r < 0.83 and agg_ok:
            return self.analytic(depth - 1, tables)
        if r < 0.88:
            a = self.term(depth - 1, tables, agg_ok)
            ty = rnd.choice(["INTEGER", "VARCHAR", "FLOAT", "const", "const", "sized"])
            if ty in ("const", "sized"):
                # the shared type constants of SqlTypes (module-level objects) and sized types derived from them
                from .prog import Cls
                ty_ref = self.p.attr(Cls("SqlTypes"), rnd.choice(["VARCHAR", "CHAR", "LONG_VARCHAR", "BINARY", "VARBINARY", "LONG_VARBINARY", "INTEGER", "SIGNED"]))
                if ty == "sized" :
                    ty_ref = self.p.call(ty_ref, "__call__", rnd.choice([1, 24, 255]))
                ty = ty_ref
            ref = self.p.new("fn.Cast", a.ref, ty)
            return self.put(ref, "fn", tables=a.info.get("tables", []), agg=False)
        if r < 0.92:
            vals = [self.const() for _ in range(rnd.randint(0, 3))]
            ref = self.p.new(rnd.choice(["Tuple", "Array"]), *[v for v in vals if not isinstance(v, (dict, list))])
            return self.put(ref, "term", tables=[], agg=False)
        if r < 0.95:
            if rnd.random() < 0.5:
                kw = {rnd.choice(["days", "hours", "months", "years", "seconds"]): rnd.randint(1, 30)}
            else:  # composite, either sign, small magnitudes (so that different objects share magnitudes)
                units = rnd.choice([["days", "hours"], ["hours", "minutes"], ["years", "months"], ["days", "hours", "minutes"],
                                    ["minutes", "seconds"], ["seconds", "microseconds"], ["days", "seconds"]])
                sign = rnd.choice([1, 1, -1])
                kw = {u: sign * rnd.randint(1, 4) for u in units}
            ref = self.p.new("Interval", **kw)
            a = self.field(tables)
            ref = self.p.bin(rnd.choice(["+", "-"]), a.ref, ref)
            return self.put(ref, "term", tables=a.info.get("tables", []), agg=False)
        if r < 0.97:
            ref = self.p.new("JSON", rnd.choice([{"k": "v"}, [1, 2, "x"], "s", {"a": {"b": [1]}}]))
            return self.put(ref, "term", tables=[], agg=False)
        a = self.crit(depth - 1, tables)
        return a

    def case(self, depth=1, tables=None):
        rnd = self.rnd
        c = self.pick("case") if rnd.random() < 0.3 else None
        if c is None:
            ref = self.p.new("Case")
            c = self.put(ref, "case", tables=[], n=0)
        for _ in range(rnd.randint(1, 2)):
            cr = self.crit(depth, tables)
            v = self.term(depth, tables) if rnd.random() < 0.5 else None
            ref = self.p.call(c.ref, "when", cr.ref, v.ref if v else self.const_scalar())
            self.note(ref, "Case", "when")
            c = self.put(ref, "case", tables=c.info["tables"] + cr.info.get("tables", []), n=c.info["n"] + 1)
        if rnd.random() < 0.5:
            ref = self.p.call(c.ref, "else_", self.const_scalar())
            self.note(ref, "Case", "else_")
            c = self.put(ref, "case", tables=c.info["tables"], n=c.info["n"])
        return c

    def const_scalar(self):
        return self.rnd.choice([0, 1, "x", "y", 2.5, None, True])

    def agg(self, depth=1, tables=None):
        rnd = self.rnd
        if rnd.random() < 0.25 and self.objs.get("agg"):
            g = self.pick("agg")
        else:
            name = rnd.choice(AGG_FNS)
            if name == "Count" and rnd.random() < 0.3:
                ref = self.p.new("fn.Count", "*")
                tabs = []
            else:
                a = self.term(depth, tables)
                ref = self.p.new("fn." + name, a.ref)
                tabs = a.info.get("tables", [])
            g = self.put(ref, "agg", tables=tabs, name=name, agg=True)
        r = rnd.random()
        if r < 0.25 and g.info["name"] in ("Count", "Sum"):
            ref = self.p.call(g.ref, "distinct")
            self.note(ref, "DistinctOptionFunction", "distinct")
            g = self.put(ref, "agg", **g.info)
        elif r < 0.5:
            cr = self.crit(depth, tables)
            ref = self.p.call(g.ref, "filter", cr.ref)
            self.note(ref, "AggregateFunction", "filter")
            g = self.put(ref, "agg", **g.info)
        return g

    def analytic(self, depth=1, tables=None):
        rnd = self.rnd
        if rnd.random() < 0.3 and self.objs.get("analytic"):
            g = self.pick("analytic")
        else:
            r = rnd.random()
            if r < 0.3:
                name = rnd.choice(AN_FNS0)
                ref = self.p.new(name)
                tabs = []
            elif r < 0.8:
                name = rnd.choice(AN_FNS1)
                a = self.field(tables) if name != "an.NTile" else None
                ref = self.p.new(name, a.ref if a else rnd.randint(2, 5))
                tabs = a.info["tables"] if a else []
            else:
                name = rnd.choice(AN_FNSV)
                a = self.field(tables)
                ref = self.p.new(name, a.ref)
                tabs = a.info["tables"]
            g = self.put(ref, "analytic", tables=tabs, name=name, framed=False)
        for _ in range(rnd.randint(1, 3)):
            r = rnd.random()
            info = dict(g.info)
            if r < 0.35:
                fs = [self.field(tables) for _ in range(rnd.randint(0, 2))]
                ref = self.p.call(g.ref, "over", *[f.ref for f in fs])
                self.note(ref, "AnalyticFunction", "over")
            elif r < 0.7:
                fs = [self.field(tables) for _ in range(rnd.randint(1, 2))]
                kw = {}
                if rnd.random() < 0.5:
                    kw["order"] = rnd.choice([_order("asc"), _order("desc")])
                ref = self.p.call(g.ref, "orderby", *[f.ref for f in fs], **kw)
                self.note(ref, "AnalyticFunction", "orderby")
            elif r < 0.85 and g.info["name"] in WINDOWED and not g.info["framed"]:
                m = rnd.choice(["rows", "range"])
                b1 = self.p.new("an.Preceding", rnd.choice([None, 1, 3]))
                if rnd.random() < 0.5:
                    b2 = rnd.choice(["CURRENT ROW", None])
                    if b2 is None:
                        b2r = self.p.new("an.Following", rnd.choice([None, 2]))
                        ref = self.p.call(g.ref, m, b1, b2r)
                    else:
                        ref = self.p.call(g.ref, m, b1)
                else:
                    ref = self.p.call(g.ref, m, b1)
                self.note(ref, "WindowFrameAnalyticFunction", m)
                info["framed"] = True
            elif r < 0.92 and g.info["name"] in IGNORE_NULLS:
                ref = self.p.call(g.ref, "ignore_nulls")
                self.note(ref, "IgnoreNullsAnalyticFunction", "ignore_nulls")
            else:
                cr = self.crit(0, tables)
                ref = self.p.call(g.ref, "filter", cr.ref)
                self.note(ref, "AggregateFunction", "filter")
            g = self.put(ref, "analytic", **info)
        return g

    # ---------------------------------------------------------------- criteria
    def crit(self, depth=2, tables=None):
        rnd = self.rnd
        r = rnd.random()
        if depth > 0 and r < 0.3:
            a = self.crit(depth - 1, tables)
            b = self.crit(depth - 1, tables)
            ref = self.p.bin(rnd.choice(["&", "|", "^"]), a.ref, b.ref)
            return self.put(ref, "crit", tables=a.info.get("tables", []) + b.info.get("tables", []))
        if depth > 0 and r < 0.38:
            a = self.crit(depth - 1, tables)
            ref = self.p.un("not", a.ref) if rnd.random() < 0.6 else self.p.call(a.ref, "negate")
            return self.put(ref, "crit", tables=a.info.get("tables", []))
        if r < 0.45 and self.objs.get("crit"):
            return self.pick("crit")
        a = self.term(max(0, depth - 1), tables)
        tabs = list(a.info.get("tables", []))
        r = rnd.random()
        if r < 0.45:
            op = rnd.choice(["==", "!=", "<", "<=", ">", ">="])
            if rnd.random() < 0.5:
                b = self.term(max(0, depth - 1), tables)
                tabs += b.info.get("tables", [])
                ref = self.p.bin(op, a.ref, b.ref)
            else:
                ref = self.p.bin(op, a.ref, self.const())
        elif r < 0.55:
            ref = self.p.call(a.ref, rnd.choice(["like", "not_like", "ilike", "glob", "regex", "rlike"]),
                              rnd.choice(["a%", "%b", "_c_", "x*"]))
        elif r < 0.7:
            vals = [rnd.choice([1, 2, 3, "x", "y", 4.5]) for _ in range(rnd.randint(1, 4))]
            ref = self.p.call(a.ref, rnd.choice(["isin", "notin"]), vals)
            if rnd.random() < 0.3:
                ref2 = self.p.call(ref, "negate")
                self.note(ref2, "ContainsCriterion", "negate")
                self.put(ref, "crit", tables=tabs)
                ref = ref2
        elif r < 0.8:
            lo, hi = sorted([rnd.randint(-5, 5), rnd.randint(0, 20)])
            ref = self.p.call(a.ref, "between", lo, hi) if rnd.random() < 0.7 else self.p.item(a.ref, slice(lo, hi))
        elif r < 0.9:
            ref = self.p.call(a.ref, rnd.choice(["isnull", "notnull"]))
        elif r < 0.95:
            ref = self.p.call(a.ref, "bitwiseand", rnd.randint(1, 7))
        else:
            ref = self.p.call(a.ref, rnd.choice(["eq", "ne", "gt", "gte", "lt", "lte"]), self.const())
        return self.put(ref, "crit", tables=tabs)

    # ---------------------------------------------------------------- statements
    def qcls(self):
        return Cls(self.d)

    def select_builder(self, depth=1):
        """A fresh SELECT builder with FROM and at least one select term."""
        rnd = self.rnd
        srcs = []
        r = rnd.random()
        if depth > 0 and r < 0.2:
            sub = self.select_query(depth - 1)
            al = self.fresh_alias("sq")
            sref = self.p.call(sub.ref, "as_", al)
            self.note(sref, "Selectable", "as_")
            src = self.put(sref, "subq", alias=al, nsel=sub.info.get("nsel", 1))
            q = self.p.call(self.qcls(), "from_", src.ref)
            srcs.append(src)
        else:
            t = self.table()
            q = self.p.call(self.qcls(), "from_", t.ref)
            srcs.append(t)
        b = self.put(q, "select", srcs=srcs, nsel=0, joined=[])
        self.note(q, "QueryBuilder", "from_")
        return self.do_select(b)

    def tabs_of(self, b):
        return [s for s in b.info["srcs"] + b.info.get("joined", []) if s.kind in ("table", "subq")]

    def do_select(self, b, n=None):
        rnd = self.rnd
        n = n or rnd.randint(1, 3)
        terms = []
        for _ in range(n):
            r = rnd.random()
            if r < 0.5:
                t = self.field(self.tabs_of(b))
            elif r < 0.85:
                t = self.term(2, self.tabs_of(b), agg_ok=True)
            else:
                t = None
            if t is not None and rnd.random() < 0.35 and t.kind in ("term", "fn", "agg", "analytic", "case", "crit"):
                al = self.fresh_alias("c")
                ar = self.p.call(t.ref, "as_", al)
                self.note(ar, "Term", "as_")
                t = self.put(ar, t.kind, **dict(t.info, alias=al))
            terms.append(t.ref if t is not None else self.const())
        ref = self.p.call(b.ref, "select", *terms)
        self.note(ref, "QueryBuilder", "select")
        info = dict(b.info)
        info["nsel"] = b.info["nsel"] + n
        return self.put(ref, b.kind, **info)

    def select_query(self, depth=1, steps=None):
        b = self.select_builder(depth)
        for _ in range(steps if steps is not None else self.rnd.randint(0, 4)):
            b = self.grow_select(b, depth)
        return b

    def grow_select(self, b, depth=1):
        """One more builder call on a SELECT builder (receiver stays live)."""
        rnd = self.rnd
        tabs = self.tabs_of(b)
        info = dict(b.info)
        m = rnd.choice(["where", "where", "groupby", "having", "orderby", "orderby", "limit", "offset", "slice",
                        "distinct", "select", "join", "join", "from_", "force_index", "use_index", "for_update",
                        "with_", "rollup", "prewhere", "with_totals", "as_", "dialect", "replace_table", "getitem"])
        p = self.p
        kind = b.kind
        if m == "where":
            ref = p.call(b.ref, "where", self.crit(2, tabs).ref)
        elif m == "prewhere":
            ref = p.call(b.ref, "prewhere", self.crit(1, tabs).ref)
        elif m == "having":
            a = self.agg(1, tabs)
            ref = p.call(b.ref, "having", p.bin(rnd.choice([">", "==", "<"]), a.ref, rnd.randint(0, 9)))
        elif m == "groupby":
            ts = [self.field(tabs).ref if rnd.random() < 0.8 else rnd.choice(COLS) for _ in range(rnd.randint(1, 2))]
            ref = p.call(b.ref, "groupby", *ts)
        elif m == "rollup":
            ts = [self.field(tabs).ref for _ in range(rnd.randint(1, 2))]
            kw = {"vendor": "mysql"} if rnd.random() < 0.3 else {}
            ref = p.call(b.ref, "rollup", *ts, **kw)
        elif m == "orderby":
            ts = [self.field(tabs).ref if rnd.random() < 0.8 else rnd.choice(COLS) for _ in range(rnd.randint(1, 2))]
            kw = {"order": rnd.choice([_order("asc"), _order("desc")])} if rnd.random() < 0.5 else {}
            ref = p.call(b.ref, "orderby", *ts, **kw)
        elif m == "limit":
            ref = p.call(b.ref, "limit", rnd.randint(0, 50))
        elif m == "offset":
            ref = p.call(b.ref, "offset", rnd.randint(0, 50))
        elif m == "slice":
            ref = p.call(b.ref, "slice", slice(rnd.choice([None, 0, 3]), rnd.choice([None, 5, 10])))
        elif m == "getitem":
            ref = p.item(b.ref, slice(rnd.choice([None, 2]), rnd.choice([None, 7])))
            m = "slice"
        elif m == "distinct":
            ref = p.call(b.ref, "distinct")
        elif m == "with_totals":
            ref = p.call(b.ref, "with_totals")
        elif m == "select":
            return self.do_select(b, rnd.randint(1, 2))
        elif m == "force_index":
            ref = p.call(b.ref, "force_index", *[rnd.choice(["ix1", "ix2", "ix3"]) for _ in range(rnd.randint(1, 2))])
        elif m == "use_index":
            ix = p.new("Index", rnd.choice(["ix1", "ix2"]))
            ref = p.call(b.ref, "use_index", ix, *([rnd.choice(["ix3"])] if rnd.random() < 0.4 else []))
        elif m == "for_update":
            kw = {}
            if rnd.random() < 0.4:
                kw["nowait"] = True
            elif rnd.random() < 0.3:
                kw["skip_locked"] = True
            if rnd.random() < 0.6:
                kw["of"] = tuple(rnd.sample(["t1", "t2", "t3", "ta", "tb"], rnd.randint(1, 4)))
            ref = p.call(b.ref, "for_update", **kw)
        elif m == "from_":
            t = self.table()
            ref = p.call(b.ref, "from_", t.ref)
            info["srcs"] = b.info["srcs"] + [t]
        elif m == "join":
            return self.do_join(b, depth)
        elif m == "with_":
            sub = self.select_query(0, steps=1)
            name = self.fresh_alias("cte")
            ref = p.call(b.ref, "with_", sub.ref, name)
        elif m == "as_":
            al = self.fresh_alias("q")
            ref = p.call(b.ref, "as_", al)
            self.note(ref, "Selectable", "as_")
            info["alias"] = al
            return self.put(ref, kind, **info)
        elif m == "replace_table":
            told = rnd.choice(tabs) if tabs and tabs[0].kind == "table" else self.table()
            tnew = self.table(new=True)
            if told.kind != "table":
                told = self.table()
            ref = p.call(b.ref, "replace_table", told.ref, tnew.ref)
            info["srcs"] = [tnew if s is told else s for s in b.info["srcs"]]
            info["joined"] = [tnew if s is told else s for s in b.info.get("joined", [])]
        elif m == "dialect":
            return self.dialect_call(b)
        else:
            raise AssertionError(m)
        self.note(ref, "QueryBuilder", m)
        return self.put(ref, kind, **info)

    def dialect_call(self, b):
        rnd, p = self.rnd, self.p
        tabs = self.tabs_of(b)
        if self.d == "MySQLQuery":
            ref = p.call(b.ref, "modifier", rnd.choice(["SQL_CALC_FOUND_ROWS", "HIGH_PRIORITY", "SQL_NO_CACHE"]))
            self.note(ref, "MySQLQueryBuilder", "modifier")
        elif self.d == "PostgreSQLQuery":
            ts = [self.field(tabs).ref if rnd.random() < 0.7 else rnd.choice(COLS) for _ in range(rnd.randint(1, 2))]
            ref = p.call(b.ref, "distinct_on", *ts)
            self.note(ref, "PostgreSQLQueryBuilder", "distinct_on")
        elif self.d == "MSSQLQuery":
            if rnd.random() < 0.5:
                ref = p.call(b.ref, "top", rnd.randint(1, 20))
                self.note(ref, "MSSQLQueryBuilder", "top")
            else:
                ref = p.call(b.ref, "fetch_next", rnd.randint(1, 20))
                self.note(ref, "MSSQLQueryBuilder", "fetch_next")
        else:
            ref = p.call(b.ref, "distinct")
            self.note(ref, "QueryBuilder", "distinct")
        return self.put(ref, b.kind, **b.info)

    def do_join(self, b, depth=1):
        rnd, p = self.rnd, self.p
        tabs = self.tabs_of(b)
        info = dict(b.info)
        r = rnd.random()
        if depth > 0 and r < 0.2:
            sub = self.select_query(depth - 1, steps=1)
            al = self.fresh_alias("sj")
            sref = p.call(sub.ref, "as_", al)
            item = self.put(sref, "subq", alias=al)
        else:
            # joined tables always carry an explicit alias unless their name is new to the statement
            used = {s.info.get("name") for s in tabs if s.kind == "table"}
            name = rnd.choice(TABLES)
            if name in used or rnd.random() < 0.4:
                al = self.fresh_alias("tj")
                item = self.put(p.new("Table", name, alias=al), "table", name=name, alias=al)
            else:
                item = self.put(p.new("Table", name), "table", name=name, alias=None)
        how = rnd.choice([None, "left", "inner", "right", "outer", "cross", "left_outer", "full_outer"])
        named = rnd.random() < 0.3 and how in ("left", "inner", "right", "outer", "cross", "left_outer", "full_outer")
        if named:
            j = p.call(b.ref, how + "_join", item.ref)
        elif how:
            j = p.call(b.ref, "join", item.ref, _enum("JoinType", how))
        else:
            j = p.call(b.ref, "join", item.ref)
        self.note(j, "QueryBuilder", "join")
        self.put(j, "joiner")
        r = rnd.random()
        left = [s for s in tabs if s.kind in ("table", "subq")] or [item]
        if r < 0.6:
            lf = p.call(rnd.choice(left).ref, "field", rnd.choice(COLS))
            rf = p.call(item.ref, "field", rnd.choice(COLS))
            crit = p.bin("==", lf, rf) if rnd.random() < 0.5 else p.bin("==", rf, lf)
            if rnd.random() < 0.3:
                crit = p.bin("&", crit, p.bin(">", p.call(item.ref, "field", "a"), rnd.randint(0, 5)))
            kw = {"collate": "utf8_bin"} if rnd.random() < 0.1 else {}
            ref = p.call(j, "on", crit, **kw)
        elif r < 0.75:
            ref = p.call(j, "on_field", *rnd.sample(COLS, rnd.randint(1, 2)))
        elif r < 0.9:
            ref = p.call(j, "using", *rnd.sample(COLS, rnd.randint(1, 2)))
        else:
            ref = p.call(j, "cross")
        info["joined"] = b.info.get("joined", []) + [item]
        return self.put(ref, b.kind, **info)

    def setop(self, depth=0):
        rnd, p = self.rnd, self.p
        n = rnd.randint(1, 2)
        a = self.select_with_n(n, depth)
        b = self.select_with_n(n, depth)
        m = rnd.choice(["union", "union_all", "intersect", "except_of", "minus"])
        if rnd.random() < 0.2:
            ref = p.bin({"union": "+", "union_all": "*", "minus": "-"}.get(m, "+"), a.ref, b.ref)
        else:
            ref = p.call(a.ref, m, b.ref)
        self.note(ref, "QueryBuilder", m)
        s = self.put(ref, "setop", n=n, base=a)
        for _ in range(rnd.randint(0, 3)):
            s = self.grow_setop(s, depth)
        return s

    def select_with_n(self, n, depth=0):
        t = self.table()
        q = self.p.call(self.qcls(), "from_", t.ref)
        b = self.put(q, "select", srcs=[t], nsel=0, joined=[])
        b = self.do_select(b, n)
        if self.rnd.random() < 0.4:
            b2 = self.put(self.p.call(b.ref, "where", self.crit(1, [t]).ref), "select", **b.info)
            self.note(b2.ref, "QueryBuilder", "where")
            b = b2
        return b

    def grow_setop(self, s, depth=0):
        rnd, p = self.rnd, self.p
        m = rnd.choice(["union", "union_all", "intersect", "except_of", "minus", "orderby", "orderby", "limit", "offset", "as_"])
        if m in ("union", "union_all", "intersect", "except_of", "minus"):
            o = self.select_with_n(s.info["n"], depth)
            ref = p.call(s.ref, m, o.ref)
        elif m == "orderby":
            base = s.info["base"]
            f = self.field(self.tabs_of(base)).ref if rnd.random() < 0.7 else rnd.choice(COLS)
            kw = {"order": _order("desc")} if rnd.random() < 0.4 else {}
            ref = p.call(s.ref, "orderby", f, **kw)
        elif m == "limit":
            ref = p.call(s.ref, "limit", rnd.randint(1, 9))
        elif m == "offset":
            ref = p.call(s.ref, "offset", rnd.randint(1, 9))
        else:
            ref = p.call(s.ref, "as_", self.fresh_alias("so"))
        self.note(ref, "_SetOperation", m)
        return self.put(ref, "setop", **s.info)

    def insert_stmt(self, depth=0):
        rnd, p = self.rnd, self.p
        t = self.table()
        q = p.call(self.qcls(), "into", t.ref)
        self.note(q, "QueryBuilder", "into")
        b = self.put(q, "insert", table=t, ncols=0, conflict=0)
        for _ in range(rnd.randint(1, 5)):
            b = self.grow_insert(b, depth)
        return b

    def grow_insert(self, b, depth=0):
        rnd, p = self.rnd, self.p
        t = b.info["table"]
        info = dict(b.info)
        m = rnd.choice(["columns", "insert", "insert", "replace", "on_conflict", "do_nothing", "do_update", "where",
                        "select", "returning", "with_"])
        if m == "columns":
            cols = rnd.sample(COLS, rnd.randint(1, 3))
            args = [c if rnd.random() < 0.6 else p.call(t.ref, "field", c) for c in cols]
            ref = p.call(b.ref, "columns", *args) if rnd.random() < 0.7 else p.call(b.ref, "columns", args)
        elif m in ("insert", "replace"):
            n = rnd.randint(1, 3)
            if rnd.random() < 0.3:
                rows = [tuple(self.const_row(n)) for _ in range(rnd.randint(1, 2))]
                ref = p.call(b.ref, m, *rows)
            else:
                ref = p.call(b.ref, m, *self.const_row(n))
        elif m == "on_conflict":
            args = [rnd.choice(COLS) if rnd.random() < 0.6 else p.call(t.ref, "field", rnd.choice(COLS))
                    for _ in range(rnd.randint(0, 2))]
            ref = p.call(b.ref, "on_conflict", *args)
            info["conflict"] = 1
        elif m == "do_nothing":
            ref = p.call(b.ref, "do_nothing")
        elif m == "do_update":
            f = rnd.choice(COLS) if rnd.random() < 0.6 else p.call(t.ref, "field", rnd.choice(COLS))
            if rnd.random() < 0.6:
                ref = p.call(b.ref, "do_update", f, rnd.choice([1, "v", 2.5, True]))
            else:
                ref = p.call(b.ref, "do_update", f)
        elif m == "where":
            ref = p.call(b.ref, "where", self.crit(1, [t]).ref)
        elif m == "select":
            src = self.table()
            ref = p.call(p.call(b.ref, "from_", src.ref), "select", *[p.call(src.ref, "field", c) for c in rnd.sample(COLS, rnd.randint(1, 2))])
        elif m == "with_":
            sub = self.select_query(0, steps=0)
            ref = p.call(b.ref, "with_", sub.ref, self.fresh_alias("cte"))
        elif m == "returning":
            if self.d != "PostgreSQLQuery":
                ref = p.call(b.ref, "insert", *self.const_row(1))
                m = "insert"
            else:
                args = [rnd.choice(["*", "id", "a"]) if rnd.random() < 0.5 else p.call(t.ref, "field", rnd.choice(COLS))
                        for _ in range(rnd.randint(1, 2))]
                ref = p.call(b.ref, "returning", *args)
                self.note(ref, "PostgreSQLQueryBuilder", "returning")
                return self.put(ref, "insert", **info)
        self.note(ref, "QueryBuilder", m)
        return self.put(ref, "insert", **info)

    def const_row(self, n):
        rnd = self.rnd
        out = []
        for _ in range(n):
            r = rnd.random()
            if r < 0.8:
                v = self.const()
                if isinstance(v, dict):
                    v = 7
                out.append(v)
            else:
                out.append(self.p.new("ValueWrapper", rnd.choice([1, "w"])))
        return out

    def update_stmt(self, depth=0):
        rnd, p = self.rnd, self.p
        t = self.table()
        q = p.call(self.qcls(), "update", t.ref)
        self.note(q, "QueryBuilder", "update")
        b = self.put(q, "update", table=t, srcs=[t], joined=[])
        for _ in range(rnd.randint(1, 5)):
            b = self.grow_update(b, depth)
        return b

    def grow_update(self, b, depth=0):
        rnd, p = self.rnd, self.p
        t = b.info["table"]
        info = dict(b.info)
        tabs = self.tabs_of(b)
        m = rnd.choice(["set", "set", "where", "join", "from_", "limit", "orderby", "returning", "with_"])
        if m == "set":
            f = rnd.choice(COLS) if rnd.random() < 0.4 else p.call(t.ref, "field", rnd.choice(COLS))
            r = rnd.random()
            v = self.const() if r < 0.6 else self.term(1, tabs).ref
            ref = p.call(b.ref, "set", f, v)
        elif m == "where":
            ref = p.call(b.ref, "where", self.crit(1, tabs).ref)
        elif m == "join":
            return self.do_join(b, 0)
        elif m == "from_":
            s = self.table()
            ref = p.call(b.ref, "from_", s.ref)
            info["srcs"] = b.info["srcs"] + [s]
        elif m == "limit":
            ref = p.call(b.ref, "limit", rnd.randint(1, 9))
        elif m == "orderby":
            ref = p.call(b.ref, "orderby", p.call(t.ref, "field", rnd.choice(COLS)))
        elif m == "with_":
            sub = self.select_query(0, steps=0)
            ref = p.call(b.ref, "with_", sub.ref, self.fresh_alias("cte"))
        else:
            if self.d != "PostgreSQLQuery":
                ref = p.call(b.ref, "where", self.crit(0, tabs).ref)
                m = "where"
            else:
                ref = p.call(b.ref, "returning", p.call(t.ref, "field", rnd.choice(COLS)))
                self.note(ref, "PostgreSQLQueryBuilder", "returning")
                return self.put(ref, "update", **info)
        self.note(ref, "QueryBuilder", m)
        return self.put(ref, "update", **info)

    def delete_stmt(self):
        rnd, p = self.rnd, self.p
        t = self.table()
        q = p.call(p.call(self.qcls(), "from_", t.ref), "delete")
        self.note(q, "QueryBuilder", "delete")
        b = self.put(q, "delete", table=t, srcs=[t], joined=[])
        for _ in range(rnd.randint(0, 3)):
            m = rnd.choice(["where", "orderby", "limit", "returning"])
            if m == "where":
                ref = p.call(b.ref, "where", self.crit(1, [t]).ref)
            elif m == "orderby":
                ref = p.call(b.ref, "orderby", p.call(t.ref, "field", rnd.choice(COLS)))
            elif m == "limit":
                ref = p.call(b.ref, "limit", rnd.randint(1, 5))
            elif self.d == "PostgreSQLQuery":
                ref = p.call(b.ref, "returning", rnd.choice(["*", "id"]))
                self.note(ref, "PostgreSQLQueryBuilder", "returning")
                b = self.put(ref, "delete", **b.info)
                continue
            else:
                continue
            self.note(ref, "QueryBuilder", m)
            b = self.put(ref, "delete", **b.info)
        return b

    def create_stmt(self):
        rnd, p = self.rnd, self.p
        t = self.table()
        q = p.call(self.qcls(), "create_table", t.ref if rnd.random() < 0.7 else rnd.choice(TABLES))
        self.note(q, "CreateQueryBuilder", "create_table")
        b = self.put(q, "create", cols=0, as_select=False)
        for _ in range(rnd.randint(1, 6)):
            b = self.grow_create(b)
        return b

    def grow_create(self, b):
        rnd, p = self.rnd, self.p
        info = dict(b.info)
        m = rnd.choice(["columns", "columns", "columns", "period_for", "unique", "primary_key", "if_not_exists",
                        "temporary", "unlogged", "with_system_versioning", "as_select"])
        if m == "columns":
            cols = []
            for _ in range(rnd.randint(1, 3)):
                r = rnd.random()
                name = rnd.choice(COLS + ["d", "e"])
                if r < 0.3:
                    cols.append(name)
                elif r < 0.6:
                    cols.append((name, rnd.choice(["INT", "VARCHAR(10)", "TEXT"])))
                else:
                    kw = {}
                    if rnd.random() < 0.5:
                        kw["nullable"] = rnd.random() < 0.5
                    if rnd.random() < 0.5:
                        kw["default"] = rnd.choice([0, "dflt", 1.5, True])
                    cols.append(p.new("Column", name, rnd.choice(["INT", "TEXT"]), **kw))
            ref = p.call(b.ref, "columns", *cols)
            info["cols"] = b.info["cols"] + len(cols)
        elif m == "period_for":
            ref = p.call(b.ref, "period_for", rnd.choice(["valid", "p2"]), "a", p.new("Column", "b"))
        elif m == "unique":
            ref = p.call(b.ref, "unique", *rnd.sample(COLS, rnd.randint(1, 2)))
        elif m == "primary_key":
            ref = p.call(b.ref, "primary_key", *rnd.sample(COLS, rnd.randint(1, 2)))
        elif m == "as_select":
            sub = self.select_query(0, steps=1)
            ref = p.call(b.ref, "as_select", sub.ref)
        else:
            ref = p.call(b.ref, m)
        self.note(ref, "CreateQueryBuilder", m)
        return self.put(ref, "create", **info)

    def drop_stmt(self):
        rnd, p = self.rnd, self.p
        t = self.table()
        q = p.call(self.qcls(), "drop_table", t.ref if rnd.random() < 0.7 else rnd.choice(TABLES))
        self.note(q, "DropQueryBuilder", "drop_table")
        b = self.put(q, "drop")
        if rnd.random() < 0.6:
            ref = p.call(b.ref, "if_exists")
            self.note(ref, "DropQueryBuilder", "if_exists")
            b = self.put(ref, "drop")
        return b

    def load_stmt(self):
        p = self.p
        q = p.call(Cls("MySQLQuery"), "load", self.rnd.choice(["/tmp/f.csv", "~/data/f.csv", "~root/f.csv", "$HOME/f.csv", "rel/f.csv", "C:\\data\\f.csv", "it's.csv"]))
        self.note(q, "MySQLLoadQueryBuilder", "load")
        b = self.put(q, "load")
        ref = p.call(b.ref, "into", self.table().ref if self.rnd.random() < 0.5 else "t9")
        self.note(ref, "MySQLLoadQueryBuilder", "into")
        return self.put(ref, "load")

    def table_ops(self):
        rnd, p = self.rnd, self.p
        t = self.table()
        r = rnd.random()
        if r < 0.4:
            al = self.fresh_alias("tx")
            ref = p.call(t.ref, "as_", al)
            self.note(ref, "Selectable", "as_")
            return self.put(ref, "table", name=t.info.get("name"), alias=al)
        if r < 0.7:
            cr = p.bin("==", p.new("SystemTimeValue") if rnd.random() < 0.5 else p.call(t.ref, "field", "valid"), "2020-01-01")
            cr = p.call(p.call(t.ref, "field", "valid_from"), "as_of", "2020-01-01") if rnd.random() < 0.4 else cr
            ref = p.call(t.ref, "for_", cr)
            self.note(ref, "Table", "for_")
        else:
            pc = p.call(p.new("SystemTimeValue"), "from_to", "2020-01-01", "2021-01-01")
            ref = p.call(t.ref, "for_portion", pc)
            self.note(ref, "Table", "for_portion")
        return self.put(ref, "table", name=t.info.get("name"), alias=t.info.get("alias"), temporal=True)

    def replace_table_term(self):
        rnd, p = self.rnd, self.p
        kind = rnd.choice(["term", "crit", "fn", "case", "agg", "analytic"])
        o = self.pick(kind)
        if o is None:
            o = self.crit(2)
        tabs = o.info.get("tables") or [self.table()]
        told = rnd.choice(tabs)
        tnew = self.table(new=True)
        ref = p.call(o.ref, "replace_table", told.ref, tnew.ref)
        self.note(ref, "Term", "replace_table")
        info = dict(o.info)
        info["tables"] = [tnew if t is told else t for t in o.info.get("tables", [])]
        return self.put(ref, o.kind, **info)

    # ---------------------------------------------------------------- forest growth
    def grow(self, n_calls):
        """Grow the forest by about n_calls top-level actions, re-using live objects as receivers."""
        rnd = self.rnd
        for _ in range(n_calls):
            r = rnd.random()
            if r < 0.30:
                b = self.pick("select")
                if b is None or rnd.random() < 0.25:
                    self.select_builder(1)
                else:
                    self.grow_select(b, 1)
            elif r < 0.40:
                b = self.pick("insert")
                if b is None or rnd.random() < 0.3:
                    self.insert_stmt()
                else:
                    self.grow_insert(b)
            elif r < 0.48:
                b = self.pick("update")
                if b is None or rnd.random() < 0.3:
                    self.update_stmt()
                else:
                    self.grow_update(b)
            elif r < 0.52:
                self.delete_stmt()
            elif r < 0.60 and self.allow_setops:
                s = self.pick("setop")
                if s is None or rnd.random() < 0.4:
                    self.setop()
                else:
                    self.grow_setop(s)
            elif r < 0.67:
                b = self.pick("create")
                if b is None or rnd.random() < 0.3:
                    self.create_stmt()
                else:
                    self.grow_create(b)
            elif r < 0.69:
                self.drop_stmt()
            elif r < 0.70 and self.d == "MySQLQuery":
                self.load_stmt()
            elif r < 0.76:
                self.case(1)
            elif r < 0.82:
                self.agg(1)
            elif r < 0.88:
                self.analytic(1)
            elif r < 0.92:
                self.table_ops()
            elif r < 0.96:
                self.replace_table_term()
            else:
                self.crit(2)
        return self.p.prog(dialect=self.d)


def _order(name):
    from .prog import registry
    return getattr(registry()["Order"], name)


def _enum(cls, name):
    from .prog import registry
    return getattr(registry()[cls], name)


def statement(rnd, dialect, kind=None, depth=1):
    """One random statement (program + index of the statement variable)."""
    f = Forest(rnd, dialect)
    kind = kind or rnd.choice(["select", "select", "select", "setop", "insert", "update", "delete", "create", "drop"])
    if kind == "select":
        o = f.select_query(depth)
    elif kind == "setop":
        o = f.setop()
    elif kind == "insert":
        o = f.insert_stmt()
    elif kind == "update":
        o = f.update_stmt()
    elif kind == "delete":
        o = f.delete_stmt()
    elif kind == "create":
        o = f.create_stmt()
    elif kind == "load":
        o = f.load_stmt()
    else:
        o = f.drop_stmt()
    return f.p.prog(dialect=dialect, kind=kind), o.ref.i, f
