"""Runner: shards a check's workload over subprocess workers, merges what the monitors observed,
classifies violations against known_findings.json, writes evidence and replay files.

Check module interface (pvm/checks/cXX.py):
    PROP, RULE, ASSUMPTIONS, ANCHORS (qualnames in pypika_tortoise that the workload must reach)
    cases(tier, seed, shard, nshards) -> iterable of JSON-serialisable cases
    run_case(case, mon) -> None      (reports through mon)
    optional: FLOORS {counter: minimum}, post(mon_merged, tier) hooks, shrink(case, still_fails)
"""
from __future__ import annotations

import argparse
import importlib
import json
import os
import shutil
import subprocess
import sys
import tempfile
import time
import traceback

from . import GUARD, REPO, VERIF
from .prog import canon, phash

MAX_SAMPLES = 6
MAX_VIOL_PER_KEY = 3


class Monitor:
    """Per-worker collector for what the monitors observed."""

    def __init__(self, prop):
        self.prop = prop
        self.evaluations = 0
        self.counters = {}
        self.distinct = set()
        self.samples = []
        self.violations = []  # {key, what, case, detail}
        self.viol_counts = {}
        self.inconclusive = []
        self.sets = {}
        self._case = None

    def count(self, name, n=1):
        self.counters[name] = self.counters.get(name, 0) + n

    def add(self, setname, item):
        self.sets.setdefault(setname, set()).add(item)

    def nontrivial(self, sig=None):
        """Mark the current case as non-trivial; sig (any JSON value) identifies distinctness."""
        self.distinct.add(phash(sig if sig is not None else self._case))

    def sample(self, obj):
        if len(self.samples) < MAX_SAMPLES:
            self.samples.append(obj)

    def violation(self, key, what, detail=None, case=None):
        n = self.viol_counts.get(key, 0)
        self.viol_counts[key] = n + 1
        if n < MAX_VIOL_PER_KEY:
            self.violations.append({"key": key, "what": what, "detail": detail,
                                    "case": case if case is not None else self._case})

    def inconc(self, reason):
        if len(self.inconclusive) < 20:
            self.inconclusive.append(reason)
        self.count("inconclusive_cases")

    def dump(self):
        return {
            "evaluations": self.evaluations,
            "counters": self.counters,
            "distinct": sorted(self.distinct),
            "samples": self.samples,
            "violations": self.violations,
            "viol_counts": self.viol_counts,
            "inconclusive": self.inconclusive,
            "sets": {k: sorted(v) for k, v in self.sets.items()},
        }


def load_check(prop):
    return importlib.import_module("pvm.checks." + prop.lower())


def install_reach():
    """sys.monitoring PY_START reach set over pypika_tortoise code objects (DISABLE after first hit)."""
    reached = set()
    mon = sys.monitoring
    tid = 4
    try:
        mon.use_tool_id(tid, "pvm-reach")
    except ValueError:
        return reached

    def on_start(code, off):
        fn = code.co_filename
        if "pypika_tortoise" in fn:
            reached.add(fn.split("pypika_tortoise/")[-1] + ":" + code.co_qualname)
        return mon.DISABLE

    mon.register_callback(tid, mon.events.PY_START, on_start)
    mon.set_events(tid, mon.events.PY_START)
    return reached


def worker(args):
    os.environ[GUARD] = "1"
    try:
        # a runaway case (a cross join fetched whole, a recursive render) becomes a MemoryError in this worker - an
        # inconclusive harness error - instead of exhausting the machine
        import resource
        resource.setrlimit(resource.RLIMIT_AS, (6 << 30, 6 << 30))
    except Exception:
        pass
    t0 = time.time()
    reached = install_reach()
    mod = load_check(args.prop)
    mon = Monitor(args.prop)
    deadline = t0 + args.watchdog
    timed_out = False
    try:
        for case in mod.cases(args.tier, args.seed, args.shard, args.nshards):
            if time.time() > deadline:
                timed_out = True
                break
            mon._case = case
            mon.evaluations += 1
            try:
                mod.run_case(case, mon)
            except Exception:
                mon.inconc("harness error: " + traceback.format_exc(limit=6)[-1500:])
                mon.count("harness_errors")
        if hasattr(mod, "finish"):
            mod.finish(mon, args.tier, args.seed, args.shard, args.nshards)
    except Exception:
        mon.inconc("generator error: " + traceback.format_exc(limit=8)[-2000:])
        mon.count("harness_errors")
    out = mon.dump()
    out["reached"] = sorted(reached)
    out["timed_out"] = timed_out
    out["wall_s"] = time.time() - t0
    with open(args.out, "w") as f:
        json.dump(out, f, default=repr)
    return 0


def load_known():
    p = os.path.join(VERIF, "known_findings.json")
    if not os.path.exists(p):
        return []
    with open(p) as f:
        return json.load(f).get("findings", [])


def merge(results):
    m = {"evaluations": 0, "counters": {}, "distinct": set(), "samples": [], "violations": [],
         "viol_counts": {}, "inconclusive": [], "sets": {}, "reached": set(), "timed_out": False}
    for r in results:
        m["evaluations"] += r["evaluations"]
        for k, v in r["counters"].items():
            m["counters"][k] = m["counters"].get(k, 0) + v
        m["distinct"].update(r["distinct"])
        for s in r["samples"]:
            if len(m["samples"]) < MAX_SAMPLES:
                m["samples"].append(s)
        m["violations"].extend(r["violations"])
        for k, v in r["viol_counts"].items():
            m["viol_counts"][k] = m["viol_counts"].get(k, 0) + v
        m["inconclusive"].extend(r["inconclusive"])
        for k, v in r["sets"].items():
            m["sets"].setdefault(k, set()).update(v)
        m["reached"].update(r["reached"])
        m["timed_out"] = m["timed_out"] or r["timed_out"]
    return m


def key_matches(pattern, key):
    if pattern.endswith("*"):
        return key.startswith(pattern[:-1])
    return pattern == key


def main_check(args):
    t0 = time.time()
    prop = args.prop
    mod = load_check(prop)
    tier = args.tier
    seed = args.seed
    nshards = args.workers or (getattr(mod, "WORKERS", {}).get(tier) or (8 if tier == "quick" else 16))
    watchdog = getattr(mod, "WATCHDOG", {}).get(tier, 600 if tier == "quick" else 3600)
    scratch = tempfile.mkdtemp(prefix="pvm-%s-" % prop)
    procs = []
    env = dict(os.environ)
    env[GUARD] = "1"
    env["PYTHONDONTWRITEBYTECODE"] = "1"
    env.setdefault("PYTHONHASHSEED", "0")
    env["PYTHONPATH"] = VERIF + os.pathsep + env.get("PYTHONPATH", "")
    try:
        for i in range(nshards):
            out = os.path.join(scratch, "w%d.json" % i)
            cmd = [sys.executable, "-m", "pvm.runner", "worker", prop, "--tier", tier, "--seed", str(seed),
                   "--shard", str(i), "--nshards", str(nshards), "--out", out, "--watchdog", str(watchdog)]
            log = open(os.path.join(scratch, "w%d.log" % i), "w")
            procs.append((subprocess.Popen(cmd, cwd=VERIF, env=env, stdout=log, stderr=subprocess.STDOUT), out, log))
        results = []
        dead = []
        for i, (p, out, log) in enumerate(procs):
            try:
                rc = p.wait(timeout=max(10, watchdog + 120 - (time.time() - t0)))
            except subprocess.TimeoutExpired:
                p.kill()
                rc = -9
            log.close()
            if rc != 0 or not os.path.exists(out):
                with open(log.name) as f:
                    tail = f.read()[-1500:]
                dead.append("worker %d rc=%s: %s" % (i, rc, tail))
            else:
                with open(out) as f:
                    results.append(json.load(f))
        m = merge(results)
    finally:
        shutil.rmtree(scratch, ignore_errors=True)

    # ---- classify violations
    known = [k for k in load_known() if k["property"] == prop]
    known_active = [k for k in known if k.get("status") == "known"]
    new_viol = []
    known_seen = {}
    for v in m["violations"]:
        hit = None
        for k in known_active:
            if key_matches(k["key"], v["key"]):
                hit = k
                break
        if hit:
            known_seen.setdefault(hit["key"], []).append(v)
        else:
            new_viol.append(v)
    n_new = 0
    n_known = 0
    for key, n in m["viol_counts"].items():
        if any(key_matches(k["key"], key) for k in known_active):
            n_known += n
        else:
            n_new += n

    # ---- inconclusive conditions
    inconclusive = list(m["inconclusive"][:10])
    if dead:
        inconclusive.extend(dead)
    if m["timed_out"]:
        inconclusive.append("a worker hit the wall-clock watchdog (%ss)" % watchdog)
    anchors = getattr(mod, "ANCHORS", [])
    reached_q = {r.split(":", 1)[1] for r in m["reached"]}
    missing = [a for a in anchors if a not in reached_q]
    if missing:
        inconclusive.append("anchored functions never reached: %s" % missing)
    floors = getattr(mod, "FLOORS", {})
    if callable(floors):
        floors = floors(tier)
    for cname, floor in floors.items():
        if m["counters"].get(cname, 0) < floor:
            inconclusive.append("counter %s=%d below floor %d" % (cname, m["counters"].get(cname, 0), floor))
    # ceilings: counters of cases that were set aside (the library refused to build / render something the check does not judge)
    # are bounded relative to the number of cases - a change that makes many more cases fall into such a bucket must not pass silently
    ceilings = getattr(mod, "CEILING_RATIOS", {})
    for cname, ratio in ceilings.items():
        got = m["counters"].get(cname, 0)
        if m["evaluations"] and got > ratio * m["evaluations"]:
            inconclusive.append("counter %s=%d is above its ceiling (%.3f of %d cases): cases set aside, not judged" % (cname, got, ratio, m["evaluations"]))
    if m["evaluations"] == 0:
        inconclusive.append("no cases evaluated")
    if hasattr(mod, "post"):
        try:
            mod.post(m, tier, inconclusive)
        except Exception:
            inconclusive.append("post hook failed: " + traceback.format_exc(limit=4)[-800:])

    # ---- replay files + lines
    lines = []
    outroot = os.environ.get("PVM_OUT") or VERIF  # scratch runs against mutated copies write elsewhere
    rdir = os.path.join(outroot, "replays", prop)
    shutil.rmtree(rdir, ignore_errors=True)  # replay files always belong to the latest run
    written = {}
    for v in new_viol:
        if v["key"] in written:
            continue
        os.makedirs(rdir, exist_ok=True)
        name = "%s-%s.json" % ("".join(c if c.isalnum() or c in "._-" else "_" for c in v["key"])[:80],
                               phash(v["case"]))
        path = os.path.join(rdir, name)
        with open(path, "w") as f:
            json.dump({"property": prop, "key": v["key"], "what": v["what"], "detail": v["detail"],
                       "case": v["case"], "tier": tier, "seed": seed}, f, indent=1, default=str)
        written[v["key"]] = path
        lines.append("VIOLATION property=%s replay=%s key=%s :: %s" % (prop, path, v["key"], v["what"][:300]))
    for k in known_active:
        seen = known_seen.get(k["key"])
        total = sum(n for key, n in m["viol_counts"].items() if key_matches(k["key"], key))
        lines.append("KNOWN-FINDING: property=%s key=%s %s [%s]" % (
            prop, k["key"], k["what"], ("reproduced in %d cases this run" % total) if total else "not exercised in this run"))

    # ---- evidence
    coverage = {
        "evaluations": m["evaluations"],
        "distinct_nontrivial": len(m["distinct"]),
        "rule": getattr(mod, "RULE", ""),
        "samples": m["samples"] or [],
        "events": dict(sorted(m["counters"].items())),
        "observed_sets": {k: (sorted(v) if len(v) <= 400 else {"count": len(v), "first": sorted(v)[:60]})
                          for k, v in m["sets"].items()},
        "anchors_required": anchors,
        "anchors_missing": missing,
        "library_functions_reached": len(m["reached"]),
        "workers": nshards,
        "known_findings_seen": {k: len(v) for k, v in known_seen.items()},
        "violation_keys": {k: n for k, n in sorted(m["viol_counts"].items())},
        "inconclusive": inconclusive,
    }
    if hasattr(mod, "coverage_extra"):
        coverage.update(mod.coverage_extra(m, tier))
    verdict = "violated" if new_viol else ("inconclusive" if inconclusive else "held-on-observed")
    coverage["verdict"] = verdict
    ev = {
        "property_id": prop,
        "tier": tier,
        "seed": seed,
        "level": getattr(mod, "LEVEL", "exploration"),
        "coverage": coverage,
        "assumptions": getattr(mod, "ASSUMPTIONS", []),
        "wall_s": round(time.time() - t0, 2),
        "violations": n_new,
    }
    os.makedirs(os.path.join(outroot, "evidence"), exist_ok=True)
    with open(os.path.join(outroot, "evidence", prop + ".json"), "w") as f:
        json.dump(ev, f, indent=1, default=str)

    for ln in lines:
        print(ln)
    print("%s tier=%s seed=%d: %d cases, %d distinct non-trivial, %d new violations (%d keys), %d known-finding hits, "
          "%.1fs, verdict=%s" % (prop, tier, seed, m["evaluations"], len(m["distinct"]), n_new, len(written), n_known,
                                 time.time() - t0, verdict))
    top = sorted(m["counters"].items())
    print("  observed: " + ", ".join("%s=%d" % kv for kv in top[:40]))
    if new_viol:
        return 1
    if inconclusive:
        for r in inconclusive[:8]:
            print("INCONCLUSIVE property=%s: %s" % (prop, r[:600]))
        return 2
    return 0


def main_replay(args):
    os.environ[GUARD] = "1"
    with open(args.path) as f:
        rep = json.load(f)
    prop = rep["property"]
    mod = load_check(prop)
    mon = Monitor(prop)
    mon._case = rep["case"]
    mon.evaluations = 1
    mod.run_case(rep["case"], mon)
    if hasattr(mod, "describe"):
        for ln in mod.describe(rep["case"]):
            print("  " + ln)
    if mon.violations:
        for v in mon.violations:
            print("VIOLATION property=%s replay=%s key=%s :: %s" % (prop, args.path, v["key"], v["what"][:500]))
            if v.get("detail") is not None:
                print("  detail: " + json.dumps(v["detail"], default=str)[:2000])
        return 1
    print("replay: no violation reproduced for %s" % prop)
    return 0


def main(argv=None):
    ap = argparse.ArgumentParser(prog="check")
    sub = ap.add_subparsers(dest="cmd")
    w = sub.add_parser("worker")
    w.add_argument("prop")
    w.add_argument("--tier", default="quick")
    w.add_argument("--seed", type=int, default=0)
    w.add_argument("--shard", type=int, default=0)
    w.add_argument("--nshards", type=int, default=1)
    w.add_argument("--out", required=True)
    w.add_argument("--watchdog", type=float, default=600)
    r = sub.add_parser("replay")
    r.add_argument("path")
    c = sub.add_parser("run")
    c.add_argument("prop")
    c.add_argument("--tier", default=os.environ.get("VERIF_TIER", "quick"))
    c.add_argument("--seed", type=int, default=int(os.environ.get("VERIF_SEED", "0") or 0))
    c.add_argument("--workers", type=int, default=0)
    args = ap.parse_args(argv)
    if args.cmd == "worker":
        return worker(args)
    if args.cmd == "replay":
        return main_replay(args)
    if args.cmd == "run":
        return main_check(args)
    ap.print_help()
    return 2


if __name__ == "__main__":
    sys.exit(main())
