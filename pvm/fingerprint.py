"""Observable fingerprints F(o) and structural snapshots S(o) of live pypika objects."""
from __future__ import annotations

import enum
import hashlib
import types

from . import pin_repo
from .prog import DIALECT_CLASSES, registry

_ctxs = None


def contexts():
    """name -> SqlContext of each of the six dialect classes (read live from the package)."""
    global _ctxs
    if _ctxs is None:
        reg = registry()
        _ctxs = {n: reg[n].SQL_CONTEXT for n in DIALECT_CLASSES}
    return _ctxs


def norm_value(v):
    """repr-normalised parameter value (identity-free)."""
    if hasattr(v, "get_sql") or type(v).__module__.startswith("pypika_tortoise"):
        return "<obj:%s>" % type(v).__name__
    if isinstance(v, (list, tuple)):
        return "%s[%s]" % (type(v).__name__, ",".join(norm_value(x) for x in v))
    if isinstance(v, dict):
        return "{%s}" % ",".join("%s:%s" % (norm_value(k), norm_value(x)) for k, x in v.items())
    if isinstance(v, (set, frozenset)):
        return "set[%s]" % ",".join(sorted(norm_value(x) for x in v))
    return "%s:%r" % (type(v).__name__, v)


def render(o, ctx, param=False):
    """One render observation: ("ok", sql, params|None) or ("exc", ExcName)."""
    reg = registry()
    try:
        if param:
            pz = reg["Parameterizer"]()
            sql = o.get_sql(ctx.copy(parameterizer=pz))
            return ("ok", sql, [norm_value(v) for v in pz.values])
        return ("ok", o.get_sql(ctx), None)
    except RecursionError:
        return ("exc", "RecursionError")
    except Exception as e:
        return ("exc", type(e).__name__)


def _ns_sql(node):
    reg = registry()
    ctx = reg["DEFAULT_SQL_CONTEXT"].copy(with_namespace=True, with_alias=True)
    try:
        return node.get_sql(ctx)
    except Exception as e:
        return "<exc:%s>" % type(e).__name__


def metadata(o):
    reg = registry()
    out = {}
    try:
        out["alias"] = getattr(o, "alias", None) if not isinstance(getattr(o, "alias", None), reg["Term"]) else "<term>"
    except Exception as e:
        out["alias"] = "<exc:%s>" % type(e).__name__
    if isinstance(o, reg["Term"]):
        try:
            out["is_aggregate"] = o.is_aggregate
        except Exception as e:
            out["is_aggregate"] = "<exc:%s>" % type(e).__name__
        try:
            # multiset of rendered nodes (not the hash-deduplicated set: that belongs to C17)
            out["tables"] = sorted(_ns_sql(t) for t in o.find_(reg["Table"]))
        except Exception as e:
            out["tables"] = "<exc:%s>" % type(e).__name__
        try:
            if isinstance(o, reg["QueryBuilder"]):
                out["fields"] = []
            else:
                out["fields"] = sorted(_ns_sql(f) for f in o.find_(reg["Field"]))
        except Exception as e:
            out["fields"] = "<exc:%s>" % type(e).__name__
    if isinstance(o, reg["Table"]):
        # what the table's own statement shortcuts (t.select / t.update / t.insert) build: the Query class bound to the table
        try:
            q = o.select("shortcut_col").where(o.field("shortcut_flag") == True)  # noqa: E712
            out["shortcut"] = "%s:%s" % (type(q).__name__, str(q))
        except Exception as e:
            out["shortcut"] = "<exc:%s>" % type(e).__name__
    if isinstance(o, reg["QueryBuilder"]):
        # the number the next automatically aliased subquery would get (sq<n>)
        out["next_subquery_number"] = getattr(o, "_subquery_count", None)
    return out


def renderable(o):
    return hasattr(o, "get_sql") and not isinstance(o, type)


def F(o, params=True, meta=True, dialects=None, reverse=False):
    """Observable fingerprint: renders under every dialect context, inline and parameterised, + metadata.

    reverse=True visits the contexts (and inline/parameterised) in the opposite order: a fingerprint must not depend on
    the order in which an object was rendered, so comparing the two orders exposes render-order state."""
    out = {}
    if not renderable(o):
        return {"repr": norm_value(o)}
    items = list(contexts().items())
    if reverse:
        items.reverse()
    for name, ctx in items:
        if dialects is not None and name not in dialects:
            continue
        if reverse and params:
            out[name + ":p"] = render(o, ctx, True)
        out[name] = render(o, ctx)
        if params and not reverse:
            out[name + ":p"] = render(o, ctx, True)
    try:
        out["str"] = str(o)
        if " object at 0x" in out["str"]:
            out["str"] = "<default-repr:%s>" % type(o).__name__
    except RecursionError:
        out["str"] = "<exc:RecursionError>"
    except Exception as e:
        out["str"] = "<exc:%s>" % type(e).__name__
    if meta:
        out["meta"] = metadata(o)
    return out


def fdiff(a, b):
    """Keys on which two fingerprints differ."""
    return sorted(k for k in set(a) | set(b) if a.get(k) != b.get(k))


_PRIM = (int, float, str, bytes, bool, type(None), complex)


def S(o, _depth_limit=200):
    """Structural snapshot: sha256 of a canonical serialisation of the reachable object graph."""
    memo = {}
    h = hashlib.sha256()

    def ser(x, depth):
        if isinstance(x, _PRIM):
            return "%s:%r" % (type(x).__name__, x)
        if isinstance(x, enum.Enum):
            return "E:%s.%s" % (type(x).__name__, x.name)
        if isinstance(x, type):
            return "C:%s.%s" % (x.__module__, x.__qualname__)
        if isinstance(x, (types.FunctionType, types.BuiltinFunctionType, types.MethodType)):
            return "fn:%s" % getattr(x, "__qualname__", "?")
        i = id(x)
        if i in memo:
            return "@%d" % memo[i]
        memo[i] = len(memo)
        if depth > _depth_limit:
            return "<deep>"
        if isinstance(x, (list, tuple)):
            return "%s[%s]" % (type(x).__name__, ",".join(ser(y, depth + 1) for y in x))
        if isinstance(x, (set, frozenset)):
            return "set{%s}" % ",".join(sorted(ser(y, depth + 1) for y in x))
        if isinstance(x, dict):
            return "dict{%s}" % ",".join("%s=%s" % (ser(k, depth + 1), ser(v, depth + 1)) for k, v in x.items())
        d = getattr(x, "__dict__", None)
        if d is not None:
            return "%s{%s}" % (type(x).__name__, ",".join("%s=%s" % (k, ser(v, depth + 1)) for k, v in sorted(d.items())))
        sl = getattr(type(x), "__slots__", None)
        if sl:
            return "%s{%s}" % (type(x).__name__, ",".join("%s=%s" % (k, ser(getattr(x, k, None), depth + 1)) for k in sl))
        return "O:%s:%r" % (type(x).__name__, x)

    h.update(ser(o, 0).encode("utf-8", "backslashreplace"))
    return h.hexdigest()


def S_parts(o):
    """attribute -> S(value) of the top-level object (for mechanism keys: which attribute moved)."""
    d = getattr(o, "__dict__", None) or {}
    return {k: S(v) for k, v in d.items()}


def reaches(o, target, limit=5000):
    """Does the object graph of o reach the object `target` (identity)?"""
    seen = set()
    stack = [o]
    n = 0
    while stack and n < limit:
        x = stack.pop()
        n += 1
        if x is target:
            return True
        if isinstance(x, _PRIM) or isinstance(x, (enum.Enum, type)):
            continue
        i = id(x)
        if i in seen:
            continue
        seen.add(i)
        if isinstance(x, (list, tuple, set, frozenset)):
            stack.extend(x)
        elif isinstance(x, dict):
            stack.extend(x.values())
        else:
            d = getattr(x, "__dict__", None)
            if d:
                stack.extend(d.values())
    return False


def module_state():
    """label -> S(value) of every module-level object and data-valued class attribute of the live package.

    Rendering and building may not write to any of these: they are shared by every statement of the process (the type
    constants of SqlTypes, the pseudo columns, the dialect contexts, per-class tables)."""
    import importlib
    import pkgutil
    import sys

    pin_repo()
    pkg = importlib.import_module("pypika_tortoise")
    for m in pkgutil.walk_packages(pkg.__path__, "pypika_tortoise."):
        try:
            importlib.import_module(m.name)
        except Exception:
            pass
    out = {}
    skip = (types.ModuleType, types.FunctionType, types.BuiltinFunctionType, types.MethodType, staticmethod, classmethod, property)
    for modname, mod in sorted(sys.modules.items()):
        if mod is None or not (modname == "pypika_tortoise" or modname.startswith("pypika_tortoise.")):
            continue
        for n, o in sorted(vars(mod).items()):
            if n.startswith("__") or isinstance(o, skip):
                continue
            if isinstance(o, type):
                if getattr(o, "__module__", None) != modname:
                    continue
                for an, av in sorted(vars(o).items()):
                    if an.startswith("__") or isinstance(av, skip) or (callable(av) and not isinstance(av, type) and not hasattr(av, "get_sql")):
                        continue
                    if type(av).__name__ in ("member_descriptor", "getset_descriptor", "wrapper_descriptor", "method_descriptor", "_abc_data"):
                        continue
                    if an.startswith("_abc_") or an in ("_member_map_", "_value2member_map_", "_member_names_", "_hashable_values_", "_unhashable_values_"):
                        continue
                    out["%s.%s.%s" % (modname, n, an)] = S(av)
                if isinstance(o, type) and issubclass(o, enum.Enum):
                    for mem in o:
                        out["%s.%s[%s]" % (modname, n, mem.name)] = S(mem.value)
                continue
            if getattr(type(o), "__module__", "").startswith("typing") or type(o).__name__ in ("TypeVar", "_SpecialForm", "Logger"):
                continue
            out["%s.%s" % (modname, n)] = S(o)
    # default arguments of functions and methods (a mutable default lives as long as the process does)
    def defaults_of(label, fn_):
        fn_ = getattr(fn_, "__func__", fn_)
        fn_ = getattr(fn_, "__wrapped__", fn_)
        d_ = getattr(fn_, "__defaults__", None) or ()
        kd_ = getattr(fn_, "__kwdefaults__", None) or {}
        vals = [v_ for v_ in list(d_) + list(kd_.values()) if isinstance(v_, (list, dict, set)) or (hasattr(v_, "__dict__") and not isinstance(v_, (type, types.FunctionType)))]
        if vals:
            out["defaults:" + label] = S(vals)
    for modname, mod in sorted(sys.modules.items()):
        if mod is None or not (modname == "pypika_tortoise" or modname.startswith("pypika_tortoise.")):
            continue
        for n, o in sorted(vars(mod).items()):
            if isinstance(o, (types.FunctionType, staticmethod, classmethod)) and getattr(getattr(o, "__func__", o), "__module__", None) == modname:
                defaults_of("%s.%s" % (modname, n), o)
            elif isinstance(o, type) and getattr(o, "__module__", None) == modname:
                for an, av in sorted(vars(o).items()):
                    if isinstance(av, (types.FunctionType, staticmethod, classmethod)):
                        defaults_of("%s.%s.%s" % (modname, n, an), av)
    # interpreter-wide settings a render has no business changing
    import decimal as _d
    import os as _os
    out["interpreter.recursionlimit"] = str(sys.getrecursionlimit())
    out["interpreter.decimal-context"] = repr(_d.getcontext())
    out["interpreter.TZ"] = repr(_os.environ.get("TZ"))
    out["interpreter.switchinterval"] = repr(sys.getswitchinterval())
    return out
