"""Sibling-interference programs: one receiver, two continuations A and B drawn from a deliberately tiny shared vocabulary.

The random forests rarely make two branches of one receiver talk about the *same* alias, table or index; these programs do
so systematically.  For every statement family there are a few primed receivers and a list of actions; a program is
    r = prime ; x = A(r) ; y = B(r)
for every ordered pair (A, B).  The deciding oracle stays the history/rebuild differential of C01 (and the render-history
monitor of C02): y must be exactly what its own sub-program (without x) builds, including whether it raises.
"""
from __future__ import annotations

from .prog import P, Cls


def _f(p, t, c):
    return p.call(t, "field", c)


def _eq(p, a, b):
    return p.bin("==", a, b)


def _join(p, r, T, how, item, other, col="id"):
    """r.<how>(fresh Table(item)).on(item.col == other.col): the joined table is a fresh object, so the automatic alias a
    self-join may give it (the one side effect C01 permits) lands on no object another branch shares."""
    j = p.new("Table", item)
    return p.call(p.call(r, how, j), "on", _eq(p, _f(p, j, col), _f(p, T[other], col)))


def _join_sub(p, r, T, s):
    return p.call(p.call(r, "join", s), "on", _eq(p, _f(p, s, "id"), _f(p, T["t1"], "id")))


def _retry_join(p, r, T):
    """j = r.join(t2); j.on(<criterion naming a table that is no source>) is rejected; j.on(<valid criterion>) on the same pending join."""
    t2 = p.new("Table", "t2")
    j = p.call(r, "join", t2)
    p.call(j, "on", _eq(p, _f(p, t2, "id"), _f(p, p.new("Table", "nowhere"), "id")))
    return p.call(j, "on", _eq(p, _f(p, t2, "id"), _f(p, T["t1"], "id")))


def families(dialect):
    """family -> (primes, actions); prime(p, T) -> receiver ref; action(p, r, T) -> ref.  T = dict of table refs."""
    Q = Cls(dialect)

    def sub(p, T, t, col, alias=None):
        q = p.call(p.call(Q, "from_", T[t]), "select", _f(p, T[t], col))
        return p.call(q, "as_", alias) if alias else q

    sel_primes = [
        ("from-select", lambda p, T: p.call(p.call(Q, "from_", T["t1"]), "select", _f(p, T["t1"], "a"))),
        ("from-only", lambda p, T: p.call(Q, "from_", T["t1"])),
        ("grouped", lambda p, T: p.call(p.call(p.call(Q, "from_", T["t1"]), "select", _f(p, T["t1"], "a")), "groupby", _f(p, T["t1"], "a"))),
        ("joined", lambda p, T: p.call(p.call(p.call(p.call(Q, "from_", T["t1"]), "select", _f(p, T["t1"], "a")), "join", T["t2"]), "on",
                                       _eq(p, _f(p, T["t1"], "id"), _f(p, T["t2"], "id")))),
    ]
    sel_primes.append(("with-cte", lambda p, T: p.call(p.call(p.call(Q, "with_", sub(p, T, "t3", "a"), "c1"), "from_", T["t1"]), "select", _f(p, T["t1"], "a"))))
    sel_actions = [
        ("select-b", lambda p, r, T: p.call(r, "select", _f(p, T["t1"], "b"))),
        ("select-sum-as-x", lambda p, r, T: p.call(r, "select", p.call(p.new("fn.Sum", _f(p, T["t1"], "b")), "as_", "x"))),
        ("select-count-as-y", lambda p, r, T: p.call(r, "select", p.call(p.new("fn.Count", _f(p, T["t1"], "c")), "as_", "y"))),
        ("select-c-as-x", lambda p, r, T: p.call(r, "select", p.call(_f(p, T["t1"], "c"), "as_", "x"))),
        ("select-star", lambda p, r, T: p.call(r, "select", "*")),
        ("select-t1-star", lambda p, r, T: p.call(r, "select", p.attr(T["t1"], "star"))),
        ("select-str-b", lambda p, r, T: p.call(r, "select", "b")),
        ("select-t2-b", lambda p, r, T: p.call(r, "select", _f(p, T["t2"], "b"))),
        ("groupby-c-as-x", lambda p, r, T: p.call(r, "groupby", p.call(_f(p, T["t1"], "c"), "as_", "x"))),
        ("groupby-b", lambda p, r, T: p.call(r, "groupby", _f(p, T["t1"], "b"))),
        ("groupby-str-x", lambda p, r, T: p.call(r, "groupby", "x")),
        ("orderby-c-as-x", lambda p, r, T: p.call(r, "orderby", p.call(_f(p, T["t1"], "c"), "as_", "x"))),
        ("orderby-b-as-y", lambda p, r, T: p.call(r, "orderby", p.call(_f(p, T["t1"], "b"), "as_", "y"))),
        ("orderby-str-x", lambda p, r, T: p.call(r, "orderby", "x")),
        ("orderby-b", lambda p, r, T: p.call(r, "orderby", _f(p, T["t1"], "b"))),
        ("where-a", lambda p, r, T: p.call(r, "where", _eq(p, _f(p, T["t1"], "a"), 1))),
        ("where-b", lambda p, r, T: p.call(r, "where", p.bin(">", _f(p, T["t1"], "b"), 2))),
        ("where-foreign-t3", lambda p, r, T: p.call(r, "where", _eq(p, _f(p, T["t1"], "a"), _f(p, T["t3"], "a")))),
        ("where-t2", lambda p, r, T: p.call(r, "where", _eq(p, _f(p, T["t2"], "a"), 5))),
        ("having", lambda p, r, T: p.call(r, "having", p.bin(">", p.new("fn.Count", _f(p, T["t1"], "a")), 1))),
        ("from-t2", lambda p, r, T: p.call(r, "from_", T["t2"])),
        ("from-t3", lambda p, r, T: p.call(r, "from_", T["t3"])),
        ("from-subquery", lambda p, r, T: p.call(r, "from_", sub(p, T, "t2", "a", "s"))),
        # un-aliased subqueries (fresh objects: the automatic alias sq<n> lands on no shared object, its number must not depend on siblings)
        ("from-unaliased-subquery", lambda p, r, T: p.call(r, "from_", sub(p, T, "t3", "a"))),
        ("join-unaliased-subquery", lambda p, r, T: _join_sub(p, r, T, sub(p, T, "t2", "id"))),
        ("join-unaliased-subquery-2", lambda p, r, T: _join_sub(p, r, T, sub(p, T, "t3", "id"))),
        ("join-unaliased-subquery-dangling", lambda p, r, T: p.call(r, "join", sub(p, T, "t3", "id"))),
        ("join-t2", lambda p, r, T: _join(p, r, T, "join", "t2", "t1")),
        ("join-t2-retry-after-rejected-on", _retry_join),
        ("join-t3-on-t1", lambda p, r, T: _join(p, r, T, "join", "t3", "t1")),
        ("join-t3-on-t2", lambda p, r, T: _join(p, r, T, "join", "t3", "t2")),
        ("join-t2-using", lambda p, r, T: p.call(p.call(r, "join", p.new("Table", "t2")), "using", "id")),
        ("left-join-t2", lambda p, r, T: _join(p, r, T, "left_join", "t2", "t1", "a")),
        ("cross-join-t3", lambda p, r, T: p.call(p.call(r, "join", p.new("Table", "t3")), "cross")),
        ("join-self", lambda p, r, T: p.call(p.call(r, "join", T["t1b"]), "on", _eq(p, _f(p, T["t1"], "id"), _f(p, T["t1b"], "id")))),
        ("limit-3", lambda p, r, T: p.call(r, "limit", 3)),
        ("limit-7", lambda p, r, T: p.call(r, "limit", 7)),
        ("offset-2", lambda p, r, T: p.call(r, "offset", 2)),
        ("slice", lambda p, r, T: p.item(r, slice(1, 4))),
        ("slice-all", lambda p, r, T: p.item(r, slice(None, None))),
        ("slice-from", lambda p, r, T: p.item(r, slice(2, None))),
        ("distinct", lambda p, r, T: p.call(r, "distinct")),
        ("for-update-of-t1", lambda p, r, T: p.call(r, "for_update", of=("t1",))),
        ("for-update-of-t2", lambda p, r, T: p.call(r, "for_update", of=("t2",))),
        ("for-update-nowait", lambda p, r, T: p.call(r, "for_update", nowait=True)),
        ("for-update", lambda p, r, T: p.call(r, "for_update")),
        ("use-index-i1", lambda p, r, T: p.call(r, "use_index", "i1")),
        ("use-index-i2", lambda p, r, T: p.call(r, "use_index", "i2")),
        ("force-index-i1", lambda p, r, T: p.call(r, "force_index", "i1")),
        ("with-c1", lambda p, r, T: p.call(r, "with_", sub(p, T, "t2", "a"), "c1")),
        ("with-c2", lambda p, r, T: p.call(r, "with_", sub(p, T, "t3", "a"), "c2")),
        ("with-c1-other-body", lambda p, r, T: p.call(r, "with_", sub(p, T, "t2", "b"), "c1")),
        ("union", lambda p, r, T: p.call(r, "union", sub(p, T, "t2", "a"))),
        ("replace-t1-t2", lambda p, r, T: p.call(r, "replace_table", T["t1"], T["t2"])),
        ("replace-t2-t3", lambda p, r, T: p.call(r, "replace_table", T["t2"], T["t3"])),
        ("as-q", lambda p, r, T: p.call(r, "as_", "q")),
        ("rollup-b", lambda p, r, T: p.call(r, "rollup", _f(p, T["t1"], "b"))),
        ("with-totals", lambda p, r, T: p.call(r, "with_totals")),
        ("into-t8", lambda p, r, T: p.call(r, "into", "t8")),
        ("prewhere", lambda p, r, T: p.call(r, "prewhere", _eq(p, _f(p, T["t1"], "c"), 3))),
        ("delete", lambda p, r, T: p.call(r, "delete")),
        ("distinct-on-a", lambda p, r, T: p.call(r, "distinct_on", _f(p, T["t1"], "a"))),
        ("distinct-on-b", lambda p, r, T: p.call(r, "distinct_on", "b")),
        ("modifier", lambda p, r, T: p.call(r, "modifier", "SQL_CALC_FOUND_ROWS")),
        ("modifier-2", lambda p, r, T: p.call(r, "modifier", "HIGH_PRIORITY")),
        ("top-5", lambda p, r, T: p.call(r, "top", 5)),
        ("render", lambda p, r, T: p.call(r, "get_sql")),
        ("str", lambda p, r, T: p.call(r, "__str__")),
        ("copy", lambda p, r, T: p.dup("copy", r)),
        ("hash", lambda p, r, T: p.call(r, "__hash__")),
    ]
    ins_primes = [
        ("into", lambda p, T: p.call(Q, "into", T["t1"])),
        ("into-values-conflict", lambda p, T: p.call(p.call(p.call(Q, "into", T["t1"]), "insert", 1, 2), "on_conflict", "id")),
        ("into-columns", lambda p, T: p.call(p.call(Q, "into", T["t1"]), "columns", "id", "a")),
    ]
    ins_actions = [
        ("columns-a-b", lambda p, r, T: p.call(r, "columns", "a", "b")),
        ("columns-c", lambda p, r, T: p.call(r, "columns", _f(p, T["t1"], "c"))),
        ("insert-1-2", lambda p, r, T: p.call(r, "insert", 1, 2)),
        ("insert-3-4", lambda p, r, T: p.call(r, "insert", 3, 4)),
        ("insert-tuple", lambda p, r, T: p.call(r, "insert", (5, 6), (7, 8))),
        ("replace", lambda p, r, T: p.call(r, "replace", 1, 2)),
        ("ignore", lambda p, r, T: p.call(r, "ignore")),
        ("on-conflict-id", lambda p, r, T: p.call(r, "on_conflict", "id")),
        ("on-conflict-a", lambda p, r, T: p.call(r, "on_conflict", _f(p, T["t1"], "a"))),
        ("do-nothing", lambda p, r, T: p.call(r, "do_nothing")),
        ("do-update-a", lambda p, r, T: p.call(r, "do_update", "a", 1)),
        ("do-update-b", lambda p, r, T: p.call(r, "do_update", "b")),
        ("where", lambda p, r, T: p.call(r, "where", _eq(p, _f(p, T["t1"], "a"), 1))),
        ("returning-id", lambda p, r, T: p.call(r, "returning", "id")),
        ("returning-a", lambda p, r, T: p.call(r, "returning", _f(p, T["t1"], "a"))),
        ("returning-star", lambda p, r, T: p.call(r, "returning", "*")),
        ("from-select", lambda p, r, T: p.call(p.call(r, "from_", T["t2"]), "select", _f(p, T["t2"], "a"), _f(p, T["t2"], "b"))),
        ("with-c1", lambda p, r, T: p.call(r, "with_", sub(p, T, "t2", "a"), "c1")),
        ("replace-t1-t2", lambda p, r, T: p.call(r, "replace_table", T["t1"], T["t2"])),
        ("render", lambda p, r, T: p.call(r, "get_sql")),
        ("copy", lambda p, r, T: p.dup("copy", r)),
    ]
    upd_primes = [
        ("update", lambda p, T: p.call(Q, "update", T["t1"])),
        ("update-set", lambda p, T: p.call(p.call(Q, "update", T["t1"]), "set", "a", 1)),
        ("update-set-join", lambda p, T: p.call(p.call(p.call(p.call(Q, "update", T["t1"]), "set", "a", 1), "join", T["t2"]), "on",
                                                _eq(p, _f(p, T["t1"], "id"), _f(p, T["t2"], "id")))),
    ]
    upd_actions = [
        ("set-a", lambda p, r, T: p.call(r, "set", "a", 9)),
        ("set-b", lambda p, r, T: p.call(r, "set", _f(p, T["t1"], "b"), 2)),
        ("set-b-from-t2", lambda p, r, T: p.call(r, "set", "b", _f(p, T["t2"], "b"))),
        ("where-a", lambda p, r, T: p.call(r, "where", _eq(p, _f(p, T["t1"], "a"), 1))),
        ("where-foreign", lambda p, r, T: p.call(r, "where", _eq(p, _f(p, T["t1"], "a"), _f(p, T["t3"], "a")))),
        ("from-t2", lambda p, r, T: p.call(r, "from_", T["t2"])),
        ("from-t3", lambda p, r, T: p.call(r, "from_", T["t3"])),
        ("join-t2", lambda p, r, T: _join(p, r, T, "join", "t2", "t1")),
        ("join-t3-on-t2", lambda p, r, T: _join(p, r, T, "join", "t3", "t2")),
        ("returning-id", lambda p, r, T: p.call(r, "returning", "id")),
        ("returning-t1-b", lambda p, r, T: p.call(r, "returning", _f(p, T["t1"], "b"))),
        ("returning-t2-b", lambda p, r, T: p.call(r, "returning", _f(p, T["t2"], "b"))),
        ("limit", lambda p, r, T: p.call(r, "limit", 3)),
        ("orderby", lambda p, r, T: p.call(r, "orderby", _f(p, T["t1"], "a"))),
        ("with-c1", lambda p, r, T: p.call(r, "with_", sub(p, T, "t2", "a"), "c1")),
        ("replace-t1-t2", lambda p, r, T: p.call(r, "replace_table", T["t1"], T["t2"])),
        ("render", lambda p, r, T: p.call(r, "get_sql")),
        ("copy", lambda p, r, T: p.dup("copy", r)),
    ]
    del_primes = [
        ("delete", lambda p, T: p.call(p.call(Q, "from_", T["t1"]), "delete")),
    ]
    del_actions = [a for a in sel_actions if a[0] in ("where-a", "where-b", "where-foreign-t3", "from-t2", "limit-3", "orderby-b", "with-c1",
                                                      "replace-t1-t2", "render", "copy", "join-t2", "join-t3-on-t2")] + [
        ("returning-id", lambda p, r, T: p.call(r, "returning", "id")),
        ("returning-t1-b", lambda p, r, T: p.call(r, "returning", _f(p, T["t1"], "b"))),
        ("returning-t2-b", lambda p, r, T: p.call(r, "returning", _f(p, T["t2"], "b"))),
    ]
    col = lambda p, n, ty: p.new("Column", n, ty)  # noqa: E731
    cre_primes = [
        ("create", lambda p, T: p.call(Q, "create_table", T["t1"])),
        ("create-columns", lambda p, T: p.call(p.call(Q, "create_table", T["t1"]), "columns", col(p, "id", "INT"), col(p, "a", "INT"))),
    ]
    cre_actions = [
        ("columns-b", lambda p, r, T: p.call(r, "columns", col(p, "b", "INT"))),
        ("columns-c-d", lambda p, r, T: p.call(r, "columns", col(p, "c", "TEXT"), ("d", "INT"))),
        ("period-for", lambda p, r, T: p.call(r, "period_for", "p1", "a", "b")),
        ("period-for-2", lambda p, r, T: p.call(r, "period_for", "p2", "c", "d")),
        ("unique-a", lambda p, r, T: p.call(r, "unique", "a")),
        ("unique-b-c", lambda p, r, T: p.call(r, "unique", "b", "c")),
        ("primary-key", lambda p, r, T: p.call(r, "primary_key", "id")),
        ("temporary", lambda p, r, T: p.call(r, "temporary")),
        ("unlogged", lambda p, r, T: p.call(r, "unlogged")),
        ("if-not-exists", lambda p, r, T: p.call(r, "if_not_exists")),
        ("system-versioning", lambda p, r, T: p.call(r, "with_system_versioning")),
        ("as-select", lambda p, r, T: p.call(r, "as_select", sub(p, T, "t2", "a"))),
        ("render", lambda p, r, T: p.call(r, "get_sql")),
        ("copy", lambda p, r, T: p.dup("copy", r)),
    ]
    # set operations as receivers: built from default-mode operands, from an operand built with immutable=False, from three branches
    def msub(p, T, t, col):
        return p.call(p.call(Q, "from_", T[t], immutable=False), "select", _f(p, T[t], col))
    so_primes = [
        ("union", lambda p, T: p.call(sub(p, T, "t1", "a"), "union", sub(p, T, "t2", "a"))),
        # (the in-place operands are over t3, which no action replaces: replace_table on an immutable=False builder rewrites that
        #  builder in place by design, and a set operation shares its operands)
        ("union-mutable-operand", lambda p, T: p.call(sub(p, T, "t1", "a"), "union", msub(p, T, "t3", "a"))),
        ("intersect-mutable-operand", lambda p, T: p.call(sub(p, T, "t1", "a"), "intersect", msub(p, T, "t3", "a"))),
        ("three-branches", lambda p, T: p.call(p.call(sub(p, T, "t1", "a"), "union_all", sub(p, T, "t2", "a")), "except_of", msub(p, T, "t3", "a"))),
    ]
    so_actions = [
        ("orderby-a", lambda p, r, T: p.call(r, "orderby", _f(p, T["t1"], "a"))),
        ("orderby-str", lambda p, r, T: p.call(r, "orderby", "a")),
        ("limit-3", lambda p, r, T: p.call(r, "limit", 3)),
        ("limit-7", lambda p, r, T: p.call(r, "limit", 7)),
        ("offset-2", lambda p, r, T: p.call(r, "offset", 2)),
        ("union-more", lambda p, r, T: p.call(r, "union", sub(p, T, "t3", "b"))),
        ("minus-more", lambda p, r, T: p.call(r, "minus", sub(p, T, "t2", "b"))),
        # the operator spellings (+ union, * intersect, - minus)
        ("plus-more", lambda p, r, T: p.bin("+", r, sub(p, T, "t3", "c"))),
        ("times-more", lambda p, r, T: p.bin("*", r, sub(p, T, "t2", "c"))),
        ("minus-op-more", lambda p, r, T: p.bin("-", r, sub(p, T, "t3", "b"))),
        ("replace-t1-t3", lambda p, r, T: p.call(r, "replace_table", T["t1"], T["t3"])),
        ("replace-t2-t3", lambda p, r, T: p.call(r, "replace_table", T["t2"], T["t3"])),
        ("as-u", lambda p, r, T: p.call(r, "as_", "u")),
        ("as-v", lambda p, r, T: p.call(r, "as_", "v")),
        ("render", lambda p, r, T: p.call(r, "get_sql", p.attr(Q, "SQL_CONTEXT"))),
        ("str", lambda p, r, T: p.call(r, "__str__")),
        ("copy", lambda p, r, T: p.dup("copy", r)),
    ]
    return {
        "setop": (so_primes, so_actions),
        "select": (sel_primes, sel_actions),
        "insert": (ins_primes, ins_actions),
        "update": (upd_primes, upd_actions),
        "delete": (del_primes, del_actions),
        "create": (cre_primes, cre_actions),
    }


def tables(p):
    return {"t1": p.new("Table", "t1"), "t2": p.new("Table", "t2"), "t3": p.new("Table", "t3"), "t1b": p.new("Table", "t1", alias="t1b")}


def pair_specs(dialect):
    """All (family, prime name, action A name, action B name)."""
    for fam, (primes, actions) in families(dialect).items():
        for pn, _ in primes:
            for an, _ in actions:
                for bn, _ in actions:
                    yield fam, pn, an, bn


def pair_program(dialect, fam, pn, an, bn, chain=False):
    """r = prime; x = A(r); y = B(r)   (chain: y = B(x), z = A(r) - a grandchild and a late sibling)."""
    primes, actions = families(dialect)[fam]
    prime = dict(primes)[pn]
    A, B = dict(actions)[an], dict(actions)[bn]
    p = P()
    T = tables(p)
    r = prime(p, T)
    x = A(p, r, T)
    y = B(p, x if chain else r, T)
    want = [r.i, x.i, y.i]
    if chain:
        z = B(p, r, T)
        want.append(z.i)
    return p.prog(dialect=dialect, pair="%s/%s/%s/%s" % (fam, pn, an, bn)), want


def dup_program(dialect, fam, pn, an, bn, how):
    """r = prime; d = duplicate(r); x = A(d); y = B(r); z = A(r): a continuation on the duplicate, then two on the original.

    bn == "join-same-table-object" (deepcopy / pickle only): the original joins the very Table object of its FROM clause, which
    gives that object its automatic alias in place (permitted by C01 for the argument); a deep duplicate holds its own copy of
    the table and must not notice - only the duplicate and its continuation are judged."""
    primes, actions = families(dialect)[fam]
    prime = dict(primes)[pn]
    A = dict(actions)[an]
    p = P()
    T = tables(p)
    r = prime(p, T)
    d = p.dup(how, r)
    if bn == "join-same-table-object":
        # (continuations of the duplicate would have to name columns through the original's table object, whose alias has just
        #  changed: only the duplicate itself is judged)
        r2 = A(p, r, T)
        d2 = p.dup(how, r2)
        y = p.call(p.call(r2, "join", T["t1"]), "on", _eq(p, _f(p, T["t1"], "id"), _f(p, T["t1"], "id")))
        return p.prog(dialect=dialect, pair="%s/%s/%s/%s/%s" % (fam, pn, an, bn, how)), [], [d.i, d2.i]
    B = dict(actions)[bn]
    x = A(p, d, T)
    y = B(p, r, T)
    z = A(p, r, T)
    return p.prog(dialect=dialect, pair="%s/%s/%s/%s/%s" % (fam, pn, an, bn, how)), [[r.i, d.i, how]], [r.i, d.i, x.i, y.i, z.i]
