"""setup_cmd: byte-compile-free import of every module + self-tests of the reference components."""
import importlib, pkgutil, sys, os
from . import pin_repo, VERIF

def main():
    pin_repo()
    import pvm, pvm.checks
    n = 0
    for pkg in (pvm, pvm.checks):
        for m in pkgutil.iter_modules(pkg.__path__, pkg.__name__ + "."):
            importlib.import_module(m.name)
            n += 1
    failures = 0
    for m in list(sys.modules.values()):
        st = getattr(m, "_selftest", None)
        if st and getattr(m, "__name__", "").startswith("pvm."):
            try:
                k = st()
                print("selftest %s: ok (%s)" % (m.__name__, k))
            except Exception as e:
                import traceback; traceback.print_exc()
                print("selftest %s: FAILED %r" % (m.__name__, e))
                failures += 1
    os.makedirs(os.path.join(VERIF, "evidence"), exist_ok=True)
    print("imported %d modules; %d self-test failures" % (n, failures))
    return 1 if failures else 0

if __name__ == "__main__":
    sys.exit(main())
