"""Run-time instrumentation of the live package (no source hooks are committed in /repo).

With PYPIKA_TORTOISE_VERIF=1 the harness replaces class attributes of pypika_tortoise classes with functools.wraps
wrappers (lookups through super() and bound methods go through the class, so nothing bypasses them).  Activations are
counted; a deciding hook with zero activations makes the run inconclusive.
"""
from __future__ import annotations

import functools
import importlib
import inspect
import os
import pkgutil
import threading

from . import GUARD, pin_repo

_installed = {}
_tls = threading.local()


def enabled():
    return os.environ.get(GUARD) == "1"


def all_classes():
    pk = pin_repo()
    out = []
    for m in pkgutil.walk_packages(pk.__path__, "pypika_tortoise."):
        mod = importlib.import_module(m.name)
        for n, c in vars(mod).items():
            if inspect.isclass(c) and c.__module__ == mod.__name__:
                out.append(c)
    return out


class RenderTree:
    """Collector for H-render events of one top-level render."""

    def __init__(self):
        self.events = []  # (depth, defining class, instance class, id(instance), ctx, result|exc)
        self.depth = 0
        self.value_events = []  # (wrapper class, value id, text)
        self.param_events = []  # values passed to Parameterizer.create_param, in call order


def current():
    return getattr(_tls, "tree", None)


class collect:
    """with collect() as tree: ...renders... ; tree.events holds the render tree of everything rendered inside."""

    def __enter__(self):
        install_render_hooks()
        self.prev = getattr(_tls, "tree", None)
        _tls.tree = RenderTree()
        return _tls.tree

    def __exit__(self, *a):
        _tls.tree = self.prev


def _wrap_get_sql(cls, fn):
    @functools.wraps(fn)
    def w(self, *a, **k):
        tree = getattr(_tls, "tree", None)
        if tree is None:
            return fn(self, *a, **k)
        ctx = a[0] if a else k.get("ctx")
        tree.depth += 1
        d = tree.depth
        idx = len(tree.events)
        tree.events.append(None)
        try:
            r = fn(self, *a, **k)
            tree.events[idx] = (d, cls.__name__, type(self).__name__, id(self), ctx, r, self)
            return r
        except BaseException as e:
            tree.events[idx] = (d, cls.__name__, type(self).__name__, id(self), ctx, e, self)
            raise
        finally:
            tree.depth -= 1

    w._pvm_wrapped = True
    return w


def install_render_hooks():
    if _installed.get("render"):
        return _installed["render"]
    if not enabled():
        raise RuntimeError("hooks requested but %s is not set" % GUARD)
    n = 0
    for cls in all_classes():
        f = vars(cls).get("get_sql")
        if inspect.isfunction(f) and not getattr(f, "_pvm_wrapped", False):
            setattr(cls, "get_sql", _wrap_get_sql(cls, f))
            n += 1
    # value rendering and parameter creation
    from pypika_tortoise import terms
    for cls in all_classes():
        f = vars(cls).get("get_value_sql")
        if inspect.isfunction(f) and not getattr(f, "_pvm_wrapped", False):
            def mk(cls, f):
                @functools.wraps(f)
                def w(self, ctx):
                    r = f(self, ctx)
                    tree = getattr(_tls, "tree", None)
                    if tree is not None:
                        tree.value_events.append((type(self).__name__, id(self.value), r, self.value, self))
                    return r
                w._pvm_wrapped = True
                return w
            setattr(cls, "get_value_sql", mk(cls, f))
            n += 1
    f = terms.Parameterizer.create_param
    if not getattr(f, "_pvm_wrapped", False):
        @functools.wraps(f)
        def cp(self, value):
            tree = getattr(_tls, "tree", None)
            if tree is not None:
                tree.param_events.append(value)
            return f(self, value)
        cp._pvm_wrapped = True
        terms.Parameterizer.create_param = cp
        n += 1
    _installed["render"] = n
    return n
