"""Value and name alphabets (hostile and benign) for the literal / identifier checks."""
from __future__ import annotations

import datetime as dt
import decimal
import uuid

from .prog import IntEnumU, MixIntEnumU, MixStrEnumU, PlainIntEnumU, StrEnumU

HOSTILE_ATOMS = ["'", "''", "\\", "\\'", "\\\\", '"', '""', "`", "--", "-- ", "/*", "*/", "#", "?", "%s", "%%", "$1", ":x",
                 "\n", "\r", "\t", "\0", "\\Z", "\\n", "\\0", ";", "(", ")", ",", "\U0001F600", "é", "é", "‏",
                 "‮", " ", "a", "Z", "0", "null", "NULL", "%", "_", "{", "}", "[", "]", "\x1a", "\x08", "\\%"]

STRING_CLASSES = [
    ("plain", "abc"), ("empty", ""), ("space", "a b"), ("single-quote", "it's"), ("double-single", "a''b"),
    ("only-quote", "'"), ("trailing-quote", "ab'"), ("leading-quote", "'ab"), ("backslash", "a\\b"),
    ("trailing-backslash", "ab\\"), ("backslash-quote", "a\\'b"), ("double-backslash", "a\\\\b"),
    ("dquote", 'say "hi"'), ("backtick", "a`b"), ("comment-dash", "a--b"), ("comment-dash-space", "a -- b"),
    ("comment-open", "a/*b"), ("comment-close", "a*/b"), ("hash", "a#b"), ("qmark", "a?b"), ("percent-s", "a%sb"),
    ("percent-percent", "100%%"), ("dollar-one", "a$1b"), ("colon-name", "a:xb"), ("newline", "a\nb"), ("cr", "a\rb"),
    ("tab", "a\tb"), ("nul", "a\0b"), ("ctrl-z", "a\x1ab"), ("backslash-Z", "a\\Zb"), ("backslash-n", "a\\nb"),
    ("non-bmp", "smile \U0001F600"), ("combining", "é"), ("rtl", "a‏b‮c"), ("semicolon", "a;DROP TABLE t"),
    ("sql-injection", "' OR '1'='1"), ("quote-comment", "';--"), ("backslash-quote-comment", "\\';--"),
    ("braces", "{[()]}"), ("like-wild", "50%_off"),
    # strings whose whole content spells SQL: keywords, niladic functions, numbers, references, placeholders
    ("kw-current-timestamp", "CURRENT_TIMESTAMP"), ("kw-current-date-lower", "current_date"), ("kw-localtime-padded", " LOCALTIME\n"),
    ("kw-null", "NULL"), ("kw-null-lower", "null"), ("kw-true", "TRUE"), ("kw-false-lower", "false"), ("kw-default", "DEFAULT"),
    ("call-now", "now()"), ("star", "*"), ("number", "1"), ("negative-number", "-1"), ("sum", "1+1"), ("exponent", "1e3"),
    ("qualified-name", "t.id"), ("excluded-ref", "excluded.a"), ("hex-blob", "x'00'"), ("nan", "NaN"), ("qmark-alone", "?"),
    ("percent-s-alone", "%s"), ("dollar-one-alone", "$1"), ("colon-name-alone", ":name"), ("kw-current-user", "CURRENT_USER"),
    ("kw-localtimestamp", "LocalTimestamp"), ("kw-current-time", "CURRENT_TIME"),
    # lengths around engine limits for text literals (Oracle 4000, MySQL max_allowed_packet aside) with quotes at the boundaries
    ("long-4001", "a" * 4001), ("long-quote-at-4000", "a" * 3999 + "'" + "b" * 10), ("long-quotes-8200", ("x" * 39 + "'") * 205),
    ("long-backslash-at-4000", "a" * 3999 + "\\" + "'c"), ("long-255", "v" * 255), ("long-256-unicode", "\u00e9" * 256), ("long-65536", "z" * 65536),
    ("runs-of-spaces", "a  b   c    d"), ("leading-trailing-spaces", "  padded  "), ("tabs-and-spaces", "a \t  b"),
]
LOOKALIKES = [v for n, v in STRING_CLASSES if n.startswith(("kw-", "call-", "star", "number", "negative-", "sum", "exponent", "qualified-", "excluded-",
                                                            "hex-", "nan", "qmark-alone", "percent-s-alone", "dollar-one-alone", "colon-name-alone"))]


def random_string(rnd, maxlen=12):
    if rnd.random() < 0.1:
        v = rnd.choice(LOOKALIKES)
        return rnd.choice([v, v.lower(), v.upper(), " " + v, v + " ", v + "\n"])
    n = rnd.randint(0, maxlen)
    out = []
    for _ in range(n):
        r = rnd.random()
        if r < 0.6:
            out.append(rnd.choice(HOSTILE_ATOMS))
        elif r < 0.85:
            out.append(chr(rnd.randint(32, 126)))
        else:
            cp = rnd.choice([rnd.randint(0x80, 0x7FF), rnd.randint(0x800, 0xD7FF), rnd.randint(0xE000, 0xFFFD),
                             rnd.randint(0x10000, 0x10FFFF), rnd.randint(1, 31)])
            out.append(chr(cp))
    return "".join(out)


INT_VALUES = [0, 1, -1, 7, -42, 10, 2**31, -2**31 - 1, 2**63, 10**30, -10**18]
FLOAT_VALUES = [0.0, -0.0, 1.5, -2.25, 1e20, 1e-7, -3.5e+30, 123456.789, 5e-324, 1.7976931348623157e308]
DECIMAL_VALUES = [decimal.Decimal(x) for x in ["0", "1.10", "-2.50", "1E+3", "1E-7", "-1.5E+20", "123456789.123456789", "0E-10", "-0", "-0.0", "-0E+3"]]
TZ = dt.timezone(dt.timedelta(hours=5, minutes=30))
DATE_VALUES = [dt.date(2020, 1, 2), dt.date(1, 1, 1), dt.date(9999, 12, 31)]
TIME_VALUES = [dt.time(1, 2, 3), dt.time(23, 59, 59, 999999), dt.time(4, 5, 6, tzinfo=TZ), dt.time(0, 0)]
DATETIME_VALUES = [dt.datetime(2020, 1, 2, 3, 4, 5), dt.datetime(2021, 12, 31, 23, 59, 59, 123456),
                   dt.datetime(2020, 6, 1, 12, 0, tzinfo=TZ), dt.datetime(1999, 1, 1, tzinfo=dt.timezone.utc)]
UUID_VALUES = [uuid.UUID(int=0), uuid.UUID("12345678-1234-5678-1234-567812345678")]
ENUM_VALUES = [StrEnumU.plain, StrEnumU.quote, StrEnumU.pct, IntEnumU.one, IntEnumU.neg, MixIntEnumU.low, MixIntEnumU.high, MixStrEnumU.red,
               MixStrEnumU.quote, PlainIntEnumU.three, PlainIntEnumU.minus]
JSON_VALUES = [
    {"k": "v"}, [1, 2, 3], [], {}, {"a": {"b": [1, None, True, 2.5]}}, ["it's"], {"it's": "a'b"}, {"k": "back\\slash"},
    ['say "hi"'], {"q": "a\"b'c"}, ["new\nline"], {"u": "\U0001F600"}, [[["deep"]]], {"n": None, "t": True, "f": False},
    ["--", "/*", "?", "%s", "$1"],
]


def kinds():
    """kind name -> list of (class label, value)"""
    return {
        "str": [(n, v) for n, v in STRING_CLASSES],
        "int": [("int:%d" % i, v) for i, v in enumerate(INT_VALUES)],
        "float": [("float:%d" % i, v) for i, v in enumerate(FLOAT_VALUES)],
        "decimal": [("decimal:%d" % i, v) for i, v in enumerate(DECIMAL_VALUES)],
        "bool": [("true", True), ("false", False)],
        "none": [("none", None)],
        "date": [("date:%d" % i, v) for i, v in enumerate(DATE_VALUES)],
        "time": [("time:%d" % i, v) for i, v in enumerate(TIME_VALUES)],
        "datetime": [("datetime:%d" % i, v) for i, v in enumerate(DATETIME_VALUES)],
        "uuid": [("uuid:%d" % i, v) for i, v in enumerate(UUID_VALUES)],
        "enum": [("enum:%s" % v.name, v) for v in ENUM_VALUES],
        "json": [("json:%d" % i, v) for i, v in enumerate(JSON_VALUES)],
    }


def random_json(rnd, depth=2):
    r = rnd.random()
    if depth <= 0 or r < 0.35:
        return rnd.choice([random_string(rnd, 6), rnd.randint(-5, 99), 1.5, None, True, False])
    if r < 0.7:
        return [random_json(rnd, depth - 1) for _ in range(rnd.randint(0, 3))]
    return {random_string(rnd, 5): random_json(rnd, depth - 1) for _ in range(rnd.randint(0, 3))}


def random_value(rnd):
    r = rnd.random()
    if r < 0.55:
        return "str", random_string(rnd)
    if r < 0.65:
        return "int", rnd.choice([rnd.randint(-10**6, 10**6), rnd.randint(-10**30, 10**30), rnd.randint(-9, 9)])
    if r < 0.72:
        return "float", rnd.choice([rnd.uniform(-1e6, 1e6), rnd.uniform(-1, 1) * 10 ** rnd.randint(-300, 300)])
    if r < 0.77:
        return "decimal", decimal.Decimal(rnd.randint(-10**12, 10**12)).scaleb(rnd.randint(-20, 20))
    if r < 0.80:
        return "bool", rnd.random() < 0.5
    if r < 0.84:
        return "datetime", dt.datetime(rnd.randint(1, 9999), rnd.randint(1, 12), rnd.randint(1, 28), rnd.randint(0, 23),
                                       rnd.randint(0, 59), rnd.randint(0, 59), rnd.choice([0, rnd.randint(0, 999999)]),
                                       tzinfo=rnd.choice([None, TZ]))
    if r < 0.87:
        return "time", dt.time(rnd.randint(0, 23), rnd.randint(0, 59), rnd.randint(0, 59), tzinfo=rnd.choice([None, TZ]))
    if r < 0.89:
        return "date", dt.date(rnd.randint(1, 9999), rnd.randint(1, 12), rnd.randint(1, 28))
    if r < 0.91:
        return "uuid", uuid.UUID(int=rnd.getrandbits(128))
    j = random_json(rnd, 2)
    if not isinstance(j, (dict, list)):
        j = [j]
    return "json", j


# ------------------------------------------------------------------------------------------- names
NAME_CLASSES = [
    ("plain", "col"), ("mixed-case", "MixedCase"), ("upper", "UPPER"), ("reserved", "select"), ("reserved2", "order"),
    ("space", "my col"), ("leading-space", " x"), ("dot", "a.b"), ("dquote", 'a"b'), ("double-dquote", 'a""b'),
    ("backtick", "a`b"), ("double-backtick", "a``b"), ("squote", "a'b"), ("backslash", "a\\b"), ("comment-dash", "a--b"),
    ("comment-open", "a/*b"), ("qmark", "a?b"), ("percent-s", "a%sb"), ("dollar", "a$1"), ("unicode", "naïve_列"),
    ("non-bmp", "t\U0001F600"), ("digit-start", "1abc"), ("semicolon", "a;b"), ("paren", "a(b)"), ("comma", "a,b"),
    ("bracket", "a[b]"), ("long-31", "monthly_customer_invoice_totals"), ("long-64", "n" * 64), ("long-200", "very_long_name_" * 13 + "tail"),
    ("braces", "ev{1}"), ("double-braces", "a{{b}}"), ("brace-word", "t{criterion}"), ("lone-brace", "a{b"), ("percent-paren", "a%(x)sb"),
    ("len-1", "q"), ("len-2", "zq"), ("len-2-digit", "k7"), ("len-3", "zqv"),
    ("only-dquote", '"'), ("only-backtick", "`"), ("trailing-dquote", 'ab"'), ("newline", "a\nb"),
    # names a convenience layer might reinterpret: Python keywords with a trailing underscore, private-looking names, digit-only
    # names, signed numbers, ordinals, names of SQL functions / keywords with brackets
    ("keyword-underscore", "class_"), ("keyword-underscore-2", "in_"), ("keyword-underscore-3", "global_"), ("keyword-double-underscore", "class__"),
    ("leading-underscore", "_hidden"), ("trailing-underscore", "total_"), ("digits-only", "2024"), ("digit-one", "1"), ("digits-leading-zero", "007"),
    ("minus-digits", "-1"), ("minus-name", "-name"), ("plus-name", "+name"), ("count-star", "COUNT(*)"), ("true", "true"), ("null", "NULL"),
    ("superscript-digit", "\u00b2"), ("float-like", "1.5"), ("exp-like", "1e3"),
]


def random_name(rnd):
    n = rnd.randint(1, 8) if rnd.random() < 0.9 else rnd.randint(28, 70)
    atoms = ['"', "`", "'", ".", " ", "\\", "--", "/*", "?", "%s", "$1", ";", ",", "(", ")", "[", "]", "A", "b", "_", "9",
             "é", "列", "\U0001F600", "select", "\n", "\t", "{", "}", "{0}", "%"]
    return "".join(rnd.choice(atoms) if rnd.random() < 0.6 else chr(rnd.randint(97, 122)) for _ in range(n)) or "x"
