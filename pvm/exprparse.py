"""Reference expression parser (Pratt) over the reference lexer's tokens, standard SQL precedence:

    OR < XOR < AND < NOT < comparison / IS / IN / BETWEEN / LIKE < + - < * / < unary minus

All binary levels are left-associative (comparisons too: the most lenient standard reading, so that correct output
is never rejected).  Produces the same JSON tree shape that the expression generators use, so that `norm` compares
a built tree with the tree read back from its rendering.
"""
from __future__ import annotations

import decimal

from .lex import tokenize


class ParseError(Exception):
    pass


CMP = {"=": "==", "<>": "!=", "!=": "!=", "<": "<", "<=": "<=", ">": ">", ">=": ">="}
LIKES = {"LIKE", "ILIKE", "RLIKE", "REGEX", "GLOB", "REGEXP"}
P_OR, P_XOR, P_AND, P_NOT, P_CMP, P_ADD, P_MUL, P_NEG = 1, 2, 3, 4, 5, 6, 7, 8


class Parser:
    def __init__(self, toks):
        self.t = toks
        self.i = 0

    def peek(self, k=0):
        j = self.i + k
        return self.t[j] if j < len(self.t) else None

    def next(self):
        t = self.peek()
        if t is None:
            raise ParseError("unexpected end of input")
        self.i += 1
        return t

    def is_word(self, t, *words):
        return t is not None and t.kind == "WORD" and t.value in words

    def is_punct(self, t, ch):
        return t is not None and t.kind == "PUNCT" and t.text == ch

    def is_op(self, t, *ops):
        return t is not None and t.kind == "OP" and t.text in ops

    def expect_punct(self, ch):
        t = self.next()
        if not self.is_punct(t, ch):
            raise ParseError("expected %r at %d, got %r" % (ch, t.start, t.text))

    def expect_word(self, w):
        t = self.next()
        if not self.is_word(t, w):
            raise ParseError("expected %s at %d, got %r" % (w, t.start, t.text))

    # ---------------------------------------------------------------- expressions
    def expr(self, minp=0):
        left = self.prefix()
        while True:
            t = self.peek()
            if t is None:
                break
            if t.kind in ("COMMENT", "ERR"):
                raise ParseError("%s token %r at %d" % (t.kind, t.text[:20], t.start))
            if self.is_word(t, "OR") and P_OR > minp:
                self.next()
                left = {"t": "or", "l": left, "r": self.expr(P_OR)}
            elif self.is_word(t, "XOR") and P_XOR > minp:
                self.next()
                left = {"t": "xor", "l": left, "r": self.expr(P_XOR)}
            elif self.is_word(t, "AND") and P_AND > minp:
                self.next()
                left = {"t": "and", "l": left, "r": self.expr(P_AND)}
            elif t.kind == "OP" and t.text in CMP and P_CMP > minp:
                self.next()
                left = {"t": "cmp", "o": CMP[t.text], "l": left, "r": self.expr(P_CMP)}
            elif self.is_word(t, "IS") and P_CMP > minp:
                self.next()
                neg = False
                if self.is_word(self.peek(), "NOT"):
                    self.next()
                    neg = True
                self.expect_word("NULL")
                left = {"t": "isnull", "l": left}
                if neg:
                    left = {"t": "not", "a": left}
            elif (self.is_word(t, "NOT") and P_CMP > minp and
                  (self.is_word(self.peek(1), "IN", "BETWEEN") or self.is_word(self.peek(1), *LIKES))):
                self.next()
                left = self.postfix_pred(left, True)
            elif (self.is_word(t, "IN", "BETWEEN") or self.is_word(t, *LIKES)) and P_CMP > minp:
                left = self.postfix_pred(left, False)
            elif self.is_op(t, "+", "-") and P_ADD > minp:
                self.next()
                left = {"t": "bin", "o": t.text, "l": left, "r": self.expr(P_ADD)}
            elif self.is_op(t, "*", "/") and P_MUL > minp:
                self.next()
                left = {"t": "bin", "o": t.text, "l": left, "r": self.expr(P_MUL)}
            elif self.is_op(t, "&") and P_ADD > minp:
                self.next()
                left = {"t": "bitand", "l": left, "r": self.expr(P_ADD)}
            else:
                break
        return left

    def postfix_pred(self, left, negated):
        t = self.next()
        if t.value == "IN":
            self.expect_punct("(")
            items = []
            if self.is_word(self.peek(), "SELECT", "WITH"):
                items = [{"t": "subquery", "toks": self.skip_balanced()}]
            elif not self.is_punct(self.peek(), ")"):
                items.append(self.expr())
                while self.is_punct(self.peek(), ","):
                    self.next()
                    items.append(self.expr())
            self.expect_punct(")")
            node = {"t": "in", "l": left, "vs": items, "neg": negated}
            return node
        if t.value == "BETWEEN":
            lo = self.expr(P_CMP)
            self.expect_word("AND")
            hi = self.expr(P_CMP)
            node = {"t": "between", "l": left, "lo": lo, "hi": hi}
            return {"t": "not", "a": node} if negated else node
        pat = self.expr(P_CMP)
        return {"t": "like", "o": ("NOT " if negated else "") + t.value, "l": left, "p": pat}

    def skip_balanced(self):
        depth = 0
        out = []
        while True:
            t = self.peek()
            if t is None:
                raise ParseError("unbalanced subquery")
            if self.is_punct(t, "("):
                depth += 1
            elif self.is_punct(t, ")"):
                if depth == 0:
                    return out
                depth -= 1
            out.append((t.kind, t.text))
            self.next()

    def prefix(self):
        t = self.next()
        if t.kind in ("COMMENT", "ERR"):
            raise ParseError("%s token %r at %d" % (t.kind, t.text[:20], t.start))
        if t.kind == "NUM":
            return {"t": "c", "v": t.value}
        if t.kind == "STR":
            return {"t": "c", "v": t.value}
        if t.kind == "PARAM":
            return {"t": "param", "v": t.text}
        if t.kind == "IDENT":
            name = t.value
            while self.is_punct(self.peek(), ".") and self.peek(1) is not None and (self.peek(1).kind == "IDENT" or self.is_op(self.peek(1), "*")):
                self.next()
                name = name + "." + (self.next().value or "*")
            return {"t": "f", "n": name}
        if self.is_op(t, "-"):
            return {"t": "neg", "a": self.expr(P_NEG - 1)}
        if self.is_op(t, "+"):
            return self.expr(P_NEG - 1)
        if self.is_op(t, "*"):
            return {"t": "f", "n": "*"}
        if self.is_punct(t, "("):
            if self.is_word(self.peek(), "SELECT", "WITH"):
                toks = self.skip_balanced()
                self.expect_punct(")")
                return {"t": "subquery", "toks": toks}
            if self.is_punct(self.peek(), ")"):
                self.next()
                return {"t": "tuple", "vs": []}
            first = self.expr()
            if self.is_punct(self.peek(), ","):
                items = [first]
                while self.is_punct(self.peek(), ","):
                    self.next()
                    items.append(self.expr())
                self.expect_punct(")")
                return {"t": "tuple", "vs": items}
            self.expect_punct(")")
            return first
        if t.kind == "WORD":
            w = t.value
            if w == "NOT":
                return {"t": "not", "a": self.expr(P_NOT - 1)}
            if w == "NULL":
                return {"t": "c", "v": None}
            if w in ("TRUE", "FALSE"):
                return {"t": "c", "v": w == "TRUE"}
            if w == "CASE":
                whens = []
                while self.is_word(self.peek(), "WHEN"):
                    self.next()
                    c = self.expr()
                    self.expect_word("THEN")
                    v = self.expr()
                    whens.append([c, v])
                e = None
                if self.is_word(self.peek(), "ELSE"):
                    self.next()
                    e = self.expr()
                self.expect_word("END")
                return {"t": "case", "w": whens, "e": e}
            if w == "INTERVAL" and self.peek() is not None and self.peek().kind == "STR":
                s = self.next()
                unit = None
                if self.peek() is not None and self.peek().kind == "WORD" and self.peek().value not in ("AND", "OR", "XOR", "FROM", "AS", "THEN", "ELSE", "END", "WHEN"):
                    unit = self.next().value
                return {"t": "interval", "v": s.value, "u": unit}
            if self.is_punct(self.peek(), "("):
                self.next()
                args = []
                extra = []
                if self.is_word(self.peek(), "DISTINCT"):
                    self.next()
                    extra.append("DISTINCT")
                if not self.is_punct(self.peek(), ")"):
                    args.append(self.expr())
                    while True:
                        if self.is_punct(self.peek(), ","):
                            self.next()
                            args.append(self.expr())
                        elif self.peek() is not None and self.peek().kind == "WORD" and not self.is_punct(self.peek(), ")"):
                            # special parameters: AS type, USING x, FROM field, IGNORE NULLS ...
                            while not self.is_punct(self.peek(), ")"):
                                tt = self.next()
                                extra.append(tt.text)
                            break
                        else:
                            break
                self.expect_punct(")")
                node = {"t": "fn", "n": w, "args": args}
                if extra:
                    node["x"] = extra
                # FILTER(...) / OVER(...)
                while self.is_word(self.peek(), "FILTER", "OVER"):
                    kw = self.next().value
                    self.expect_punct("(")
                    node.setdefault("tail", []).append([kw, self.skip_balanced()])
                    self.expect_punct(")")
                return node
            return {"t": "w", "n": w}
        raise ParseError("unexpected token %r at %d" % (t.text, t.start))


def parse_expr(sql, dialect):
    toks = tokenize(sql, dialect)
    p = Parser(toks)
    e = p.expr()
    if p.peek() is not None:
        t = p.peek()
        raise ParseError("trailing token %s %r at %d" % (t.kind, t.text[:20], t.start))
    return e


# ------------------------------------------------------------------------------------------------ normal form
def _num(v):
    if isinstance(v, bool):
        return v
    if isinstance(v, (int, float, decimal.Decimal)):
        return decimal.Decimal(str(v)) if not isinstance(v, decimal.Decimal) else v
    return v


def any_bracket(t):
    if isinstance(t, list):
        return any(any_bracket(x) for x in t)
    if not isinstance(t, dict):
        return False
    return t.get("t") == "bracket" or any(any_bracket(v_) for v_ in t.values())


def unbracket(t):
    """The tree without explicit Bracket nodes (parentheses are grouping, not structure)."""
    if isinstance(t, list):
        return [unbracket(x) for x in t]
    if not isinstance(t, dict):
        return t
    if t.get("t") == "bracket":
        return unbracket(t["a"])
    return {k_: unbracket(v_) for k_, v_ in t.items()}


def norm(t):
    """Canonical form that flattens only what cannot change a value (see DESIGN C06)."""
    k = t["t"]
    if k == "c":
        v = _num(t["v"])
        if isinstance(v, decimal.Decimal) and not isinstance(t["v"], bool) and v < 0:
            return ("neg", ("c", _dstr(v.copy_negate())))
        if isinstance(v, decimal.Decimal):
            return ("c", _dstr(v))
        return ("c", repr(v))
    if k == "f":
        return ("f", t["n"].split(".")[-1])
    if k in ("w", "param", "interval"):
        return (k, str(t.get("n") or t.get("v")))
    if k == "neg":
        return ("neg", norm(t["a"]))
    if k == "bracket":  # (explicit parentheses: transparent in the normal form, they only have to survive as grouping)
        return norm(t["a"])
    if k == "not":
        a = norm(t["a"])
        return ("not", a)
    if k == "bin":
        o = t["o"]
        if o in "+-":
            items = []
            _flat_add(t, 1, items)
            return ("sum", tuple(items))
        if o == "*":
            items = []
            _flat_mul(t, items)
            return ("prod", tuple(items))
        return ("div", norm(t["l"]), norm(t["r"]))
    if k in ("and", "or", "xor"):
        items = []
        _flat_bool(t, k, items)
        return (k, tuple(items))
    if k == "cmp":
        return ("cmp", t["o"], norm(t["l"]), norm(t["r"]))
    if k == "like":
        return ("like", t["o"], norm(t["l"]), norm(t["p"]))
    if k == "in":
        return ("in", bool(t.get("neg")), norm(t["l"]), tuple(norm(x) for x in t["vs"]))
    if k == "between":
        return ("between", norm(t["l"]), norm(t["lo"]), norm(t["hi"]))
    if k == "isnull":
        return ("isnull", norm(t["l"]))
    if k == "bitand":
        return ("bitand", norm(t["l"]), norm(t["r"]))
    if k == "fn":
        return ("fn", t["n"].upper(), tuple(norm(x) for x in t["args"]))
    if k == "case":
        return ("case", tuple((norm(c), norm(v)) for c, v in t["w"]), norm(t["e"]) if t.get("e") is not None else None)
    if k == "tuple":
        return ("tuple", tuple(norm(x) for x in t["vs"]))
    if k == "subquery":
        return ("subquery",)
    raise ValueError(k)


def _dstr(v):
    if v == v.to_integral_value():
        return str(v.quantize(decimal.Decimal(1))) if abs(v) < decimal.Decimal(10) ** 40 else str(v.normalize())
    return str(v.normalize())


def _flat_add(t, sign, out):
    if t["t"] == "bin" and t["o"] in "+-":
        _flat_add(t["l"], sign, out)
        _flat_add(t["r"], sign if t["o"] == "+" else -sign, out)
    else:
        out.append((sign, norm(t)))


def _flat_mul(t, out):
    if t["t"] == "bin" and t["o"] == "*":
        _flat_mul(t["l"], out)
        _flat_mul(t["r"], out)
    else:
        out.append(norm(t))


def _flat_bool(t, k, out):
    if t["t"] == k:
        _flat_bool(t["l"], k, out)
        _flat_bool(t["r"], k, out)
    else:
        out.append(norm(t))


def _selftest():
    def p(s, d="sqlite"):
        return norm(parse_expr(s, d))

    assert p('"a"+"b"*2') == p('"a"+("b"*2)')
    assert p('("a"+"b")*2') != p('"a"+"b"*2')
    assert p('"a"-("b"-"c")') != p('"a"-"b"-"c"')
    assert p('"a"+("b"-"c")') == p('"a"+"b"-"c"')
    assert p('"a"-("b"-"c")') == p('"a"-"b"+"c"')
    assert p('"a"*("b"/"c")') != p('"a"*"b"/"c"')
    assert p('"a"*("b"*"c")') == p('"a"*"b"*"c"')
    assert p('-"a"+"b"') == p('(-"a")+"b"') != p('-("a"+"b")')
    assert p('NOT "a"=1 AND "b"=2') == p('(NOT ("a"=1)) AND ("b"=2)')
    assert p('"a"=1 OR "b"=2 AND "c"=3') == p('"a"=1 OR ("b"=2 AND "c"=3)')
    assert p('"a" BETWEEN 1 AND 2 AND "b"=3') == p('("a" BETWEEN 1 AND 2) AND ("b"=3)')
    assert p('"a" NOT IN (1,2)') == ("in", True, ("f", "a"), (("c", "1"), ("c", "2")))
    assert p('"a" IS NOT NULL') == ("not", ("isnull", ("f", "a")))
    assert p('CASE WHEN "a"=1 THEN 2 ELSE 3 END+1')[0] == "sum"
    assert p('COALESCE("a",1)*2')[0] == "prod"
    assert p('"a"=-1') == p('"a"=(-1)')
    try:
        p('"a"--1')
        raise AssertionError("comment not detected")
    except ParseError:
        pass
    assert p("`a`--1", "mysql") == p("`a`-(-1)", "mysql")
    return "16 precedence/normal-form assertions"
