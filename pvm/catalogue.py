"""Catalogue of builder-decorated methods, discovered from the live modules, plus deterministic
prime/branch-A/branch-B scenarios for each of them (the seed-independent core of C01/C15)."""
from __future__ import annotations

import importlib
import inspect
import pkgutil

from . import pin_repo
from .prog import P, Cls, registry


def builder_methods():
    """[(module, class qualname, method)] for every function decorated with utils.builder, from the live package."""
    pk = pin_repo()
    out = []
    for m in pkgutil.walk_packages(pk.__path__, "pypika_tortoise."):
        mod = importlib.import_module(m.name)
        for cn, cls in vars(mod).items():
            if inspect.isclass(cls) and cls.__module__ == mod.__name__:
                for n, f in vars(cls).items():
                    if inspect.isfunction(f) and f.__qualname__ == "builder.<locals>._copy":
                        out.append((mod.__name__, cls.__qualname__, n))
    return sorted(set(out))


def defining_class(obj, method):
    for c in type(obj).__mro__:
        if method in vars(c):
            return c
    return None


def is_builder_method(obj, method):
    c = defining_class(obj, method)
    if c is None:
        return False
    f = vars(c)[method]
    return inspect.isfunction(f) and f.__qualname__ == "builder.<locals>._copy"


# ----------------------------------------------------------------------------------------------------------------
# scenarios: name -> function(p, Q) returning (receiver ref, prime call or None, call A, call B)
# each call is (method, args, kwargs); receivers are built so that the clause addressed by the method is non-empty
# after the prime call.

def _base(p):
    t1 = p.new("Table", "t1")
    t2 = p.new("Table", "t2")
    return t1, t2


def _sel(p, Q, t1):
    return p.call(p.call(Q, "from_", t1), "select", p.call(t1, "field", "a"))


def scenarios(dialect):
    """Yield (class name, method, program, {'r0':..,'r1':..,'a':..,'b':..} var indexes)."""
    Q = Cls(dialect)
    reg = registry()
    Order = reg["Order"]

    def S(cls, method, make, prime, A, B):
        p = P()
        t1, t2 = _base(p)
        r0 = make(p, t1, t2)
        r1 = r0
        if prime is not None:
            r1 = p.call(r0, method, *prime(p, t1, t2))
        a = p.call(r1, method, *A(p, t1, t2))
        b = p.call(r1, method, *B(p, t1, t2))
        return cls, method, p.prog(dialect=dialect, scenario="%s.%s" % (cls, method)), {"r0": r0.i, "r1": r1.i, "a": a.i, "b": b.i}

    def SK(cls, method, make, primekw, Akw, Bkw):
        p = P()
        t1, t2 = _base(p)
        r0 = make(p, t1, t2)
        r1 = r0
        if primekw is not None:
            r1 = p.call(r0, method, *primekw[0](p, t1, t2), **primekw[1])
        a = p.call(r1, method, *Akw[0](p, t1, t2), **Akw[1])
        b = p.call(r1, method, *Bkw[0](p, t1, t2), **Bkw[1])
        return cls, method, p.prog(dialect=dialect, scenario="%s.%s" % (cls, method)), {"r0": r0.i, "r1": r1.i, "a": a.i, "b": b.i}

    f = lambda t, c: (lambda p, t1, t2: [p.call(t1 if t == 1 else t2, "field", c)])  # noqa: E731
    const = lambda *v: (lambda p, t1, t2: list(v))  # noqa: E731
    sel = lambda p, t1, t2: _sel(p, Q, t1)  # noqa: E731
    sel2 = lambda p, t1, t2: p.call(p.call(Q, "from_", t2), "select", p.call(t2, "field", "b"))  # noqa: E731
    crit = lambda c, v: (lambda p, t1, t2: [p.bin("==", p.call(t1, "field", c), v)])  # noqa: E731
    ins = lambda p, t1, t2: p.call(Q, "into", t1)  # noqa: E731
    insv = lambda p, t1, t2: p.call(p.call(Q, "into", t1), "insert", 1, 2)  # noqa: E731
    insc = lambda p, t1, t2: p.call(insv(p, t1, t2), "on_conflict", "id")  # noqa: E731
    upd = lambda p, t1, t2: p.call(Q, "update", t1)  # noqa: E731
    setop = lambda p, t1, t2: p.call(sel(p, t1, t2), "union", sel2(p, t1, t2))  # noqa: E731
    create = lambda p, t1, t2: p.call(Q, "create_table", t1)  # noqa: E731
    grp = lambda p, t1, t2: p.call(sel(p, t1, t2), "groupby", p.call(t1, "field", "a"))  # noqa: E731

    QB = "QueryBuilder"
    yield S(QB, "select", sel, f(1, "b"), f(1, "c"), const("id"))
    yield S(QB, "from_", sel, lambda p, t1, t2: [t2], lambda p, t1, t2: [p.new("Table", "t3")], lambda p, t1, t2: [p.new("Table", "t4", alias="x")])
    yield S(QB, "where", sel, crit("a", 1), crit("b", 2), crit("c", "z"))
    yield S(QB, "prewhere", sel, crit("a", 1), crit("b", 2), crit("c", "z"))
    yield S(QB, "having", grp, crit("a", 1), crit("b", 2), crit("c", 3))
    yield S(QB, "groupby", sel, f(1, "a"), f(1, "b"), const("c"))
    yield S(QB, "orderby", sel, f(1, "a"), f(1, "b"), const("c"))
    yield SK(QB, "orderby", sel, (f(1, "a"), {"order": Order.asc}), (f(1, "b"), {"order": Order.desc}), (const("c"), {}))
    yield S(QB, "rollup", sel, f(1, "a"), f(1, "b"), f(1, "c"))
    yield SK(QB, "rollup", grp, None, (f(1, "b"), {"vendor": "mysql"}), (f(1, "c"), {}))
    yield S(QB, "with_totals", grp, None, const(), const())
    yield S(QB, "limit", sel, const(3), const(4), const(5))
    yield S(QB, "offset", sel, const(3), const(4), const(5))
    yield S(QB, "slice", sel, const(slice(1, 2)), const(slice(3, 9)), const(slice(None, 7)))
    yield S(QB, "distinct", sel, None, const(), const())
    yield S(QB, "force_index", sel, const("i1"), const("i2"), lambda p, t1, t2: [p.new("Index", "i3"), "i4"])
    yield S(QB, "use_index", sel, const("i1"), const("i2"), lambda p, t1, t2: [p.new("Index", "i3"), "i4"])
    yield SK(QB, "for_update", sel, (const(), {"of": ("t1",)}), (const(), {"of": ("t2", "t3"), "nowait": True}), (const(), {"skip_locked": True}))
    yield S(QB, "with_", sel, lambda p, t1, t2: [sel2(p, t1, t2), "c1"], lambda p, t1, t2: [sel2(p, t1, t2), "c2"], lambda p, t1, t2: [sel(p, t1, t2), "c3"])
    yield S(QB, "into", sel, None, const("t8"), lambda p, t1, t2: [t2])
    yield S(QB, "delete", lambda p, t1, t2: p.call(Q, "from_", t1), None, const(), const())
    yield S(QB, "update", lambda p, t1, t2: p.call(Q, "from_", t1), None, lambda p, t1, t2: [t2], const("t9"))
    yield S(QB, "columns", ins, const("a"), const("b"), lambda p, t1, t2: [p.call(t1, "field", "c"), "id"])
    yield S(QB, "insert", ins, const(1, "x"), const(2, "y"), const((3, "z"), (4, "w")))
    yield S(QB, "replace", ins, const(1, "x"), const(2, "y"), const(3, "z"))
    yield S(QB, "on_conflict", insv, const("id"), const("a"), lambda p, t1, t2: [p.call(t1, "field", "b")])
    yield S(QB, "do_nothing", insc, None, const(), const())
    yield S(QB, "do_update", insc, const("a", 1), const("b", 2), const("c"))
    yield S(QB, "where", lambda p, t1, t2: p.call(insc(p, t1, t2), "do_update", "a", 1), crit("a", 1), crit("b", 2), crit("c", 3))
    yield S(QB, "where", insc, crit("a", 1), crit("b", 2), crit("c", 3))
    yield S(QB, "set", upd, const("a", 1), const("b", 2), lambda p, t1, t2: [p.call(t1, "field", "c"), p.call(t1, "field", "a")])
    yield S(QB, "replace_table", lambda p, t1, t2: p.call(sel(p, t1, t2), "where", p.bin(">", p.call(t1, "field", "b"), 0)), None,
            lambda p, t1, t2: [t1, t2], lambda p, t1, t2: [t1, p.new("Table", "t5")])
    for m in ("union", "union_all", "intersect", "except_of", "minus"):
        yield S(QB, m, sel, None, lambda p, t1, t2: [sel2(p, t1, t2)], lambda p, t1, t2: [sel(p, t1, t2)])
        yield S("_SetOperation", m, setop, lambda p, t1, t2: [sel(p, t1, t2)], lambda p, t1, t2: [sel2(p, t1, t2)], lambda p, t1, t2: [sel(p, t1, t2)])
    yield S("_SetOperation", "orderby", setop, f(1, "a"), f(1, "b"), const("a"))
    yield S("_SetOperation", "limit", setop, const(1), const(2), const(3))
    yield S("_SetOperation", "offset", setop, const(1), const(2), const(3))
    yield S("Selectable", "as_", setop, const("x"), const("y"), const("z"))
    yield S("Selectable", "as_", sel, const("x"), const("y"), const("z"))
    yield S("Selectable", "as_", lambda p, t1, t2: t1, const("x"), const("y"), const("z"))
    # join returns a Joiner (not a copy of the receiver); its continuations must still be independent
    p = P()
    t1, t2 = _base(p)
    t3 = p.new("Table", "t3")
    r1 = p.call(p.call(_sel(p, Q, t1), "join", t2), "on", p.bin("==", p.call(t1, "field", "id"), p.call(t2, "field", "id")))
    a = p.call(p.call(r1, "join", t3), "on", p.bin("==", p.call(t1, "field", "id"), p.call(t3, "field", "id")))
    b = p.call(p.call(r1, "join", p.new("Table", "t4")), "using", "id")
    yield QB, "join", p.prog(dialect=dialect, scenario="QueryBuilder.join"), {"r0": r1.i, "r1": r1.i, "a": a.i, "b": b.i}
    # UPDATE .. JOIN
    p = P()
    t1, t2 = _base(p)
    r1 = p.call(p.call(Q, "update", t1), "set", "a", 1)
    a = p.call(p.call(r1, "join", t2), "on", p.bin("==", p.call(t1, "field", "id"), p.call(t2, "field", "id")))
    b = p.call(r1, "where", p.bin("==", p.call(t1, "field", "id"), 4))
    yield QB, "join", p.prog(dialect=dialect, scenario="QueryBuilder.join(update)"), {"r0": r1.i, "r1": r1.i, "a": a.i, "b": b.i}

    # DDL
    CQ = "CreateQueryBuilder"
    yield S(CQ, "columns", create, const("a"), const(("b", "INT")), lambda p, t1, t2: [p.new("Column", "c", "TEXT", default="d")])
    yield S(CQ, "period_for", lambda p, t1, t2: p.call(create(p, t1, t2), "columns", "a", "b"), const("p1", "a", "b"), const("p2", "a", "b"), const("p3", "b", "a"))
    yield S(CQ, "unique", lambda p, t1, t2: p.call(create(p, t1, t2), "columns", "a", "b"), const("a"), const("b"), const("a", "b"))
    yield S(CQ, "primary_key", lambda p, t1, t2: p.call(create(p, t1, t2), "columns", "a", "b"), None, const("a"), const("b"))
    yield S(CQ, "as_select", create, None, lambda p, t1, t2: [sel(p, t1, t2)], lambda p, t1, t2: [sel2(p, t1, t2)])
    for m in ("if_not_exists", "temporary", "unlogged", "with_system_versioning"):
        yield S(CQ, m, lambda p, t1, t2: p.call(create(p, t1, t2), "columns", "a"), None, const(), const())
    yield S(CQ, "create_table", lambda p, t1, t2: p.new("CreateQueryBuilder"), None, lambda p, t1, t2: [t1], const("t7"))
    yield S("DropQueryBuilder", "drop_table", lambda p, t1, t2: p.new("DropQueryBuilder"), None, lambda p, t1, t2: [t1], const("t7"))
    yield S("DropQueryBuilder", "if_exists", lambda p, t1, t2: p.call(Q, "drop_table", t1), None, const(), const())

    # tables
    yield S("Table", "for_", lambda p, t1, t2: t1, None, lambda p, t1, t2: [p.bin("==", p.new("SystemTimeValue"), "2020")],
            lambda p, t1, t2: [p.bin("==", p.new("SystemTimeValue"), "2021")])
    yield S("Table", "for_portion", lambda p, t1, t2: t1, None,
            lambda p, t1, t2: [p.call(p.new("SystemTimeValue"), "from_to", "2020", "2021")],
            lambda p, t1, t2: [p.call(p.new("SystemTimeValue"), "from_to", "2022", "2023")])

    # terms
    yield S("Term", "as_", lambda p, t1, t2: p.call(t1, "field", "a"), const("x"), const("y"), const("z"))
    yield S("Term", "as_", lambda p, t1, t2: p.bin("+", p.call(t1, "field", "a"), 1), const("x"), const("y"), const("z"))
    yield S("Case", "when", lambda p, t1, t2: p.new("Case"), lambda p, t1, t2: crit("a", 1)(p, t1, t2) + [10],
            lambda p, t1, t2: crit("b", 2)(p, t1, t2) + [20], lambda p, t1, t2: crit("c", 3)(p, t1, t2) + [30])
    yield S("Case", "else_", lambda p, t1, t2: p.call(p.new("Case"), "when", p.bin("==", p.call(t1, "field", "a"), 1), 5),
            const(1), const(2), const(3))
    yield S("AggregateFunction", "filter", lambda p, t1, t2: p.new("fn.Sum", p.call(t1, "field", "a")), crit("a", 1), crit("b", 2), crit("c", 3))
    yield S("AggregateFunction", "filter", lambda p, t1, t2: p.new("an.Sum", p.call(t1, "field", "a")), crit("a", 1), crit("b", 2), crit("c", 3))
    yield S("DistinctOptionFunction", "distinct", lambda p, t1, t2: p.new("fn.Count", p.call(t1, "field", "a")), None, const(), const())
    an = lambda p, t1, t2: p.new("an.Sum", p.call(t1, "field", "a"))  # noqa: E731
    yield S("AnalyticFunction", "over", an, f(1, "a"), f(1, "b"), f(1, "c"))
    yield S("AnalyticFunction", "orderby", an, f(1, "a"), f(1, "b"), f(1, "c"))
    yield SK("AnalyticFunction", "orderby", an, (f(1, "a"), {"order": Order.desc}), (f(1, "b"), {"order": Order.asc}), (f(1, "c"), {}))
    yield S("WindowFrameAnalyticFunction", "rows", an, None, lambda p, t1, t2: [p.new("an.Preceding", 1)], lambda p, t1, t2: [p.new("an.Preceding", 2), "CURRENT ROW"])
    yield S("WindowFrameAnalyticFunction", "range", an, None, lambda p, t1, t2: [p.new("an.Preceding", 1)], lambda p, t1, t2: [p.new("an.Preceding"), p.new("an.Following", 3)])
    yield S("IgnoreNullsAnalyticFunction", "ignore_nulls", lambda p, t1, t2: p.new("an.FirstValue", p.call(t1, "field", "a")), None, const(), const())
    yield S("ContainsCriterion", "negate", lambda p, t1, t2: p.call(p.call(t1, "field", "a"), "isin", [1, 2]), None, const(), const())

    # replace_table of every term class that defines it (receiver stays what it was; A and B independent)
    rt = lambda p, t1, t2: [t1, t2]  # noqa: E731
    rt2 = lambda p, t1, t2: [t1, p.new("Table", "t6")]  # noqa: E731
    fa = lambda p, t1: p.call(t1, "field", "a")  # noqa: E731
    makers = {
        "Field": lambda p, t1, t2: fa(p, t1),
        "Tuple": lambda p, t1, t2: p.new("Tuple", fa(p, t1), 1),
        "BasicCriterion": lambda p, t1, t2: p.bin("==", fa(p, t1), p.call(t1, "field", "b")),
        "ContainsCriterion": lambda p, t1, t2: p.call(fa(p, t1), "isin", [1, 2]),
        "BetweenCriterion": lambda p, t1, t2: p.call(fa(p, t1), "between", 1, 2),
        "BitwiseAndCriterion": lambda p, t1, t2: p.call(fa(p, t1), "bitwiseand", 3),
        "NullCriterion": lambda p, t1, t2: p.call(fa(p, t1), "isnull"),
        "ArithmeticExpression": lambda p, t1, t2: p.bin("+", fa(p, t1), p.call(t1, "field", "b")),
        "Case": lambda p, t1, t2: p.call(p.call(p.new("Case"), "when", p.bin("==", fa(p, t1), 1), p.call(t1, "field", "b")), "else_", p.call(t1, "field", "c")),
        "Not": lambda p, t1, t2: p.un("not", p.bin("==", fa(p, t1), 1)),
        "Function": lambda p, t1, t2: p.new("fn.Coalesce", fa(p, t1), p.call(t1, "field", "b")),
        "Negative": lambda p, t1, t2: p.un("neg", fa(p, t1)),
        "All": lambda p, t1, t2: p.call(fa(p, t1), "all_"),
        "AtTimezone": lambda p, t1, t2: p.new("AtTimezone", fa(p, t1), "UTC"),
        "Values": lambda p, t1, t2: p.new("Values", fa(p, t1)),
        "PeriodCriterion": lambda p, t1, t2: p.call(fa(p, t1), "from_to", p.call(t1, "field", "b"), 5),
        "Extract": lambda p, t1, t2: p.new("fn.Extract", _E("DatePart", "year"), fa(p, t1)),
        "AggregateFunction": lambda p, t1, t2: p.call(p.new("fn.Sum", fa(p, t1)), "filter", p.bin(">", p.call(t1, "field", "b"), 0)),
        "AnalyticFunction": lambda p, t1, t2: p.call(p.call(p.new("an.Sum", fa(p, t1)), "over", p.call(t1, "field", "b")), "orderby", p.call(t1, "field", "c")),
        "AliasedQuery": lambda p, t1, t2: p.item(p.attr(p.call(sel(p, t1, t2), "with_", p.call(p.call(Q, "from_", t1), "select", fa(p, t1)), "c1"), "_with"), 0),
        "_SetOperation": lambda p, t1, t2: p.call(p.call(p.call(Q, "from_", t1), "select", fa(p, t1)), "union", p.call(p.call(Q, "from_", t1), "select", p.call(t1, "field", "b"))),
        "NestedCriterion": lambda p, t1, t2: p.new("NestedCriterion", _E("Equality", "eq"), _E("Boolean", "and_"), fa(p, t1), p.call(t1, "field", "b"), p.call(t1, "field", "c")),
    }
    for cls, mk in makers.items():
        yield S(cls, "replace_table", mk, None, rt, rt2)
    # Join objects (reached through the builder's join list)
    for cls, fin in (("JoinOn", lambda p, j, t1, t2: p.call(j, "on", p.bin("==", p.call(t1, "field", "id"), p.call(t2, "field", "id")))),
                     ("JoinUsing", lambda p, j, t1, t2: p.call(j, "using", "id")),
                     ("Join", lambda p, j, t1, t2: p.call(j, "cross"))):
        def mk(p, t1, t2, fin=fin, cls=cls):
            # (a plain Join holds its item without comparing it: Join.replace_table needs an item that has
            #  replace_table itself, i.e. a subquery - a Table item raises TypeError, which is C16's subject)
            item = t2 if cls != "Join" else p.call(sel2(p, t1, t2), "as_", "sj")
            q = fin(p, p.call(sel(p, t1, t2), "join", item), t1, t2)
            return p.item(p.attr(q, "_joins"), 0)
        yield S(cls, "replace_table", mk, None, lambda p, t1, t2: [t2, t1], lambda p, t1, t2: [t2, p.new("Table", "t6")])

    # dialect-specific builders
    if dialect == "MySQLQuery":
        yield S("MySQLQueryBuilder", "modifier", sel, const("SQL_CALC_FOUND_ROWS"), const("HIGH_PRIORITY"), const("SQL_NO_CACHE"))
        yield S("MySQLLoadQueryBuilder", "load", lambda p, t1, t2: p.new("MySQLLoadQueryBuilder"), None, const("/a.csv"), const("/b.csv"))
        yield S("MySQLLoadQueryBuilder", "into", lambda p, t1, t2: p.call(Q, "load", "/a.csv"), None, const("t8"), lambda p, t1, t2: [t2])
    if dialect == "PostgreSQLQuery":
        yield S("PostgreSQLQueryBuilder", "distinct_on", sel, const("a"), const("b"), f(1, "c"))
        yield S("PostgreSQLQueryBuilder", "returning", insv, const("id"), const("a"), f(1, "b"))
        yield S("PostgreSQLQueryBuilder", "returning", lambda p, t1, t2: p.call(upd(p, t1, t2), "set", "a", 1), const("id"), const("*"), f(1, "b"))
        yield S(QB, "do_update", lambda p, t1, t2: p.call(insc(p, t1, t2), "returning", "id"), const("a", 1), const("b", 2), const("c"))
    if dialect == "MSSQLQuery":
        yield S("MSSQLQueryBuilder", "top", sel, const(3), const(4), const("5"))
        yield S("MSSQLQueryBuilder", "fetch_next", sel, const(3), const(4), const(5))


def _E(cls, name):
    return getattr(registry()[cls], name)
