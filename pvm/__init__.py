"""pvm - pypika verification monitors.

Runtime-monitoring machinery for the 18 fixed properties in /verif/properties.jsonl.
Everything here observes executions of the real package in /repo; see /verif/DESIGN.md.
"""
import os
import sys

REPO = os.environ.get("PVM_REPO", "/repo")
VERIF = os.path.dirname(os.path.dirname(os.path.abspath(__file__)))
GUARD = "PYPIKA_TORTOISE_VERIF"


def pin_repo():
    """Make `import pypika_tortoise` resolve to the working tree of REPO (never a stale copy)."""
    sys.dont_write_bytecode = True
    if REPO in sys.path:
        sys.path.remove(REPO)
    sys.path.insert(0, REPO)
    for name in list(sys.modules):
        if name == "pypika_tortoise" or name.startswith("pypika_tortoise."):
            mod = sys.modules[name]
            f = getattr(mod, "__file__", "") or ""
            if not f.startswith(REPO + os.sep):
                del sys.modules[name]
    import pypika_tortoise  # noqa

    f = pypika_tortoise.__file__
    if not f.startswith(REPO + os.sep):
        raise RuntimeError("pypika_tortoise imported from %s, not %s" % (f, REPO))
    return pypika_tortoise
