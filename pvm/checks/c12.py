"""C12 - aliases are emitted exactly once, where they define a name, for every term kind.

Differential tokenisation again: a statement is rendered with the alias set on one term and without it.  In a
defining position (select list, RETURNING, DISTINCT ON, FROM/JOIN source) the aliased rendering must equal the plain
one plus exactly one identifier token (optionally preceded by AS) directly after the term; in an operand position the
two renderings must be identical.  GROUP BY / ORDER BY may name an alias only if the select list defines it (and the
dialect allows), otherwise the expression must be written in full.  SQLite prepares statements that refer to aliases.
"""
from __future__ import annotations

import random
import sqlite3

from ..fingerprint import contexts
from ..lex import DIALECT_OF, tokenize
from ..prog import DIALECT_CLASSES, registry
from ..zoo import leaf_terms, zoo

PROP = "C12"
LEVEL = "exploration"
RULE = ("every Term subclass/variant of the zoo and every leaf class (from the live modules) x defining positions (select list, "
        "RETURNING, DISTINCT ON, FROM, JOIN) and x every operand slot of every zoo entry (in select-list and WHERE context) x "
        "GROUP BY / ORDER BY by alias or by expression (alias defined by the select list / not at all / only by a discarded sibling "
        "branch, another statement, or a select list since replaced by *) x six dialect classes; enumerated completely, seeded random compositions on "
        "top. non-trivial = all (an alias is always involved); distinct = (class, position, slot, dialect)"
        " also: sibling / elsewhere / after-star positions, DISTINCT ON next to a select list defining the same alias, aliases in another letter case, table factory argument forms, temporal and set-operation sources. (DESIGN.md 6a)")
ASSUMPTIONS = ["token-level comparison through the reference lexers",
               "SQLite prepare for the subset of classes whose SQL SQLite understands (fields, arithmetic, comparisons, CASE, functions it knows)"]
ANCHORS = ["format_alias_sql", "Field.get_sql", "ValueWrapper.get_sql", "ArithmeticExpression.get_sql", "Case.get_sql", "Function.get_sql",
           "BasicCriterion.get_sql", "ComplexCriterion.get_sql", "Negative.get_sql", "Not.get_sql", "Tuple.get_sql", "Array.get_sql",
           "JSON.get_sql", "QueryBuilder._select_sql", "QueryBuilder._from_sql", "Join.get_sql", "QueryBuilder._group_sql",
           "QueryBuilder._orderby_sql", "_SetOperation._orderby_sql", "PostgreSQLQueryBuilder._returning_sql",
           "PostgreSQLQueryBuilder._distinct_sql"]
WORKERS = {"quick": 16, "thorough": 16}
# cases the check sets aside instead of judging, as a share of all cases (more than that makes a run inconclusive)
CEILING_RATIOS = {"unbuildable": 0.012}
AL = "al424242"


def R():
    return registry()


_entries = None


def entries():
    global _entries
    if _entries is None:
        _entries = zoo()[0]
    return _entries


def subject(label, t, Q=None):
    """A term of the given zoo label / leaf label over table t (un-aliased)."""
    r = R()
    Q = Q or r["Query"]
    for lab, term in leaf_terms(r, t):
        if lab == label:
            return term
    for e in entries():
        if e["label"] == label:
            ops = []
            for i in range(e["arity"]):
                f = r["Field"]("p%d" % i, table=t)
                ops.append(f.isnull() if i in e["crit_slots"] else f)
            return e["make"](ops)
    # nested builders of the statement's own dialect class (mixed classes are C08's subject)
    if label == "Array:empty":
        return r["Array"]()
    if label == "Tuple:empty":
        return r["Tuple"]()
    if label == "subquery":
        return Q.from_(t).select(t.zz)
    if label == "setop":
        return Q.from_(t).select(t.zz).union(Q.from_(t).select(t.yy))
    raise KeyError(label)


def all_labels():
    r = R()
    t = r["Table"]("t")
    # (Star and Index are not aliasable expressions: '*' cannot carry a name and Index only occurs in index hints)
    return [lab for lab, _ in leaf_terms(r, t) if lab not in ("Star", "Index")] + [e["label"] for e in entries()] + ["subquery", "setop", "Array:empty", "Tuple:empty"]


DEFINING = ["select", "select-second", "returning", "returning-update", "returning-delete", "returning-update-from", "distinct-on", "insert-select",
            # the select list defines the same alias as well (for the same term / for another term): DISTINCT ON stays a defining position
            "distinct-on-selected", "distinct-on-other-selected"]
REFERRING = ["groupby-selected", "orderby-selected", "groupby-unselected", "orderby-unselected", "setop-orderby-selected",
             "groupby-selected-join", "groupby-selected-subquery",
             # the alias is defined only by a discarded sibling branch / another statement / a select list since replaced by *
             "groupby-sibling-unselected", "orderby-sibling-unselected", "groupby-elsewhere-unselected", "orderby-after-star-unselected",
             # only the second operand of a set operation defines the alias: the result's column names come from the first
             "setop-orderby-later-branch-unselected",
             # a grouped query as operand of a set operation that is rendered with str() (no context given by the caller)
             "groupby-selected-setop-branch",
             # the select list defines the alias in another letter case: quoted names are case sensitive, so that is another name
             "orderby-casevariant-defined", "groupby-casevariant-defined"]


def cases(tier, seed, shard, nshards):
    k = 0
    labels = all_labels()
    for d in DIALECT_CLASSES:
        for lab in labels:
            for pos in DEFINING + REFERRING:
                if pos in ("returning", "returning-update", "returning-delete", "returning-update-from", "distinct-on", "distinct-on-selected", "distinct-on-other-selected") and d != "PostgreSQLQuery":
                    continue
                k += 1
                if k % nshards == shard:
                    yield {"k": "position", "d": d, "label": lab, "pos": pos}
                    yield {"k": "position", "d": d, "label": lab, "pos": pos, "mode": "param"}
    # operand slots: the aliased term sits inside every composite
    ents = entries()
    for d in DIALECT_CLASSES:
        for e in ents:
            for slot in range(e["arity"]):
                for lab in labels:
                    k += 1
                    if k % nshards != shard:
                        continue
                    if tier == "quick" and (hash_stable(e["label"] + lab) + slot) % 2:
                        continue
                    yield {"k": "operand", "d": d, "outer": e["label"], "slot": slot, "label": lab, "mode": "param" if (k // nshards) % 3 == 0 else "inline"}
    for d in DIALECT_CLASSES:
        for shape in OWN_NAME_SHAPES:
            for mode in ("inline", "param"):
                k += 1
                if k % nshards == shard:
                    yield {"k": "own-name", "d": d, "shape": shape, "mode": mode}
    for d in DIALECT_CLASSES:
        for form in FACTORY_FORMS:
            for maker in ("Q.Tables", "make_tables", "Tables"):
                k += 1
                if k % nshards == shard:
                    yield {"k": "factory", "d": d, "form": form, "maker": maker}
    for d in DIALECT_CLASSES:
        for src in ("table", "subquery", "setop", "table-join", "subquery-join", "temporal", "temporal-join", "temporal-portion", "temporal-aliased-after",
                    "temporal-portion-update", "setop-aliased-branches", "setop-aliased-branches-join"):
            k += 1
            if k % nshards == shard:
                yield {"k": "source", "d": d, "src": src}


def hash_stable(s):
    import zlib
    return zlib.crc32(s.encode())


def norm(toks):
    return [(t.kind, t.value if t.kind in ("IDENT", "STR", "NUM", "WORD") else t.text) for t in toks]


def sql_of(o, d, mode="inline"):
    ctx = contexts()[d]
    if mode == "param":  # aliases are a matter of structure: a parameterizer must not change where they appear
        ctx = ctx.copy(parameterizer=R()["Parameterizer"]())
    if isinstance(o, R()["_SetOperation"]) and mode == "inline":
        return str(o)  # set operations are rendered the way users render them: the dialect comes from the base query
    return o.get_sql(ctx)


def insertion(plain, aliased, d):
    """If aliased == plain + one inserted run of tokens, return (index, inserted tokens); else None."""
    a, b = norm(tokenize(plain, d)), norm(tokenize(aliased, d))
    i = 0
    while i < len(a) and i < len(b) and a[i] == b[i]:
        i += 1
    j = 0
    while j < len(a) - i and j < len(b) - i and a[len(a) - 1 - j] == b[len(b) - 1 - j]:
        j += 1
    if i + j < len(a):
        return None
    return i, b[i:len(b) - j], a, b


def build_position(case, aliased):
    r = R()
    d = case["d"]
    Q = r[d]
    t = r["Table"]("t")
    x = subject(case["label"], t, Q)
    y = r["Field"]("other", table=t)
    if aliased:
        x = x.as_(AL)
    pos = case["pos"]
    if pos == "select":
        return Q.from_(t).select(x)
    if pos == "select-second":
        return Q.from_(t).select(y, x, y)
    if pos == "insert-select":
        return Q.into(r["Table"]("dst")).from_(t).select(x)
    if pos == "returning":
        return Q.into(t).insert(1).returning(x)
    if pos == "returning-update":
        return Q.update(t).set(t.other, 1).returning(y, x)
    if pos == "returning-delete":
        return Q.from_(t).delete().where(t.other == 1).returning(x)
    if pos == "returning-update-from":
        u_ = r["Table"]("u")
        return Q.update(t).set(t.other, u_.other).from_(u_).where(t.other == u_.other).returning(x, u_.other)
    if pos == "distinct-on":
        return Q.from_(t).select(y).distinct_on(x)
    if pos == "distinct-on-selected":
        return Q.from_(t).select(subject(case["label"], t, Q).as_(AL), y).distinct_on(x)
    if pos == "distinct-on-other-selected":
        return Q.from_(t).select(y.as_(AL), r["Field"]("third", table=t)).distinct_on(x)
    if pos == "groupby-selected":
        return Q.from_(t).select(x, y).groupby(x)
    if pos == "orderby-selected":
        return Q.from_(t).select(x, y).orderby(x)
    if pos == "groupby-selected-join":
        u = r["Table"]("u")
        return Q.from_(t).join(u).on(t.other == u.other).select(x, y).groupby(x)
    if pos == "groupby-selected-subquery":
        inner = Q.from_(t).select(x, y).groupby(x).as_("sqa")
        return Q.from_(inner).select(inner.other)
    if pos == "groupby-unselected":
        return Q.from_(t).select(y).groupby(x)
    if pos == "orderby-unselected":
        return Q.from_(t).select(y).orderby(x)
    if pos == "setop-orderby-selected":
        return Q.from_(t).select(x).union(Q.from_(t).select(y)).orderby(x)
    if pos in ("groupby-sibling-unselected", "orderby-sibling-unselected"):
        base = Q.from_(t)
        sibling = base.select(x, y)
        str(sibling)
        q = base.select(y)
        return q.groupby(x) if pos.startswith("groupby") else q.orderby(x)
    if pos == "groupby-elsewhere-unselected":
        str(Q.from_(t).select(x, y).groupby(x))
        return Q.from_(t).select(y).groupby(x)
    if pos == "groupby-selected-setop-branch":
        return Q.from_(t).select(x, y).groupby(x).union(Q.from_(t).select(y, y))
    if pos == "setop-orderby-later-branch-unselected":
        return Q.from_(t).select(y).union(Q.from_(t).select(x)).orderby(x)
    if pos in ("orderby-casevariant-defined", "groupby-casevariant-defined"):
        sel = subject(case["label"], t, Q).as_(AL.swapcase())
        q = Q.from_(t).select(sel, y)
        return q.orderby(x) if pos.startswith("orderby") else q.groupby(x)
    if pos == "orderby-after-star-unselected":
        return Q.from_(t).select(x).select("*").orderby(x)
    raise ValueError(pos)


def alias_quote(d):
    ctx = contexts()[d]
    return ctx.alias_quote_char or ctx.quote_char


def run_position(case, mon):
    r = R()
    d, pos, lab = case["d"], case["pos"], case["label"]
    fam = DIALECT_OF[d] if d != "Query" else "generic"
    try:
        plain = sql_of(build_position(case, False), d, case.get("mode", "inline"))
        ali = sql_of(build_position(case, True), d, case.get("mode", "inline"))
    except Exception as e:
        mon.count("unbuildable")
        mon.add("unbuildable", "%s:%s:%s" % (lab, pos, type(e).__name__))
        return
    mon.count("statements_compared")
    mon.add("cells", "%s|%s" % (lab, pos))
    cls = lab.split(":")[0]
    ins = insertion(plain, ali, d)
    n_alias = sum(1 for t in tokenize(ali, d) if t.kind == "IDENT" and t.value == AL)
    if pos in ("distinct-on-selected", "distinct-on-other-selected"):
        n_alias -= sum(1 for t in tokenize(plain, d) if t.kind == "IDENT" and t.value == AL)  # (the select list's own definition)
    if pos in DEFINING:
        if n_alias == 0:
            mon.violation("dropped:%s:%s" % (cls, pos), "%s in %s position (%s): the alias is not emitted: %r" % (lab, pos, d, ali[:220]))
            return
        if n_alias > 1:
            mon.violation("repeated:%s:%s" % (cls, pos), "%s in %s position (%s): the alias is emitted %d times: %r" % (lab, pos, d, n_alias, ali[:220]))
            return
        if ins is None:
            mon.violation("misplaced:%s:%s" % (cls, pos), "%s in %s position (%s): aliasing changes more than one token run: %r vs %r" % (lab, pos, d, plain[:200], ali[:200]))
            return
        idx, run, a, b = ins
        if [x for x in run if x != ("WORD", "AS")] != [("IDENT", AL)]:
            mon.violation("misplaced:%s:%s" % (cls, pos), "%s in %s position (%s): inserted tokens are %r: %r" % (lab, pos, d, run, ali[:200]))
            return
        # directly after the term: the next token in the plain stream must end the item (',' or FROM / INTO / closing ')' of DISTINCT ON / end)
        nxt = a[idx] if idx < len(a) else None
        ok_next = nxt is None or nxt in (("PUNCT", ","), ("PUNCT", ")")) or (nxt[0] == "WORD" and nxt[1] in ("FROM", "INTO"))
        if not ok_next:
            mon.violation("misplaced:%s:%s" % (cls, pos), "%s in %s position (%s): the alias is not directly after the item (next token %r): %r" % (lab, pos, d, nxt, ali[:200]))
            return
        mon.count("defining_positions_ok")
    else:
        selected = pos.endswith("-selected")
        selected = selected or pos.startswith("groupby-selected")
        by_alias_allowed = selected and not (pos.startswith("groupby") and fam in ("mssql", "oracle"))
        want = (1 + (1 if by_alias_allowed else 0)) if selected else 0
        if pos == "setop-orderby-later-branch-unselected":
            want = 1  # the definition inside the second operand; the ORDER BY of the set operation must not use it
            toks = tokenize(ali, d)
            ob = [i for i, tk in enumerate(toks) if tk.kind == "WORD" and tk.value == "ORDER"]
            if ob and any(tk.kind == "IDENT" and tk.value == AL for tk in toks[ob[-1]:]):
                mon.violation("undefined-reference:%s:%s" % (cls, pos), "%s with %s (%s): the set operation's ORDER BY names an alias that only a later operand defines: %r" % (
                    lab, pos, d, ali[:240]))
                return
        # the reference either names the alias (allowed iff defined and permitted) or writes the expression in full
        if selected and n_alias == 1 and by_alias_allowed:
            want = 1  # expression written in full: also fine
        if n_alias != want:
            kind = "undefined-reference" if n_alias > want else "dropped"
            mon.violation("%s:%s:%s" % (kind, cls, pos), "%s with %s (%s): alias occurs %d times, expected %d: %r" % (lab, pos, d, n_alias, want, ali[:240]))
            return
        if selected and n_alias == 2:
            # the select list must define it: first occurrence inside the select list
            toks = tokenize(ali, d)
            first = [i for i, t in enumerate(toks) if t.kind == "IDENT" and t.value == AL][0]
            # the FROM of the statement itself: depth 0, followed by the table "t" (terms may contain FROM keywords of their own)
            depth = 0
            frm = []
            for i, t in enumerate(toks):
                if t.kind == "PUNCT" and t.text == "(":
                    depth += 1
                elif t.kind == "PUNCT" and t.text == ")":
                    depth -= 1
                elif (t.kind == "WORD" and t.value == "FROM" and i + 1 < len(toks) and toks[i + 1].kind == "IDENT"
                      and toks[i + 1].value == "t" and not (i + 2 < len(toks) and toks[i + 2].text == ".")):
                    frm.append((depth, i))
            if frm:
                md = min(x[0] for x in frm)
                frm = [i for dd, i in frm if dd == md]
            if not frm or first > frm[0]:
                mon.violation("undefined-reference:%s:%s" % (cls, pos), "%s: the alias is referenced but the select list does not define it: %r" % (lab, ali[:240]))
                return
        mon.count("references_ok")
    mon.nontrivial(case)
    if pos == "groupby-selected" and lab in ("fn.Count", "fn.Sum", "fn.Avg", "fn.Min", "fn.Max"):
        return  # grouping by an aggregate is a semantic error in every engine, not an alias question
    if d == "SQLLiteQuery" and case.get("mode", "inline") == "inline" and lab in SQLITE_LABELS and pos in ("select", "groupby-selected", "orderby-selected", "select-second"):
        try:
            outer = 'SELECT "%s" FROM (%s)' % (AL, ali) if pos in ("select", "select-second") else ali
            db().execute("EXPLAIN " + outer)
            mon.count("sqlite_prepares")
        except sqlite3.Error as e:
            mon.violation("engine:%s:%s" % (cls, pos), "SQLite rejects a statement referring to the alias: %r: %s" % (ali[:200], e))
            return
    if mon.evaluations % 499 == 1:
        mon.sample({"case": case, "sql": ali[:240]})


SQLITE_LABELS = {"Field", "ValueWrapper", "ValueWrapper:str", "NullValue", "Negative", "ArithmeticExpression:add", "ArithmeticExpression:sub",
                 "ArithmeticExpression:mul", "ArithmeticExpression:div", "BasicCriterion:eq", "BasicCriterion:like", "ComplexCriterion:and",
                 "ComplexCriterion:or", "ContainsCriterion", "BetweenCriterion", "NullCriterion", "Not", "Case", "Case:two-whens",
                 "fn.Count", "fn.Sum", "fn.Avg", "fn.Min", "fn.Max", "fn.Abs", "fn.Length", "fn.Upper", "fn.Lower", "fn.Trim", "fn.Cast",
                 "fn.Coalesce", "fn.NullIf", "fn.IfNull", "Bracket", "SQLLiteValueWrapper"}
_db = None


def db():
    global _db
    if _db is None:
        _db = sqlite3.connect(":memory:")
        _db.setconfig(sqlite3.SQLITE_DBCONFIG_DQS_DML, False)
        _db.execute("CREATE TABLE t(" + ",".join("p%d" % i for i in range(5)) + ", other, lf, zz, yy)")
    return _db


def run_operand(case, mon):
    r = R()
    d = case["d"]
    Q = r[d]
    t = r["Table"]("t")
    e = [x for x in entries() if x["label"] == case["outer"]][0]
    if e["cls"] in ("AtTimezone", "Values") or (case["slot"] in e["crit_slots"] and not _is_criterion(case["label"])):
        return
    results = []
    try:
        for aliased in (False, True):
            ops = []
            for i in range(e["arity"]):
                if i == case["slot"]:
                    x = subject(case["label"], t, Q)
                    ops.append(x.as_(AL) if aliased else x)
                else:
                    f = r["Field"]("p%d" % i, table=t)
                    ops.append(f.isnull() if i in e["crit_slots"] else f)
            term = e["make"](ops)
            sel = sql_of(Q.from_(t).select(term), d, case.get("mode", "inline"))
            whr = sql_of(Q.from_(t).select(t.other).where(term == 1), d, case.get("mode", "inline"))
            results.append((sel, whr))
    except Exception as ex:
        mon.count("unbuildable")
        mon.add("unbuildable", "%s<-%s:%s" % (case["outer"], case["label"], type(ex).__name__))
        return
    mon.count("operand_cases")
    mon.add("operand_cells", "%s#%d" % (case["outer"], case["slot"]))
    (sel0, whr0), (sel1, whr1) = results
    cls = case["label"].split(":")[0]
    for ctxname, a, b in (("select-list", sel0, sel1), ("where", whr0, whr1)):
        if a != b:
            n = sum(1 for tk in tokenize(b, d) if tk.kind == "IDENT" and tk.value == AL)
            mon.violation("leaked-in-operand:%s:%s" % (cls, ctxname if n else "text-changed"),
                          "%s used as operand %d of %s (%s context, %s): its alias is printed inside the expression: %r" % (
                              case["label"], case["slot"], case["outer"], ctxname, d, b[:240]), {"plain": a, "aliased": b})
            return
    mon.nontrivial(case)


def _is_criterion(label):
    r = R()
    try:
        return isinstance(subject(label, r["Table"]("t")), r["Criterion"])
    except Exception:
        return False


def run_source(case, mon):
    r = R()
    d = case["d"]
    Q = r[d]
    T = r["Table"]
    o = T("o")
    src = case["src"]

    def build(alias):
        if src.startswith("temporal"):
            stv = r["SystemTimeValue"]()
            s = T("src", alias=AL if alias else None)
            s = s.for_(stv == "2020-01-01") if "portion" not in src else s.for_portion(stv.from_to("2020-01-01", "2021-01-01"))
            if src == "temporal-aliased-after":  # alias given after the temporal clause
                s = T("src").for_(stv == "2020-01-01").as_(AL)
            if src.endswith("update"):
                return Q.update(s).set("a", 1).where(s.b == 2), s
        elif src.startswith("table"):
            s = T("src", alias=AL if alias else None)
        elif src.startswith("subquery"):
            s = Q.from_(T("inner")).select("id", "a")
            s = s.as_(AL if alias else "plain_al")
        elif src.startswith("setop-aliased-branches"):
            s = Q.from_(T("inner")).select("id").as_("lft_br").union(Q.from_(T("inner2")).select("id").as_("rgt_br"))
            s = s.as_(AL if alias else "plain_al")
        else:
            s = Q.from_(T("inner")).select("id").union(Q.from_(T("inner2")).select("id"))
            s = s.as_(AL if alias else "plain_al")
        if src.endswith("join"):
            return Q.from_(o).select(o.a).join(s).on(o.id == s.id), s
        return Q.from_(s).select("id"), s
    q1, s1 = build(True)
    sql = sql_of(q1, d)
    toks = tokenize(sql, d)
    occ = [i for i, t in enumerate(toks) if t.kind == "IDENT" and t.value == AL]
    mon.count("source_cases")
    fam = DIALECT_OF[d] if d != "Query" else "generic"
    # exactly one defining occurrence: the one directly after the source (a table name or a closing parenthesis)
    defining = [i for i in occ if i > 0 and (toks[i - 1].text == ")" or (toks[i - 1].kind == "IDENT" and toks[i - 1].value in ("src",)) or
                                            (toks[i - 1].kind == "WORD" and toks[i - 1].value == "AS"))]
    if any(t_.kind == "IDENT" and t_.value in ("lft_br", "rgt_br") for t_ in toks):
        mon.violation("operand-alias-printed:%s:%s" % (src, fam), "an operand of a set operation prints its own alias inside the set operation: %r" % sql[:240])
        return
    if src.startswith("temporal"):
        # the source is the table *with* its FOR clause: the alias follows the clause, and the item ends after the alias
        defining = [i for i in occ if i + 1 >= len(toks) or (toks[i + 1].kind == "WORD" and toks[i + 1].value in ("JOIN", "WHERE", "ON", "SET", "INNER", "LEFT"))
                    or toks[i + 1].text == ","]
        if any(i + 1 < len(toks) and toks[i + 1].kind == "WORD" and toks[i + 1].value == "FOR" for i in occ):
            mon.violation("source-alias-misplaced:%s:%s" % (src, fam), "the alias of a temporal table stands before its FOR clause: %r" % sql[:240])
            return
    if len(defining) != 1:
        mon.violation("source-alias:%s:%s" % (src, fam), "alias of a %s source is defined %d times: %r" % (src, len(defining), sql[:240]))
        return
    mon.nontrivial(case)


OWN_NAME_SHAPES = ["field", "field-joined", "arith-ends-with-column", "function-of-column", "table", "table-joined", "subquery-column", "orderby-groupby"]


def run_own_name(case, mon):
    """An alias that equals a name already in the term (its column, its table, the last operand's column) is an alias like any other:
    the statement is the one written with a neutral alias, with that alias replaced."""
    r = R()
    d = case["d"]
    Q = r[d]
    fam = DIALECT_OF[d] if d != "Query" else "generic"

    def build(al):
        T = r["Table"]
        t, u = T("tt"), T("uu")
        sh = case["shape"]
        if sh == "field":
            return Q.from_(t).select(t.total.as_(al), t.b)
        if sh == "field-joined":
            return Q.from_(t).join(u).on(t.id == u.id).select(t.total.as_(al), u.total)
        if sh == "arith-ends-with-column":
            c_, p_ = T("cur_t", alias="cur"), T("prev_t", alias="prev")
            e = (c_.total - p_.total).as_(al)
            return Q.from_(c_).join(p_).on(c_.id == p_.id).select(e).orderby(e)
        if sh == "function-of-column":
            e = r["fn.Max"](t.total).as_(al)
            return Q.from_(t).select(e).groupby(t.b).orderby(e)
        if sh == "table":
            ta = T("total").as_(al)
            return Q.from_(ta).select(ta.x)
        if sh == "table-joined":
            ta = T("total").as_(al)
            return Q.from_(t).join(ta).on(t.id == ta.id).select(ta.x, t.total)
        if sh == "subquery-column":
            inner = Q.from_(t).select(t.total.as_(al)).as_("sq_i")
            return Q.from_(inner).select(inner.field(al))
        e = (t.total + 1).as_(al)
        return Q.from_(t).select(e, t.total.as_("other")).groupby(e).orderby(e)
    try:
        neutral = tokenize(sql_of(build(AL), d, case.get("mode", "inline")), d)
        own_sql = sql_of(build("total"), d, case.get("mode", "inline"))
        own = tokenize(own_sql, d)
    except Exception as e:
        mon.violation("own-name-alias:raises:%s:%s" % (case["shape"], type(e).__name__), "raised %r" % e)
        return
    mon.count("own_name_alias_statements")
    want = [(t_.kind, "total" if (t_.kind == "IDENT" and t_.value == AL) else (t_.value if t_.kind in ("IDENT", "STR", "NUM", "WORD") else t_.text)) for t_ in neutral]
    got = [(t_.kind, t_.value if t_.kind in ("IDENT", "STR", "NUM", "WORD") else t_.text) for t_ in own]
    if got != want:
        mon.violation("own-name-alias:%s:%s" % (case["shape"], fam), "with the alias 'total' (a name the term already contains) the statement is %r; with a neutral alias it has %d tokens, this one %d" % (
            own_sql[:260], len(want), len(got)))
        return
    mon.nontrivial(case)


FACTORY_FORMS = {
    # (arguments of Tables(), index -> expected alias)
    "alias-first": ([("orders", AL), "customers", "items"], {0: AL, 1: None, 2: None}),
    "alias-middle": (["customers", ("orders", AL), "items"], {0: None, 1: AL, 2: None}),
    "alias-last": (["customers", "items", ("orders", AL)], {0: None, 1: None, 2: AL}),
    "two-aliases": ([("orders", AL), "customers", ("items", "i2")], {0: AL, 1: None, 2: "i2"}),
    "all-plain": (["orders", "customers", "items"], {0: None, 1: None, 2: None}),
}


def run_factory(case, mon):
    """Tables made in one call of a table factory, some with an alias and some without: an alias is emitted after its own table only."""
    r = R()
    d = case["d"]
    Q = r[d]
    fam = DIALECT_OF[d] if d != "Query" else "generic"
    args, want = FACTORY_FORMS[case["form"]]
    maker = {"Q.Tables": lambda: Q.Tables(*args), "make_tables": lambda: r["make_tables"](*args), "Tables": lambda: r["Tables"](*args) if "Tables" in r else r["make_tables"](*args)}[case["maker"]]
    try:
        tabs_ = maker()
        got = {i: getattr(t_, "alias", None) for i, t_ in enumerate(tabs_)}
        a, b, c = tabs_
        stmts = {"select": Q.from_(a).join(b).on(a.id == b.id).join(c).on(b.id == c.id).select(a.x, b.y, c.z),
                 "insert-select": Q.into(b).from_(a).select(a.x)}
        sqls = {k_: sql_of(v_, d) for k_, v_ in stmts.items()}
    except Exception as e:
        mon.violation("factory:raises:%s:%s" % (case["maker"], type(e).__name__), "%s(%r) raised %r" % (case["maker"], args, e))
        return
    mon.count("factory_calls")
    if got != want:
        mon.violation("factory:alias-on-the-wrong-table:%s:%s" % (case["maker"], case["form"]), "%s(%r) gives the aliases %r, expected %r" % (case["maker"], args, got, want))
        return
    for name_, sql in sqls.items():
        toks = tokenize(sql, d)
        for i, t_ in enumerate(toks):
            if t_.kind == "IDENT" and t_.value in (AL, "i2") and not (i + 1 < len(toks) and toks[i + 1].text == "."):
                owner = {v_: args[k_][0] for k_, v_ in want.items() if v_}[t_.value]
                prev = toks[i - 1]
                if prev.kind == "WORD" and prev.value == "AS" and i >= 2:
                    prev = toks[i - 2]
                mon.count("factory_alias_definitions")
                if not (prev.kind == "IDENT" and prev.value == owner):
                    mon.violation("factory:alias-emitted-after-another-source:%s:%s" % (case["maker"], fam), "the alias %r of table %r follows %r in %r" % (
                        t_.value, owner, prev.text, sql[:240]))
                    return
    mon.nontrivial(case)


def run_case(case, mon):
    if case.get("k") == "factory":
        return run_factory(case, mon)
    if case.get("k") == "own-name":
        return run_own_name(case, mon)
    {"position": run_position, "operand": run_operand, "source": run_source}[case["k"]](case, mon)


def post(m, tier, inconclusive):
    labels = all_labels()
    want = {"%s|%s" % (lab, pos) for lab in labels for pos in ("select", "groupby-selected", "orderby-unselected")}
    got = m["sets"].get("cells", set())
    unb = m["sets"].get("unbuildable", set())
    miss = [c for c in sorted(want - got) if not any(u.startswith(c.split("|")[0] + ":" + c.split("|")[1]) for u in unb)]
    if miss:
        inconclusive.append("class/position cells not covered: %s" % miss[:10])
    _, missing = zoo()
    if missing:
        inconclusive.append("Term subclasses that could not be constructed: %s" % missing)


def coverage_extra(m, tier):
    return {"labels": len(all_labels()), "exhaustive": True,
            "explanation": "class x defining/referring position x dialect enumerated completely; class x operand slot x outer class sampled 1/8 on the quick tier"}


def FLOORS(tier):
    return {"statements_compared": 3000, "operand_cases": 3000, "sqlite_prepares": 50}
