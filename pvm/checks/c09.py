"""C09 - LIMIT/OFFSET render as the dialect's row-limiting clause, values in the right slots.

The complete product (limit, offset) in (absent|0|positive)^2 x setter/call order x ORDER BY x embedding position x
six dialects x {inline, parameterised} is rendered by the real library.  The row-limiting tail is isolated by
differential tokenisation (same statement without limit/offset), matched against a per-dialect reference grammar,
and the limit/offset sentinels must sit in the matching slots (inline tokens, or the parameter list through the
placeholders).  SQLite-dialect statements are executed on a 10-row table and must return exactly the expected rows.
"""
from __future__ import annotations

import random
import sqlite3

from ..fingerprint import contexts
from ..lex import DIALECT_OF, sig, tokenize
from ..prog import DIALECT_CLASSES, registry

PROP = "C09"
LEVEL = "exploration"
RULE = ("exhaustive product limit x offset x setter x ORDER BY x position x dialect x mode (every combination, both tiers); the "
        "surrounding clauses where/group by/join and ORDER BYs that belong to nested queries (IN subquery, window, CTE body); every "
        "container carries a value of its own behind the embedded query; set operations are ordered themselves or through their first "
        "operand only (thorough adds distinct). "
        "non-trivial = limit or offset present; distinct = the full combination"
        " also: UPDATE with row limits, DISTINCT+TOP order, locking clause after the row limit (MySQL, Oracle), replace_table after pagination, paginated first operands of set operations. (DESIGN.md 6a)")
ASSUMPTIONS = [
    "row-limit grammar per dialect: SQLite/MySQL LIMIT n [OFFSET m]; PostgreSQL and the generic class [LIMIT n] [OFFSET m]; "
    "SQL Server ORDER BY .. OFFSET m ROWS [FETCH NEXT n ROWS ONLY] (ORDER BY mandatory, no TOP alongside); Oracle "
    "[OFFSET m ROWS] [FETCH NEXT n ROWS ONLY]",
    "no MySQL/PostgreSQL/SQL Server/Oracle engine: those grammars are the trusted base; SQLite is executed",
]
ANCHORS = ["QueryBuilder._apply_pagination", "QueryBuilder._limit_sql", "QueryBuilder._offset_sql", "_SetOperation._pagination_sql", "MSSQLQueryBuilder._apply_pagination", "MSSQLQueryBuilder._offset_sql",
           "MSSQLQueryBuilder._limit_sql", "OracleQueryBuilder._offset_sql", "OracleQueryBuilder._limit_sql",
           "QueryBuilder.slice", "QueryBuilder.__getitem__", "MSSQLQueryBuilder.top", "MSSQLQueryBuilder.fetch_next"]
WORKERS = {"quick": 16, "thorough": 16}

LIM = {"absent": None, "zero": 0, "pos": 11}
OFF = {"absent": None, "zero": 0, "pos": 7}
SETTERS = ["limit_offset", "offset_limit", "slice", "getitem"]
MSSQL_SETTERS = ["fetch_next_offset", "offset_fetch_next", "top", "top_limit"]
POSITIONS = ["top", "from-subquery", "in-subquery", "set-operand", "set-operation", "join-subquery", "cte", "insert-select-self", "select-into-self"]
SURROUND = ["plain", "where", "groupby", "join", "nested-order-in", "window-order", "cte-ordered", "distinct", "for-update", "for-update-skip-locked",
            # what happens to the paginated statement afterwards / what the first operand of a set operation carries itself
            "then-replace-table-unrelated", "then-replace-table-own", "first-operand-limited", "first-operand-offset"]


def cases(tier, seed, shard, nshards):
    k = 0
    for c in update_cases():
        k += 1
        if k % nshards == shard:
            yield c
    for c in placeholder_cases():
        k += 1
        if k % nshards == shard:
            yield c
    for d in DIALECT_CLASSES:
        setters = SETTERS + (MSSQL_SETTERS if d == "MSSQLQuery" else [])
        for setter in setters:
            for ln in LIM:
                for on in OFF:
                    for order in (False, True):
                        for pos in POSITIONS:
                            for mode in ("inline", "param"):
                                for sur in SURROUND:
                                    k += 1
                                    if k % nshards == shard:
                                        yield {"d": d, "setter": setter, "lim": ln, "off": on, "order": order, "pos": pos,
                                               "mode": mode, "sur": sur}


def placeholder_cases():
    for d in DIALECT_CLASSES:
        for pos in ("top", "set-operation", "from-subquery"):
            for which in ("limit", "offset", "both"):
                for mode in ("inline", "param"):
                    yield {"k": "caller-placeholder", "d": d, "pos": pos, "which": which, "mode": mode}


def run_placeholder(case, mon):
    """The caller's own placeholder terms as limit / offset: they are terms, written as they are, never wrapped as constants."""
    reg = registry()
    d = case["d"]
    Q = reg[d]
    t = reg["Table"]("t")
    P_ = reg["Parameter"]
    try:
        return _run_placeholder(case, mon, reg, d, Q, t, P_)
    except Exception as e:
        mon.violation("%s:caller-placeholder:raises:%s" % (DIALECT_OF[d], type(e).__name__), "a Parameter term as %s (%s) raised %r" % (case["which"], case["pos"], e))


def _run_placeholder(case, mon, reg, d, Q, t, P_):
    q = Q.from_(t).select(t.id).where(t.a == "v1").orderby(t.id)
    if case["pos"] == "set-operation":
        q = q.union(Q.from_(t).select(t.b).where(t.b == "v2")).orderby(t.id)
    if case["which"] in ("limit", "both"):
        # (SQL Server's alias of limit(), every third case)
        q = q.fetch_next(P_(":lim")) if d == "MSSQLQuery" and case["pos"] != "set-operation" and case["mode"] == "inline" else q.limit(P_(":lim"))
    if case["which"] in ("offset", "both"):
        q = q.offset(P_(":off"))
    if case["pos"] == "from-subquery":
        s_ = q.as_("s1")
        q = Q.from_(s_).select(s_.id)
    try:
        sql, vals = render(q, d, case["mode"])
    except Exception as e:
        mon.violation("%s:caller-placeholder:raises:%s" % (DIALECT_OF[d], type(e).__name__), "a Parameter term as %s raised %r" % (case["which"], e))
        return
    mon.count("caller_placeholder_statements")
    want = [x for x, w in ((":lim", "limit"), (":off", "offset")) if case["which"] in (w, "both")]
    missing = [x for x in want if sql.count(x) != 1]
    bad_vals = [v for v in (vals or []) if not isinstance(v, (str, int, float))]
    if missing or bad_vals:
        mon.violation("%s:caller-placeholder-wrapped:%s" % (DIALECT_OF[d] if d != "Query" else "generic", case["pos"]),
                      "the caller's placeholder term(s) %s for %s are not written as given (%r), values %r" % (want, case["which"], sql[:260], [repr(v)[:30] for v in (vals or [])]))
        return
    mon.nontrivial(case)


def update_cases():
    for d in DIALECT_CLASSES:
        for setter in SETTERS:
            for ln in LIM:
                for on in OFF:
                    for order in (False, True):
                        for mode in ("inline", "param"):
                            yield {"k": "update", "d": d, "setter": setter, "lim": ln, "off": on, "order": order, "mode": mode}


def base_query(d, order, sur, reg, t, target=None):
    q = reg[d].from_(t)
    if target == "insert-select-self":  # INSERT INTO dst SELECT .. <row limit>: the feeding SELECT is the statement itself
        q = q.into(reg["Table"]("dst"))
    q = q.select(t.id)
    if target == "select-into-self":    # SELECT .. INTO dst FROM .. <row limit>
        q = q.into(reg["Table"]("dst"))
    if sur == "where":
        q = q.where(t.a > 1)
    elif sur == "groupby":
        q = q.groupby(t.id)
    elif sur == "join":
        u = reg["Table"]("u")
        q = q.join(u).on(t.id == u.id)
    elif sur == "distinct":
        q = q.distinct()
    elif sur == "for-update":
        q = q.for_update()
    elif sur == "for-update-skip-locked":
        q = q.for_update(skip_locked=True, of=("t",))
    elif sur == "nested-order-in":  # an ORDER BY that belongs to a nested query, not to this one
        u = reg["Table"]("u")
        q = q.where(t.id.isin(reg[d].from_(u).select(u.id).orderby(u.id).limit(1000)))
    elif sur == "window-order":
        q = q.select(reg["an.RowNumber"]().over(t.a).orderby(t.b))
    elif sur == "cte-ordered":
        u = reg["Table"]("u")
        q = q.with_(reg[d].from_(u).select(u.id).orderby(u.id).limit(1000), "c0")
    if order:
        q = q.orderby(t.id)
    return q


def paginate(q, setter, lim, off):
    """Apply the setter; returns (query, effective limit, effective offset, uses_top)."""
    top = False
    if setter == "limit_offset":
        if lim is not None:
            q = q.limit(lim)
        if off is not None:
            q = q.offset(off)
    elif setter == "offset_limit":
        if off is not None:
            q = q.offset(off)
        if lim is not None:
            q = q.limit(lim)
    elif setter == "slice":
        q = q.slice(slice(off, lim))
    elif setter == "getitem":
        q = q[off:lim]
    elif setter == "fetch_next_offset":
        if lim is not None:
            q = q.fetch_next(lim)
        if off is not None:
            q = q.offset(off)
    elif setter == "offset_fetch_next":
        if off is not None:
            q = q.offset(off)
        if lim is not None:
            q = q.fetch_next(lim)
    elif setter == "top":
        if lim is not None:
            q = q.top(lim)
            top = True
        if off is not None:
            q = q.offset(off)
    elif setter == "top_limit":
        if lim is not None:
            q = q.top(lim).limit(lim)
            top = True
        if off is not None:
            q = q.offset(off)
    return q, top


def embed(pos, d, inner, reg, t, paginated_setop=None):
    """Outer statement holding `inner` at the position."""
    Q = reg[d]
    if pos == "top" or pos.endswith("-self"):
        return inner
    # (every container carries a value of its own *after* the embedded query, so that the parameter list goes on behind the tail)
    if pos == "from-subquery":
        s = inner.as_("s")
        return Q.from_(s).select(s.id).where(s.id < 999)
    if pos == "join-subquery":
        s = inner.as_("s")
        return Q.from_(t).select(t.a).join(s).on(t.id == s.id).where(t.a < 999)
    if pos == "in-subquery":
        return Q.from_(t).select(t.a).where(t.id.isin(inner)).where(t.a < 999)
    if pos == "set-operand":
        return inner.union(Q.from_(t).select(t.b).where(t.b < 999))
    if pos == "cte":
        c = reg["AliasedQuery"]("c1")
        return Q.with_(inner, "c1").from_(c).select(c.id).where(c.id < 999)
    raise ValueError(pos)


def render(o, d, mode):
    reg = registry()
    ctx = contexts()[d]
    if mode == "param":
        pz = reg["Parameterizer"]()
        return o.get_sql(ctx.copy(parameterizer=pz)), list(pz.values)
    return o.get_sql(ctx), None


def strip_common(a, b):
    i = 0
    while i < len(a) and i < len(b) and a[i] == b[i]:
        i += 1
    j = 0
    while j < len(a) - i and j < len(b) - i and a[len(a) - 1 - j] == b[len(b) - 1 - j]:
        j += 1
    return i, j


class Tail:
    """Matcher over the tail tokens."""

    def __init__(self, toks, values, param_offset):
        self.t = toks
        self.i = 0
        self.values = values
        self.nparam = param_offset
        self.last_kind = None

    def word(self, *ws):
        for w in ws:
            t = self.t[self.i] if self.i < len(self.t) else None
            if t is None or t.kind != "WORD" or t.value != w:
                return False
            self.i += 1
        return True

    def peek_word(self, w):
        t = self.t[self.i] if self.i < len(self.t) else None
        return t is not None and t.kind == "WORD" and t.value == w

    def value(self):
        """Consume one value slot; returns the python value it denotes (via the parameter list if a placeholder)."""
        t = self.t[self.i] if self.i < len(self.t) else None
        if t is None:
            return "<missing>"
        self.last_kind = t.kind
        if t.kind == "OP" and t.text == "-" and self.i + 1 < len(self.t) and self.t[self.i + 1].kind == "NUM":
            self.i += 2
            return -int(self.t[self.i - 1].value)
        if t.kind == "NUM":
            self.i += 1
            return int(t.value) if t.value == t.value.to_integral_value() else float(t.value)
        if t.kind == "PARAM":
            self.i += 1
            if self.values is None:
                return "<placeholder-without-parameterizer>"
            idx = (t.value - 1) if isinstance(t.value, int) else self.nparam
            self.nparam += 1
            if idx >= len(self.values):
                return "<placeholder-beyond-values>"
            return self.values[idx]
        return "<not-a-value:%s>" % t.text

    def done(self):
        return self.i >= len(self.t)


def match_tail(dialect, toks, values, nparam_before, has_order, lim, off, position, top):
    """Returns None if the tail is the dialect's row-limiting clause for (lim, off), else (fault, text)."""
    T = Tail(toks, values, nparam_before)
    fam = DIALECT_OF[dialect]
    generic_class = dialect == "Query"
    got_lim = got_off = "<none>"
    kind_lim = kind_off = None
    if fam in ("sqlite", "mysql", "postgresql"):
        if T.word("LIMIT"):
            got_lim = T.value(); kind_lim = T.last_kind
        if T.word("OFFSET"):
            got_off = T.value(); kind_off = T.last_kind
            if got_lim == "<none>" and fam in ("sqlite", "mysql") and not generic_class:
                return "offset-without-limit", "OFFSET without LIMIT is not grammatical in %s" % fam
        if not T.done():
            return "trailing-tokens", "unexpected tokens after the row-limiting clause"
        # the dialect's idiom for "no limit" in front of an OFFSET
        if lim is None and got_off != "<none>" and not generic_class:
            if (fam == "sqlite" and got_lim == -1) or (fam == "mysql" and got_lim == 18446744073709551615):
                got_lim = "<none>"
    elif fam == "mssql":
        if top and (lim is not None) and T.done() and off is None:
            return None  # SELECT TOP (n): handled by the caller through the prefix
        if T.done():
            if lim is None and off is None:
                return None
            return "missing-clause", "no row-limiting clause emitted"
        synthetic = False
        if T.word("ORDER", "BY"):
            # only the neutral ordering may be supplied here
            ok = (T.i + 4 <= len(T.t) and [x.text.upper() for x in T.t[T.i:T.i + 4]] == ["(", "SELECT", "0", ")"])
            if not ok:
                return "bad-synthetic-order", "ORDER BY in the tail is not the neutral (SELECT 0)"
            T.i += 4
            synthetic = True
        if not has_order and not synthetic:
            return "offset-without-order-by", "OFFSET/FETCH without ORDER BY"
        if has_order and synthetic:
            return "duplicate-order-by", "neutral ORDER BY added although the query is ordered"
        if T.word("LIMIT") or (T.peek_word("OFFSET") and not _rows_form(T)):
            return "generic-limit", "generic LIMIT/OFFSET emitted for SQL Server"
        if not T.word("OFFSET"):
            return "fetch-without-offset", "FETCH NEXT requires OFFSET in SQL Server"
        got_off = T.value(); kind_off = T.last_kind
        if not T.word("ROWS"):
            return "malformed", "OFFSET m ROWS expected"
        if T.word("FETCH", "NEXT"):
            got_lim = T.value(); kind_lim = T.last_kind
            if not T.word("ROWS", "ONLY"):
                return "malformed", "FETCH NEXT n ROWS ONLY expected"
        if not T.done():
            return "trailing-tokens", "unexpected tokens after the row-limiting clause"
        if top:
            return "top-with-fetch", "TOP and OFFSET/FETCH in one query specification"
        if off is None and got_off == 0:
            got_off = "<none>"  # OFFSET 0 ROWS is the required filler
    elif fam == "oracle":
        if T.word("LIMIT") or (T.peek_word("OFFSET") and not _rows_form(T)):
            return "generic-limit", "generic LIMIT/OFFSET emitted for Oracle"
        if T.peek_word("FETCH"):
            # FETCH first: only fine when no OFFSET follows
            save = T.i
            T.word("FETCH", "NEXT")
            got_lim = T.value(); kind_lim = T.last_kind
            if not T.word("ROWS", "ONLY"):
                return "malformed", "FETCH NEXT n ROWS ONLY expected"
            if T.peek_word("OFFSET"):
                return "fetch-before-offset", "Oracle requires OFFSET m ROWS before FETCH NEXT n ROWS ONLY"
            T.i = T.i
        else:
            if T.word("OFFSET"):
                got_off = T.value(); kind_off = T.last_kind
                if not T.word("ROWS"):
                    return "malformed", "OFFSET m ROWS expected"
            if T.word("FETCH", "NEXT"):
                got_lim = T.value(); kind_lim = T.last_kind
                if not T.word("ROWS", "ONLY"):
                    return "malformed", "FETCH NEXT n ROWS ONLY expected"
        if not T.done():
            return "trailing-tokens", "unexpected tokens after the row-limiting clause"
    want_lim = "<none>" if lim is None else lim
    want_off = "<none>" if off is None else off
    if top and fam == "mssql":
        want_lim = "<none>"
    if values is not None:
        # parameterised mode: the user's limit/offset travel in the parameter list, not in the text
        if want_lim != "<none>" and got_lim == want_lim and kind_lim != "PARAM":
            return "not-parameterised", "limit value is inline although a parameterizer was supplied"
        if want_off != "<none>" and got_off == want_off and kind_off != "PARAM":
            return "not-parameterised", "offset value is inline although a parameterizer was supplied"
    if got_lim != want_lim or got_off != want_off:
        if (got_lim, got_off) == (want_off, want_lim) and want_lim != want_off:
            return "slots-swapped", "limit/offset values in each other's slots (limit slot %r, offset slot %r)" % (got_lim, got_off)
        return "wrong-values", "limit slot holds %r (want %r), offset slot holds %r (want %r)" % (got_lim, want_lim, got_off, want_off)
    return None


def _rows_form(T):
    # OFFSET <value> ROWS ?
    j = T.i + 2
    return j < len(T.t) and T.t[j].kind == "WORD" and T.t[j].value == "ROWS"


_con = None


def sqlite_rows(sql, values):
    global _con
    if _con is None:
        _con = sqlite3.connect(":memory:")
        _con.execute("CREATE TABLE t(id INTEGER PRIMARY KEY, a INT, b INT)")
        _con.execute("CREATE TABLE u(id INTEGER PRIMARY KEY, a INT)")
        _con.executemany("INSERT INTO t VALUES (?,?,?)", [(i, i * 2, 100 + i) for i in range(1, 11)])
        _con.executemany("INSERT INTO u VALUES (?,?)", [(i, i) for i in range(1, 11)])
    return _con.execute(sql, values or []).fetchall()


def run_update(case, mon):
    """UPDATE with limit()/offset()/slices: no dialect's UPDATE grammar has an OFFSET; a LIMIT that is written holds the limit
    value (inline or through its placeholder) and the parameter list holds nothing else from the pagination."""
    reg = registry()
    d, mode = case["d"], case["mode"]
    lim, off = LIM[case["lim"]], OFF[case["off"]]
    fam = DIALECT_OF[d] if d != "Query" else "generic"
    t = reg["Table"]("t")
    base = reg[d].update(t).set(t.a, 1).where(t.b == 2)
    if case["order"]:
        base = base.orderby(t.id)
    try:
        q, _ = paginate(base, case["setter"], lim, off)
        sql0, vals0 = render(base, d, mode)
        sql1, vals1 = render(q, d, mode)
    except Exception as e:
        mon.violation("%s:update:raises:%s" % (fam, type(e).__name__), "UPDATE with limit=%r offset=%r raised %r" % (lim, off, e))
        return
    mon.count("statements_rendered", 2)
    mon.count("update_statements")
    toks = tokenize(sql1, d)
    if any(tk.kind == "WORD" and tk.value in ("OFFSET", "FETCH") for tk in toks):
        mon.violation("%s:update-with-offset" % fam, "UPDATE carries an OFFSET/FETCH clause (limit=%r offset=%r via %s, %s): %r" % (lim, off, case["setter"], mode, sql1[:240]))
        return
    lims = [i for i, tk in enumerate(toks) if tk.kind == "WORD" and tk.value == "LIMIT"]
    extra = (len(vals1) - len(vals0)) if mode == "param" else 0
    if lims:
        T = Tail(toks[lims[-1] + 1:], vals1, sum(1 for x in toks[:lims[-1]] if x.kind == "PARAM"))
        got = T.value()
        if lim is None or got != lim or not T.done() or extra != (1 if mode == "param" else 0):
            mon.violation("%s:update-limit-value" % fam, "UPDATE LIMIT slot holds %r (limit=%r offset=%r, %d extra values): %r %r" % (got, lim, off, extra, sql1[:200], vals1))
            return
    elif extra:
        mon.violation("%s:update-stray-values" % fam, "%d pagination values in the parameter list of an UPDATE without LIMIT: %r %r" % (extra, sql1[:200], vals1))
        return
    mon.nontrivial(case)


def run_case(case, mon):
    if case.get("k") == "update":
        return run_update(case, mon)
    if case.get("k") == "caller-placeholder":
        return run_placeholder(case, mon)
    reg = registry()
    d, pos, mode = case["d"], case["pos"], case["mode"]
    lim, off = LIM[case["lim"]], OFF[case["off"]]
    t = reg["Table"]("t")
    if case["sur"] == "window-order" and pos in ("set-operation", "set-operand"):
        return  # (the window column would change the number of select items of one operand)
    base = base_query(d, case["order"], case["sur"], reg, t, target=pos if pos.endswith("-self") else None)
    if pos == "set-operation":
        # the ORDER BY under test is the set operation's own; with the "groupby" surrounding it is the *first operand* that is
        # ordered instead (inside its brackets), which must not count as an ordering of the set operation
        operand_ordered = case["order"] and case["sur"] == "groupby" and DIALECT_OF[d] not in ("mysql", "sqlite")
        base = base_query(d, operand_ordered, case["sur"], reg, t)
        if case["sur"] in ("first-operand-limited", "first-operand-offset"):
            if DIALECT_OF[d] in ("mysql", "sqlite"):
                return  # (these dialects do not bracket operands: an operand cannot carry a row limit of its own)
            # the first operand is cut itself (inside its brackets): the set operation's own clause takes nothing from it
            base = base.orderby(t.id)
            base = base.limit(5) if case["sur"] == "first-operand-limited" else base.offset(4)
        so0 = base.union(reg[d].from_(t).select(t.b).where(t.b < 999))
        if case["order"] and not operand_ordered:
            so0 = so0.orderby(t.id)
        case = dict(case, order=case["order"] and not operand_ordered)
        if case["setter"] not in ("limit_offset", "offset_limit"):
            return
        so = so0
        if case["setter"] == "limit_offset":
            so = so.limit(lim) if lim is not None else so
            so = so.offset(off) if off is not None else so
        else:
            so = so.offset(off) if off is not None else so
            so = so.limit(lim) if lim is not None else so
        plain, target, top = so0, so, False
    else:
        q, top = paginate(base, case["setter"], lim, off)
        try:
            plain = embed(pos, d, base, reg, t)
            target = embed(pos, d, q, reg, t)
        except Exception as e:
            mon.violation("%s:%s:raises:%s" % (DIALECT_OF[d], pos, type(e).__name__), "embedding raised %r" % e)
            return
    if case["sur"].startswith("then-replace-table"):
        # a rewriting call afterwards (naming tables the statement does not use / its own table, replaced by itself) changes nothing
        a_, b_ = (reg["Table"]("zz_unrelated"), reg["Table"]("yy_unrelated")) if case["sur"].endswith("unrelated") else (t, t)
        try:
            plain, target = plain.replace_table(a_, b_), target.replace_table(a_, b_)
        except Exception as e:
            mon.violation("%s:%s:raises:%s" % (DIALECT_OF[d], pos, type(e).__name__), "replace_table after pagination raised %r" % e)
            return
    try:
        sql0, vals0 = render(plain, d, mode)
        sql1, vals1 = render(target, d, mode)
    except Exception as e:
        mon.violation("%s:%s:raises:%s" % (DIALECT_OF[d], pos, type(e).__name__), "render raised %r" % e)
        return
    mon.count("statements_rendered", 2)
    t0, t1 = tokenize(sql0, d), tokenize(sql1, d)
    top_seen = False
    if top:
        # SELECT TOP (n) belongs to the select list, not to the tail: take it out before the differential step
        for i in range(len(t1) - 3):
            if t1[i].kind == "WORD" and t1[i].value == "TOP" and [x.text for x in t1[i + 1:i + 4]] == ["(", str(lim), ")"] \
                    and i > 0 and t1[i - 1].kind == "WORD" and t1[i - 1].value in ("SELECT", "DISTINCT"):
                if i + 4 < len(t1) and t1[i + 4].kind == "WORD" and t1[i + 4].value in ("DISTINCT", "ALL"):
                    # T-SQL: SELECT [ALL | DISTINCT] [TOP (n)] <select list>
                    mon.violation("%s:top-before-distinct:%s" % (DIALECT_OF[d], pos), "TOP (n) is written in front of %s: %r" % (t1[i + 4].value, sql1[:200]))
                    return
                t1 = t1[:i] + t1[i + 4:]
                top_seen = True
                break
        if not top_seen:
            mon.violation("%s:top-missing:%s" % (DIALECT_OF[d], pos), "top(%r) left no SELECT TOP (n) in %r" % (lim, sql1[:200]))
            return
    # (numbered placeholders behind the tail are renumbered by the two pagination values: compare them by kind only)
    s0 = [("PARAM",) if x.kind == "PARAM" else y for x, y in zip(t0, sig(t0))]
    s1 = [("PARAM",) if x.kind == "PARAM" else y for x, y in zip(t1, sig(t1))]
    a, b = strip_common(s0, s1)
    tail = t1[a:len(t1) - b]
    removed = t0[a:len(t0) - b]
    nparam_before = sum(1 for x in t1[:a] if x.kind == "PARAM")
    fam = DIALECT_OF[d] if d != "Query" else "generic"

    def K(fault):
        return "%s:%s:%s" % (fam, fault, pos)
    if lim is not None or off is not None:
        mon.nontrivial(case)
    mon.add("cells", "%s|%s|%s|%s" % (d, pos, case["lim"], case["off"]))
    # SELECT TOP (n): part of the select list, not of the tail
    tail_wo_top = tail
    if removed:
        if removed:
            mon.violation(K("statement-changed"), "tokens %r of the unpaginated statement disappeared" % [x.text for x in removed][:8],
                          {"plain": sql0, "paginated": sql1})
            return
    if tail and fam in ("mysql", "oracle"):
        # the locking clause closes the query: [LIMIT ..] [FOR UPDATE ..] in MySQL, <row limiting clause> [FOR UPDATE] in Oracle
        j = a - 1
        lock_words = {"FOR", "UPDATE", "SHARE", "NOWAIT", "SKIP", "LOCKED", "OF"}
        while j >= 0 and ((t1[j].kind == "WORD" and t1[j].value in lock_words) or t1[j].kind == "IDENT" or (t1[j].kind == "PUNCT" and t1[j].text == ",")):
            if t1[j].kind == "WORD" and t1[j].value == "FOR" and j + 1 < len(t1) and t1[j + 1].kind == "WORD" and t1[j + 1].value in ("UPDATE", "SHARE"):
                mon.violation(K("after-locking-clause"), "the row-limiting clause follows the locking clause: %r" % sql1[:300], {"sql": sql1})
                return
            j -= 1
        mon.count("locking_clause_order_checked")
    fault = match_tail(d, tail_wo_top, vals1, nparam_before, case["order"], lim, off, pos, top)
    mon.count("tails_matched")
    if fault:
        mon.violation(K(fault[0]), "%s limit=%r offset=%r via %s%s (%s): %s; statement %r" % (
            d, lim, off, case["setter"], " with ORDER BY" if case["order"] else "", mode, fault[1], sql1[:300]),
            {"sql": sql1, "values": vals1, "tail": [x.text for x in tail]})
        return
    if mode == "param" and vals1 is not None and vals0 is not None:
        extra = len(vals1) - len(vals0)
        want = (0 if (lim is None or top) else 1) + (0 if off is None else 1)
        mon.count("parameter_lists_checked")
        if extra != want and not (DIALECT_OF[d] == "mssql"):
            mon.violation(K("parameter-count"), "%d pagination values in the parameter list, expected %d: %r" % (extra, want, vals1))
            return
    # engine
    if (d == "SQLLiteQuery" or (d == "Query" and not (lim is None and off is not None))) and case["sur"] in ("plain", "where") and pos in ("top", "from-subquery", "in-subquery", "cte", "join-subquery"):
        try:
            rows = sqlite_rows(sql1, vals1)
            n_all = len(sqlite_rows(sql0, vals0))
            mon.count("sqlite_executions")
            exp = n_all if lim is None and off is None else max(0, min(lim if lim is not None else 10 ** 9, n_all - (off or 0)))
            if pos == "in-subquery" and not case["order"]:
                pass
            if len(rows) != exp:
                mon.violation(K("engine-row-count"), "SQLite returned %d rows, expected %d (limit=%r offset=%r of %d): %r" % (
                    len(rows), exp, lim, off, n_all, sql1[:200]))
                return
            if case["order"] and pos in ("top",):
                allrows = sqlite_rows(sql0, vals0)
                expect = allrows[(off or 0):][: (lim if lim is not None else None)]
                if rows != expect:
                    mon.violation(K("engine-rows"), "SQLite returned rows %r, expected %r" % (rows[:5], expect[:5]))
                    return
        except sqlite3.Error as e:
            mon.violation(K("engine-error"), "SQLite rejects %r: %s" % (sql1[:200], e))
            return
    if mon.evaluations % 211 == 1:
        mon.sample({"case": case, "sql": sql1, "values": [repr(v) for v in (vals1 or [])]})


def post(m, tier, inconclusive):
    want = set()
    for d in DIALECT_CLASSES:
        for pos in POSITIONS:
            for ln in LIM:
                for on in OFF:
                    want.add("%s|%s|%s|%s" % (d, pos, ln, on))
    got = m["sets"].get("cells", set())
    if want - got:
        inconclusive.append("combinations not covered: %s" % sorted(want - got)[:8])


def coverage_extra(m, tier):
    return {"exhaustive": True, "explanation": "the full product is enumerated on both tiers (surrounding clauses: 2 quick / 5 thorough)"}


def FLOORS(tier):
    return {"tails_matched": 5000, "sqlite_executions": 300}
