"""C03 - SQLite-dialect statements mean what the builder calls say (engine-checked).

A relational program (JSON tree) is interpreted twice: (1) through the real SQLite dialect classes of pypika_tortoise,
giving the rendered SQL; (2) by an independent reference writer that emits the same program as plain SQL with every
operator application parenthesised, every column qualified by its source's alias-or-name, explicit AS, full
expressions in GROUP BY / ORDER BY.  On a strict connection (double-quoted-string misfeature off) both are prepared;
identical EXPLAIN bytecode means equivalence on all data; otherwise both are executed on generated databases and must
return the same rows in the same order (SELECT) or leave the same table contents (DML).
"""
from __future__ import annotations

import random
import sqlite3

from ..prog import registry

PROP = "C03"
LEVEL = "exploration"
RULE = ("seeded random relational programs over t1,t2,t3(id,a,b,c): 1-3 sources (plain/aliased tables, subquery in FROM), inner/left/"
        "cross joins, projections (arithmetic with negative literals and unary minus, CASE, scalar functions, aggregates with DISTINCT, "
        "window functions), WHERE (comparisons, AND/OR/NOT, IN list/subquery, BETWEEN, IS NULL, LIKE), GROUP BY/HAVING, DISTINCT, "
        "ORDER BY, LIMIT/OFFSET, set operations built with the SQLite builder's defaults, correlated subqueries with the outer column "
        "on either side, window keys that carry aliases of their own, INSERT (values/select/replace), UPDATE (incl. UPDATE..FROM), DELETE, "
        "upsert; nesting depth <= 4; plus a fixed list of hand-written programs for each clause. non-trivial = at least 3 clauses or "
        "one nested query; distinct = canonical program"
        " also: ordered and cut IN-subqueries, aggregate-only selects with HAVING, FILTER with DISTINCT, row and step caps on the engine. (DESIGN.md 6a)")
ASSUMPTIONS = [
    "identical EXPLAIN programs (opcode, p1-p5) are taken as equivalence on all data; otherwise equality on 6 (quick) / 24 (thorough) "
    "generated databases per program",
    "programs with LIMIT/OFFSET or window ORDER BY get a total order (unique key appended); where totality cannot be arranged and the "
    "bytecode differs the case is counted skipped_nondeterministic, not judged",
    "the reference writer (this module) is the trusted transcription; a prepare error of the reference is a harness error",
]
ANCHORS = ["SQLLiteQueryBuilder.get_sql", "QueryBuilder.get_sql", "QueryBuilder._select_sql", "QueryBuilder._from_sql", "QueryBuilder._where_sql",
           "QueryBuilder._group_sql", "QueryBuilder._having_sql", "QueryBuilder._orderby_sql", "QueryBuilder._apply_pagination",
           "QueryBuilder._values_sql", "QueryBuilder._set_sql", "Field.get_sql", "ArithmeticExpression.get_sql", "ComplexCriterion.get_sql",
           "Not.get_sql", "Negative.get_sql", "SQLLiteValueWrapper.get_value_sql"]
WORKERS = {"quick": 16, "thorough": 16}
WATCHDOG = {"quick": 900, "thorough": 3300}

TABLES = ["t1", "t2", "t3"]
COLS = ["id", "a", "b", "c"]
INTCOLS = ["id", "a", "b"]


# ---------------------------------------------------------------------------------------------- generator
class G:
    def __init__(self, rnd):
        self.rnd = rnd
        self.nalias = 0

    def alias(self, p="x"):
        self.nalias += 1
        return "%s%d" % (p, self.nalias)

    def source(self, depth):
        r = self.rnd
        bias = getattr(self, "bias", None) == "derived-sources"  # every tenth program: mostly un-named derived sources
        if depth > 0 and r.random() < (0.75 if bias else 0.2):
            q = self.select(depth - 1, plain_cols=True)
            # auto: the builder is handed the subquery without a name and names it itself (sq<n>); the reference keeps its own name
            return {"k": "sub", "q": q, "alias": self.alias("s"), "cols": [c["as"] for c in q["select"]], "auto": r.random() < (0.9 if bias else 0.4)}
        t = r.choice(TABLES)
        used = getattr(self, "_used", set())
        alias = self.alias("q") if (r.random() < 0.5 or t in used) else None
        used.add(alias or t)
        self._used = used
        return {"k": "table", "t": t, "alias": alias, "cols": COLS}

    def col(self, scope, kind=None):
        r = self.rnd
        s = r.choice(scope)
        cols = s["cols"]
        if kind == "int":
            cols = [c for c in cols if c != "c"] or cols
        elif kind == "text":
            cols = [c for c in cols if c == "c"] or cols
        return {"k": "col", "src": s["alias"] or s["t"], "name": r.choice(cols)}

    def const(self, kind="int"):
        r = self.rnd
        if kind == "text":
            return {"k": "const", "v": r.choice(["x", "y", "Zed", "it's", "", "a%"])}
        return {"k": "const", "v": r.choice([0, 1, 2, 3, -1, -2, 5, 10, None, 1.5, True, False] if r.random() < 0.3 else [0, 1, 2, 3, -1, -2, 5, 10])}

    def expr(self, scope, depth, agg=False, kind="int"):
        r = self.rnd
        x = r.random()
        if depth <= 0 or x < 0.3:
            return self.col(scope, kind) if r.random() < 0.75 else self.const(kind)
        if kind == "text":
            if x < 0.6:
                return {"k": "fn", "n": r.choice(["UPPER", "LOWER"]), "args": [self.expr(scope, depth - 1, agg, "text")]}
            return {"k": "fn", "n": "COALESCE", "args": [self.expr(scope, depth - 1, agg, "text"), self.const("text")]}
        if x < 0.55:
            node = {"k": "bin", "o": r.choice("+-*/"), "l": self.expr(scope, depth - 1, agg), "r": self.expr(scope, depth - 1, agg)}
            if node["o"] == "*" and leads_with_div(node["r"]):
                node["o"] = "+"  # x*(y/z) is the recorded C06 finding mul/right/div: kept out of the main stream
            return node
        if x < 0.62:
            return {"k": "neg", "a": self.expr(scope, depth - 1, agg)}
        if x < 0.72:
            n = r.choice(["COALESCE", "ABS", "NULLIF", "IFNULL", "LENGTH"])
            if n == "ABS":
                return {"k": "fn", "n": n, "args": [self.expr(scope, depth - 1, agg)]}
            if n == "LENGTH":
                return {"k": "fn", "n": n, "args": [self.expr(scope, depth - 1, agg, "text")]}
            return {"k": "fn", "n": n, "args": [self.expr(scope, depth - 1, agg), self.expr(scope, depth - 1, agg)]}
        if x < 0.82:
            return {"k": "case", "w": [[self.crit(scope, depth - 1, agg), self.expr(scope, depth - 1, agg)] for _ in range(r.randint(1, 2))],
                    "e": self.expr(scope, depth - 1, agg) if r.random() < 0.7 else None}
        if x < 0.87:
            return {"k": "cast", "a": self.expr(scope, depth - 1, agg), "t": "INTEGER"}
        if agg and x < 0.97:
            n = r.choice(["COUNT", "SUM", "MIN", "MAX", "AVG"])
            return {"k": "agg", "n": n, "a": self.expr(scope, depth - 1, False), "distinct": n in ("COUNT", "SUM") and r.random() < 0.3}
        return self.crit(scope, depth - 1, agg, operand=True)

    def tower(self, scope, levels):
        """A boolean group of the given height over simple comparisons: AND / OR / NOT alternate freely, so groups whose text begins
        and ends with a bracket sit inside groups of the other connective."""
        r = self.rnd
        if levels <= 0:
            return {"k": "cmp", "o": r.choice(["=", "<>", "<", ">="]), "l": self.col(scope, "int"), "r": {"k": "const", "v": r.randint(-1, 3)}}
        if r.random() < 0.12:
            return {"k": "not", "a": self.tower(scope, levels - 1)}
        return {"k": r.choice(["and", "or"]), "l": self.tower(scope, levels - 1), "r": self.tower(scope, levels - r.choice([1, 1, 2]))}

    def crit(self, scope, depth, agg=False, operand=False):
        r = self.rnd
        x = r.random()
        if operand:
            # a criterion used as an operand: NOT-led forms are the recorded C06 finding not-operand/* (kept out of the main stream)
            c = self.crit(scope, depth, agg)
            for _ in range(6):
                if c["k"] == "not" or (c["k"] == "isnull" and c["neg"]):
                    c = self.crit(scope, depth, agg)
            if c["k"] == "not" or (c["k"] == "isnull" and c["neg"]):
                c = {"k": "cmp", "o": "=", "l": self.col(scope), "r": self.const()}
            return c
        if depth > 0 and x < 0.25:
            return {"k": r.choice(["and", "or"]), "l": self.crit(scope, depth - 1, agg), "r": self.crit(scope, depth - 1, agg)}
        if depth > 0 and x < 0.33:
            return {"k": "not", "a": self.crit(scope, depth - 1, agg)}
        if x < 0.62:
            return {"k": "cmp", "o": r.choice(["=", "<>", "<", "<=", ">", ">="]), "l": self.expr(scope, depth - 1, agg), "r": self.expr(scope, depth - 1, agg)}
        if x < 0.72:
            return {"k": "in", "l": self.expr(scope, depth - 1, agg), "vs": [self.const() for _ in range(r.choice([0, 1, 1, 2, 3]))], "neg": r.random() < 0.4}
        if x < 0.79:
            return {"k": "between", "l": self.expr(scope, depth - 1, agg), "lo": self.const(), "hi": self.const()}
        if x < 0.87:
            return {"k": "isnull", "l": self.expr(scope, depth - 1, agg), "neg": r.random() < 0.4}
        if x < 0.93:
            return {"k": "like", "l": self.col(scope, "text"), "p": r.choice(["x%", "%e%", "_", "it%", "%"])}
        if depth > 0:
            sub = self.select(depth - 1, single=True)
            outer_tables = [s_ for s_ in scope if s_["k"] == "table"]
            if r.random() < 0.5 and outer_tables and all(s_["k"] == "table" for s_ in sub["from"]) and not sub["joins"]:
                # correlated: a separate where() call naming a column of the *outer* scope with a namesake inside,
                # placed before or after the subquery's own where() call
                inner = sub["from"][0]
                o_ = r.choice(outer_tables)
                name = r.choice(COLS)
                outer_names = {(s_["alias"] or s_.get("t")) for s_ in scope}
                if (inner["alias"] or inner["t"]) not in outer_names:
                    sub["where2"] = {"k": "cmp", "o": "=", "l": {"k": "col", "src": inner["alias"] or inner["t"], "name": name},
                                     "r": {"k": "col", "src": o_["alias"] or o_["t"], "name": name}}
                    if r.random() < 0.5:  # either operand order: outer column on the left or on the right
                        sub["where2"]["l"], sub["where2"]["r"] = sub["where2"]["r"], sub["where2"]["l"]
                    sub["where2_first"] = r.random() < 0.5
            return {"k": "insub", "l": self.expr(scope, 0, agg), "q": sub, "neg": r.random() < 0.3}
        return {"k": "cmp", "o": "=", "l": self.col(scope), "r": self.const()}

    def select(self, depth, single=False, plain_cols=False, allow_limit=True):
        r = self.rnd
        saved_used, self._used = getattr(self, "_used", set()), set()
        level = getattr(self, "_level", 0)
        self._level = level + 1
        try:
            q = self._select(depth, single, plain_cols, allow_limit)
        finally:
            self._used = saved_used
            self._level = level
        if level > 0 and (q["limit"] is not None or q["offset"] is not None) and not q.get("total"):
            # a nested LIMIT without a total order lets the engine pick different rows under different plans: not judged at the
            # top level, and not generated below it
            q["limit"] = q["offset"] = None
        return q

    def _select(self, depth, single=False, plain_cols=False, allow_limit=True):
        r = self.rnd
        srcs = [self.source(depth)]
        joins = []
        extra_from = []
        more = [1, 1, 2, 2] if getattr(self, "bias", None) == "derived-sources" and not single else [0, 0, 1, 1, 2]
        for _ in range(r.choice(more) if not single else r.choice([0, 1])):
            s = self.source(max(0, depth - 1))
            how = r.choice(["inner", "left", "cross", "from"])
            if how == "from":
                if joins:
                    continue
                extra_from.append(s)
                srcs.append(s)
            else:
                srcs.append(s)
                joins.append({"src": s, "how": how, "on": None if how == "cross" else self.crit(srcs, 1)})
        grouped = r.random() < 0.3 and not single
        sel = []
        group = []
        if grouped:
            for _ in range(r.randint(1, 2)):
                g = self.expr(srcs, 1)
                if not has_col(g):  # SQLite reads constant integer expressions in GROUP BY as column positions
                    g = self.col(srcs)
                group.append(g)
                sel.append({"e": g, "as": self.alias("g")})
            for _ in range(r.randint(1, 2)):
                n_ = r.choice(["COUNT", "SUM", "MIN", "MAX"])
                sel.append({"e": {"k": "agg", "n": n_, "a": self.expr(srcs, 1), "distinct": n_ in ("COUNT", "SUM") and r.random() < 0.3,
                                  "filter": self.crit(srcs, 1) if r.random() < 0.3 else None, "filter_first": r.random() < 0.5},
                            "as": self.alias("m")})
        agg_only = (not grouped) and (not plain_cols) and r.random() < 0.08
        if agg_only:
            # aggregates over the whole input, no GROUP BY: one row - or none, if a HAVING condition says so
            for _ in range(1 if single else r.randint(1, 2)):
                n_ = r.choice(["COUNT", "SUM", "MIN", "MAX"])
                sel.append({"e": {"k": "agg", "n": n_, "a": self.col(srcs, "int"), "distinct": n_ in ("COUNT", "SUM") and r.random() < 0.3,
                                  "filter": self.crit(srcs, 1) if r.random() < 0.3 else None, "filter_first": r.random() < 0.5},
                            "as": self.alias("m")})
        elif not grouped:
            for _ in range(1 if single else r.randint(1, 4)):
                if plain_cols or r.random() < 0.4:
                    e = self.col(srcs)
                else:
                    e = self.expr(srcs, 2 if depth > 0 else 1, kind="text" if r.random() < 0.15 else "int")
                name = self.alias("c")
                if plain_cols and e["k"] == "col" and e["name"] not in [x["as"] for x in sel] and r.random() < 0.7:
                    # a derived source usually hands its columns on under their own names: sibling sources then share column
                    # names, and only the qualifier tells them apart
                    name = e["name"]
                sel.append({"e": e, "as": name})
            if not single and not plain_cols and r.random() < 0.15:
                part = [self.col(srcs)] if r.random() < 0.6 else []
                wn = r.choice(["ROW_NUMBER", "RANK", "SUM", "COUNT"])
                worder = [[self.col(srcs, "int"), r.choice(["ASC", "DESC"])]]
                if wn == "ROW_NUMBER":
                    # ROW_NUMBER numbers tied rows in an engine-chosen order: make the window order total (unique key of every
                    # source), or fall back to RANK (deterministic under ties) where a source has no key
                    if all(s_["k"] == "table" for s_ in srcs):
                        iddir = r.choice(["ASC", worder[0][1]])
                        worder += [[{"k": "col", "src": s_["alias"] or s_["t"], "name": "id"}, iddir] for s_ in srcs]
                    else:
                        wn = "RANK"
                # (aliased: the partition/order keys handed to the builder carry aliases of their own, as when one aliased
                #  expression object is projected and reused as window key; an alias has no place inside OVER(...))
                frame = None
                if wn in ("SUM", "COUNT") and all(s_["k"] == "table" for s_ in srcs) and r.random() < 0.6:
                    # a ROWS frame needs a total window order to be deterministic: unique key of every source appended
                    iddir = r.choice(["ASC", worder[0][1]])
                    worder = worder + [[{"k": "col", "src": s_["alias"] or s_["t"], "name": "id"}, iddir] for s_ in srcs]
                    lo = r.choice([["P", None], ["P", 0], ["P", 1], ["P", 2], ["C"]])
                    hi = r.choice([["F", None], ["F", 0], ["F", 1], ["C"], None])
                    frame = ["ROWS", lo, hi]
                sel.append({"e": {"k": "win", "n": wn, "a": self.col(srcs, "int"), "frame": frame,
                                  "part": part, "order": worder, "aliased": r.random() < 0.4, "one_call": r.random() < 0.6}, "as": self.alias("w"), "window": True})
        q = {"k": "select", "from": [srcs[0]] + extra_from, "joins": joins, "select": sel, "distinct": (not grouped) and r.random() < 0.15,
             "where": (self.tower(srcs, r.choice([3, 3, 4])) if r.random() < 0.12 else self.crit(srcs, 2)) if r.random() < 0.6 else None, "group": group,
             "having": ({"k": "cmp", "o": r.choice([">", ">=", "<"]), "l": {"k": "agg", "n": "COUNT", "a": {"k": "const", "v": 1}, "distinct": False},
                         "r": {"k": "const", "v": r.randint(0, 3)}} if (grouped and r.random() < 0.4) or (agg_only and r.random() < 0.7) else None),
             "order": [], "limit": None, "offset": None, "srcs": None}
        if agg_only:
            return q
        # (the single-column subquery of an IN list may be ordered and cut as well: ORDER BY + LIMIT, LIMIT + OFFSET, OFFSET alone)
        if (not single and r.random() < 0.5) or (single and r.random() < 0.35):
            for _ in range(r.randint(1, 2)):
                it = r.choice(sel)
                if it.get("window"):
                    continue
                oe = {"k": "selref", "i": sel.index(it)} if r.random() < 0.5 else (self.expr(srcs, 1) if not grouped else r.choice(group))
                if (oe["k"] != "selref" and not has_col(oe)) or (oe["k"] == "selref" and not has_col(sel[oe["i"]]["e"])):
                    oe = self.col(srcs) if not grouped else r.choice(group)
                q["order"].append([oe, r.choice(["ASC", "DESC", None])])
        if allow_limit and ((not single and r.random() < 0.3) or (single and q["order"] and r.random() < 0.7)):
            if r.random() < 0.2:
                q["offset"] = r.randint(0, 4)  # OFFSET alone
            else:
                q["limit"] = r.randint(0, 6)
                if r.random() < 0.5:
                    q["offset"] = r.randint(0, 4)
        # a total order (unique key of every plain-table source appended) where it can be arranged: then rows AND order are compared
        plain = all(s_["k"] == "table" for s_ in srcs)
        if (q["order"] or q["limit"] is not None) and plain and not grouped and not q["distinct"] and not any(j["how"] == "left" for j in joins):
            for s_ in srcs:
                q["order"].append([{"k": "col", "src": s_["alias"] or s_["t"], "name": "id"}, r.choice(["ASC", "DESC", None])])
            q["total"] = True
        return q

    def statement(self, depth):
        r = self.rnd
        x = r.random()
        if x < 0.6:
            return self.select(depth)
        if x < 0.68:
            a = self.select(0, allow_limit=False)
            n = len(a["select"])
            b = self.select(0, allow_limit=False)
            while len(b["select"]) < n:
                b["select"].append({"e": {"k": "const", "v": 0}, "as": self.alias("z")})
            b["select"] = b["select"][:n]
            k_item = {"e": self.col([a["from"][0]] if a["from"][0]["k"] == "table" else [a["from"][0]]), "as": self.alias("k")}
            if not a["group"] and not any(s_["e"].get("k") == "agg" for s_ in a["select"]):
                # (a bare column next to aggregates / outside the GROUP BY keys is taken from an arbitrary row of the group: the engine
                #  may pick another one under another plan, so the first branch keeps its own select list then)
                a["select"][0] = k_item
            for q in (a, b):
                q["order"] = []
                q["distinct"] = False
                q["select"] = [s for s in q["select"] if not s.get("window")] or [{"e": {"k": "const", "v": 1}, "as": self.alias("z")}]
            n = min(len(a["select"]), len(b["select"]))
            a["select"], b["select"] = a["select"][:n], b["select"][:n]
            return {"k": "setop", "op": r.choice(["UNION", "UNION ALL", "INTERSECT", "EXCEPT"]), "a": a, "b": b,
                    "order": r.random() < 0.5, "limit": r.choice([None, None, 3]), "offset": r.choice([None, None, 1])}
        t = r.choice(TABLES)
        tsrc = {"k": "table", "t": t, "alias": None, "cols": COLS}
        if x < 0.78:
            mode = r.choice(["values", "values", "select", "replace", "upsert-update", "upsert-nothing", "upsert-excluded"])
            cols = ["id", "a", "b", "c"]
            rows = [[r.randint(1, 12), r.choice([None, 0, 1, -3, 7]), r.choice([None, 2, 5]), r.choice([None, "x", "it's", "new"])] for _ in range(r.randint(1, 3))]
            ins = {"k": "insert", "t": t, "cols": cols, "mode": mode, "rows": rows}
            if mode == "select":
                u = r.choice([x_ for x_ in TABLES if x_ != t])
                us = {"k": "table", "t": u, "alias": None, "cols": COLS}
                ins["q"] = {"k": "select", "from": [us], "joins": [], "select": [{"e": {"k": "bin", "o": "+", "l": {"k": "col", "src": u, "name": "id"}, "r": {"k": "const", "v": 100}}, "as": "n1"},
                                                                                   {"e": self.expr([us], 1), "as": "n2"}, {"e": self.col([us], "int"), "as": "n3"},
                                                                                   {"e": self.col([us], "text"), "as": "n4"}],
                            "distinct": False, "where": self.crit([us], 1), "group": [], "having": None, "order": [], "limit": None, "offset": None}
            if mode.startswith("upsert"):
                ins["set"] = [["a", self.expr([tsrc], 1)]] if mode == "upsert-update" else [["b", None]]
            return ins
        if x < 0.9:
            upd = {"k": "update", "t": t, "set": [[r.choice(["a", "b"]), self.expr([tsrc], 2)]], "where": self.crit([tsrc], 2) if r.random() < 0.8 else None, "from": None}
            if r.random() < 0.3:
                upd["set"].append(["c", self.expr([tsrc], 1, kind="text")])
            if r.random() < 0.3:
                u = r.choice([x_ for x_ in TABLES if x_ != t])
                us = {"k": "table", "t": u, "alias": None, "cols": COLS}
                upd["from"] = us
                upd["set"] = [[r.choice(["a", "b"]), self.expr([tsrc, us], 1)]]
                upd["where"] = {"k": "and", "l": {"k": "cmp", "o": "=", "l": {"k": "col", "src": t, "name": "id"}, "r": {"k": "col", "src": u, "name": "id"}},
                                "r": self.crit([tsrc, us], 1)}
            return upd
        return {"k": "delete", "t": t, "where": self.crit([tsrc], 2) if r.random() < 0.85 else None}


def has_col(e):
    if isinstance(e, dict):
        if e.get("k") == "col":
            return True
        return any(has_col(v) for k, v in e.items() if k != "q")
    if isinstance(e, list):
        return any(has_col(v) for v in e)
    return False


def leads_with_div(e):
    while e["k"] == "bin" and e["o"] == "*":
        e = e["l"]
    return e["k"] == "bin" and e["o"] == "/"


# ---------------------------------------------------------------------------------------------- reference writer
def lit(v):
    if v is None:
        return "NULL"
    if v is True:
        return "1"
    if v is False:
        return "0"
    if isinstance(v, str):
        return "'" + v.replace("'", "''") + "'"
    return "(%r)" % v if v < 0 else repr(v)


def ref_expr(e, q=None):
    k = e["k"]
    if k == "col":
        return '"%s"."%s"' % (e["src"], e["name"])
    if k == "const":
        return lit(e["v"])
    if k == "selref":
        return ref_expr(q["select"][e["i"]]["e"], q)
    if k == "bin":
        return "(%s %s %s)" % (ref_expr(e["l"], q), e["o"], ref_expr(e["r"], q))
    if k == "neg":
        return "(- %s)" % ref_expr(e["a"], q)
    if k == "fn":
        return "%s(%s)" % (e["n"], ", ".join(ref_expr(a, q) for a in e["args"]))
    if k == "cast":
        return "CAST(%s AS %s)" % (ref_expr(e["a"], q), e["t"])
    if k == "case":
        return "(CASE %s%s END)" % (" ".join("WHEN %s THEN %s" % (ref_expr(c, q), ref_expr(v, q)) for c, v in e["w"]),
                                    (" ELSE " + ref_expr(e["e"], q)) if e["e"] is not None else "")
    if k == "agg":
        return "%s(%s%s)%s" % (e["n"], "DISTINCT " if e["distinct"] else "", ref_expr(e["a"], q),
                               (" FILTER (WHERE %s)" % ref_expr(e["filter"], q)) if e.get("filter") is not None else "")
    if k == "win":
        arg = "" if e["n"] in ("ROW_NUMBER", "RANK") else ref_expr(e["a"], q)
        part = ("PARTITION BY " + ", ".join(ref_expr(p, q) for p in e["part"]) + " ") if e["part"] else ""
        order = "ORDER BY " + ", ".join("%s %s" % (ref_expr(o, q), d) for o, d in e["order"])
        frame = ""
        if e.get("frame"):
            def edge(x):
                if x[0] == "C":
                    return "CURRENT ROW"
                return "%s %s" % ("UNBOUNDED" if x[1] is None else x[1], "PRECEDING" if x[0] == "P" else "FOLLOWING")
            kind, lo, hi = e["frame"]
            frame = " %s %s" % (kind, edge(lo)) if hi is None else " %s BETWEEN %s AND %s" % (kind, edge(lo), edge(hi))
        return "%s(%s) OVER (%s%s%s)" % (e["n"], arg, part, order, frame)
    if k in ("and", "or"):
        return "(%s %s %s)" % (ref_expr(e["l"], q), k.upper(), ref_expr(e["r"], q))
    if k == "not":
        return "(NOT %s)" % ref_expr(e["a"], q)
    if k == "cmp":
        return "(%s %s %s)" % (ref_expr(e["l"], q), e["o"], ref_expr(e["r"], q))
    if k == "in":
        return "(%s %sIN (%s))" % (ref_expr(e["l"], q), "NOT " if e["neg"] else "", ", ".join(ref_expr(v, q) for v in e["vs"]))
    if k == "insub":
        return "(%s %sIN (%s))" % (ref_expr(e["l"], q), "NOT " if e["neg"] else "", ref_select(e["q"]))
    if k == "between":
        return "(%s BETWEEN %s AND %s)" % (ref_expr(e["l"], q), ref_expr(e["lo"], q), ref_expr(e["hi"], q))
    if k == "isnull":
        return "(%s IS %sNULL)" % (ref_expr(e["l"], q), "NOT " if e["neg"] else "")
    if k == "like":
        return "(%s LIKE %s)" % (ref_expr(e["l"], q), lit(e["p"]))
    raise ValueError(k)


def ref_source(s):
    if s["k"] == "table":
        return '"%s"' % s["t"] + (' AS "%s"' % s["alias"] if s["alias"] else "")
    return "(%s) AS \"%s\"" % (ref_select(s["q"]), s["alias"])


def ref_select(q):
    out = "SELECT " + ("DISTINCT " if q["distinct"] else "")
    out += ", ".join('%s AS "%s"' % (ref_expr(s["e"], q), s["as"]) for s in q["select"])
    out += " FROM " + ", ".join(ref_source(s) for s in q["from"])
    for j in q["joins"]:
        out += " %s JOIN %s" % ({"inner": "INNER", "left": "LEFT", "cross": "CROSS"}[j["how"]], ref_source(j["src"]))
        if j["on"] is not None:
            out += " ON " + ref_expr(j["on"], q)
    ws = [q["where"]] if q["where"] is not None else []
    if q.get("where2") is not None:
        ws = ([q["where2"]] + ws) if q.get("where2_first") else (ws + [q["where2"]])
    if ws:
        out += " WHERE " + " AND ".join(ref_expr(w, q) for w in ws)
    if q["group"]:
        out += " GROUP BY " + ", ".join(ref_expr(g, q) for g in q["group"])
    if q["having"] is not None:
        out += " HAVING " + ref_expr(q["having"], q)
    if q["order"]:
        out += " ORDER BY " + ", ".join(ref_expr(o, q) + (" " + d if d else "") for o, d in q["order"])
    if q["limit"] is not None:
        out += " LIMIT %d" % q["limit"]
        if q["offset"] is not None:
            out += " OFFSET %d" % q["offset"]
    elif q["offset"] is not None:
        out += " LIMIT -1 OFFSET %d" % q["offset"]
    return out


def ref_stmt(p):
    k = p["k"]
    if k == "select":
        return ref_select(p)
    if k == "setop":
        s = ref_select(p["a"]) + " " + p["op"] + " " + ref_select(p["b"])
        if p["order"]:
            s += " ORDER BY 1"
        if p["limit"] is not None or p.get("offset") is not None:
            s += " LIMIT %d" % (p["limit"] if p["limit"] is not None else -1)
        if p.get("offset") is not None:
            s += " OFFSET %d" % p["offset"]
        return s
    if k == "insert":
        verb = "REPLACE" if p["mode"] == "replace" else "INSERT"
        head = '%s INTO "%s" (%s)' % (verb, p["t"], ", ".join('"%s"' % c for c in p["cols"]))
        if p["mode"] == "select":
            return head + " " + ref_select(p["q"])
        s = head + " VALUES " + ", ".join("(" + ", ".join(lit(v) for v in row) + ")" for row in p["rows"])
        if p["mode"] == "upsert-nothing":
            s += ' ON CONFLICT ("id") DO NOTHING'
        elif p["mode"] == "upsert-update":
            s += ' ON CONFLICT ("id") DO UPDATE SET ' + ", ".join('"%s" = %s' % (c, ref_expr(e)) for c, e in p["set"])
        elif p["mode"] == "upsert-excluded":
            s += ' ON CONFLICT ("id") DO UPDATE SET ' + ", ".join('"%s" = excluded."%s"' % (c, c) for c, _ in p["set"])
        return s
    if k == "update":
        s = 'UPDATE "%s" SET ' % p["t"] + ", ".join('"%s" = %s' % (c, ref_expr(e)) for c, e in p["set"])
        if p["from"]:
            s += " FROM " + ref_source(p["from"])
        if p["where"] is not None:
            s += " WHERE " + ref_expr(p["where"])
        return s
    if k == "delete":
        return 'DELETE FROM "%s"' % p["t"] + ((" WHERE " + ref_expr(p["where"])) if p["where"] is not None else "")
    raise ValueError(k)


# ---------------------------------------------------------------------------------------------- pypika writer
class PB:
    def __init__(self, parent=None, entry=None):
        self.r = registry()
        self.Q = self.r["SQLLiteQuery"]
        self.tables = {}
        self.parent = parent
        # entry "shortcut": tables come from the dialect's factories (SQLLiteQuery.Table / .Tables((name, alias))) and statements
        # start from the table's own shortcuts (t.select() / t.update()), as the documentation shows
        self.entry = entry if entry is not None else (parent.entry if parent is not None else None)

    def table(self, name):
        pb = self
        while pb is not None:
            if name in pb.tables:
                return pb.tables[name]
            pb = pb.parent
        raise KeyError(name)

    def src_obj(self, s):
        key = s["alias"] or s["t"]
        if key in self.tables:
            return self.tables[key]
        if s["k"] == "table" and self.entry == "shortcut":
            o = self.Q.Tables((s["t"], s["alias"]))[0] if s["alias"] else self.Q.Table(s["t"])
        elif s["k"] == "table":
            o = self.r["Table"](s["t"], alias=s["alias"]) if s["alias"] else self.r["Table"](s["t"])
        else:
            o = self.select(s["q"])
            if not s.get("auto"):
                o = o.as_(s["alias"])
        self.tables[key] = o
        return o

    def expr(self, e, q=None, sel=None):
        r = self.r
        k = e["k"]
        if k == "col":
            return self.table(e["src"]).field(e["name"])
        if k == "const":
            return r["ValueWrapper"](e["v"]) if e["v"] is not None else r["NullValue"]()
        if k == "selref":
            return sel[e["i"]]
        if k == "bin":
            l, rr = self.expr(e["l"], q, sel), self.expr(e["r"], q, sel)
            return {"+": lambda: l + rr, "-": lambda: l - rr, "*": lambda: l * rr, "/": lambda: l / rr}[e["o"]]()
        if k == "neg":
            return -self.expr(e["a"], q, sel)
        if k == "fn":
            name = {"COALESCE": "Coalesce", "ABS": "Abs", "NULLIF": "NullIf", "IFNULL": "IfNull", "LENGTH": "Length", "UPPER": "Upper", "LOWER": "Lower"}[e["n"]]
            return r["fn." + name](*[self.expr(a, q, sel) for a in e["args"]])
        if k == "cast":
            return r["fn.Cast"](self.expr(e["a"], q, sel), e["t"])
        if k == "case":
            c = r["Case"]()
            for cond, v in e["w"]:
                c = c.when(self.expr(cond, q, sel), self.expr(v, q, sel))
            if e["e"] is not None:
                c = c.else_(self.expr(e["e"], q, sel))
            return c
        if k == "agg":
            f = r["fn." + {"COUNT": "Count", "SUM": "Sum", "MIN": "Min", "MAX": "Max", "AVG": "Avg"}[e["n"]]](self.expr(e["a"], q, sel))
            if e.get("filter") is not None and e.get("filter_first"):
                f = f.filter(self.expr(e["filter"], q, sel))
            f = f.distinct() if e["distinct"] else f
            if e.get("filter") is not None and not e.get("filter_first"):
                f = f.filter(self.expr(e["filter"], q, sel))
            return f
        if k == "win":
            n = {"ROW_NUMBER": "RowNumber", "RANK": "Rank", "SUM": "Sum", "COUNT": "Count"}[e["n"]]
            f = r["an." + n]() if e["n"] in ("ROW_NUMBER", "RANK") else r["an." + n](self.expr(e["a"], q, sel))
            al = (lambda t, i: t.as_("wk%d" % i)) if e.get("aliased") else (lambda t, i: t)
            f = f.over(*[al(self.expr(p, q, sel), i) for i, p in enumerate(e["part"])])
            # consecutive keys of one direction go into ONE orderby(k1, k2, .., order=dir) call (every second window), else one call each
            runs = []
            for i, (o, d) in enumerate(e["order"]):
                term_ = al(self.expr(o, q, sel), 5 + i)
                if runs and runs[-1][0] == d and e.get("one_call"):
                    runs[-1][1].append(term_)
                else:
                    runs.append([d, [term_]])
            for d, terms_ in runs:
                f = f.orderby(*terms_, order=r["Order"].asc if d == "ASC" else r["Order"].desc)
            if e.get("frame"):
                def edge(x):
                    if x[0] == "C":
                        return r["an.CURRENT_ROW"]
                    cls = r["an.Preceding"] if x[0] == "P" else r["an.Following"]
                    return cls() if x[1] is None else cls(x[1])
                kind, lo, hi = e["frame"]
                f = f.rows(edge(lo)) if hi is None else f.rows(edge(lo), edge(hi))
            return f
        if k in ("and", "or"):
            l, rr = self.expr(e["l"], q, sel), self.expr(e["r"], q, sel)
            return (l & rr) if k == "and" else (l | rr)
        if k == "not":
            return ~self.expr(e["a"], q, sel)
        if k == "cmp":
            l, rr = self.expr(e["l"], q, sel), self.expr(e["r"], q, sel)
            Eq = r["Equality"]
            return r["BasicCriterion"]({"=": Eq.eq, "<>": Eq.ne, "<": Eq.lt, "<=": Eq.lte, ">": Eq.gt, ">=": Eq.gte}[e["o"]], l, rr)
        if k == "in":
            l = self.expr(e["l"], q, sel)
            vs = [v["v"] for v in e["vs"]]
            return l.notin(vs) if e["neg"] else l.isin(vs)
        if k == "insub":
            l = self.expr(e["l"], q, sel)
            sub = PB(parent=self).select(e["q"])
            return l.notin(sub) if e["neg"] else l.isin(sub)
        if k == "between":
            return self.expr(e["l"], q, sel).between(e["lo"]["v"], e["hi"]["v"])
        if k == "isnull":
            l = self.expr(e["l"], q, sel)
            return l.notnull() if e["neg"] else l.isnull()
        if k == "like":
            return self.expr(e["l"], q, sel).like(e["p"])
        raise ValueError(k)

    def select(self, q, base=None, **kw):
        r = self.r
        srcs = [self.src_obj(s) for s in q["from"]]
        if base is None and self.entry == "shortcut" and isinstance(srcs[0], self.r["Table"]):
            b = srcs[0].select()
        else:
            b = base if base is not None else self.Q.from_(srcs[0], **kw)
        if base is not None:
            b = b.from_(srcs[0])
        for s in srcs[1:]:
            b = b.from_(s)
        for j in q["joins"]:
            o = self.src_obj(j["src"])
            how = {"inner": r["JoinType"].inner, "left": r["JoinType"].left, "cross": r["JoinType"].cross}[j["how"]]
            b = b.join(o, how).cross() if j["on"] is None else b.join(o, how).on(self.expr(j["on"], q))
        sel = [self.expr(s["e"], q).as_(s["as"]) for s in q["select"]]
        # plain Python constants go through select() itself, i.e. through the dialect's wrapper class (booleans as 1/0)
        b = b.select(*[spec["e"]["v"] if (spec["e"]["k"] == "const" and isinstance(spec["e"]["v"], (int, float))) else t_
                       for t_, spec in zip(sel, q["select"])])
        if q["distinct"]:
            b = b.distinct()
        if q.get("where2") is not None and q.get("where2_first"):
            b = b.where(self.expr(q["where2"], q, sel))
        if q["where"] is not None:
            b = b.where(self.expr(q["where"], q, sel))
        if q.get("where2") is not None and not q.get("where2_first"):
            b = b.where(self.expr(q["where2"], q, sel))
        for g in q["group"]:
            # the grouped expression is the aliased select term itself when it was selected
            match = [s for s, spec in zip(sel, q["select"]) if spec["e"] is g]
            b = b.groupby(match[0] if match else self.expr(g, q, sel))
        if q["having"] is not None:
            b = b.having(self.expr(q["having"], q, sel))
        for o, d in q["order"]:
            t = self.expr(o, q, sel)
            kw2 = {"order": r["Order"].asc if d == "ASC" else r["Order"].desc} if d else {}
            b = b.orderby(t, **kw2)
        if q["limit"] is not None:
            b = b.limit(q["limit"])
        if q["offset"] is not None:
            b = b.offset(q["offset"])
        return b

    def stmt(self, p):
        r = self.r
        k = p["k"]
        if k == "select":
            return self.select(p)
        if k == "setop":
            a = PB(entry=self.entry).select(p["a"])  # (the SQLite builder's defaults, as a user gets them)
            b = PB(entry=self.entry).select(p["b"])
            so = {"UNION": a.union, "UNION ALL": a.union_all, "INTERSECT": a.intersect, "EXCEPT": a.except_of}[p["op"]](b)
            if p["order"]:
                so = so.orderby(a._selects[0])
            if p["limit"] is not None:
                so = so.limit(p["limit"])
            if p.get("offset") is not None:
                so = so.offset(p["offset"])
            return so
        t = self.Q.Table(p["t"]) if self.entry == "shortcut" else r["Table"](p["t"])
        self.tables[p["t"]] = t
        if k == "insert":
            b = self.Q.into(t).columns(*p["cols"])
            if p["mode"] == "select":
                return self.select(p["q"], base=b)
            for row in p["rows"]:
                b = b.replace(*row) if p["mode"] == "replace" else b.insert(*row)
            if p["mode"] == "upsert-nothing":
                b = b.on_conflict("id").do_nothing()
            elif p["mode"] == "upsert-update":
                b = b.on_conflict("id")
                for c, e in p["set"]:
                    b = b.do_update(c, self.expr(e))
            elif p["mode"] == "upsert-excluded":
                b = b.on_conflict("id")
                for c, _ in p["set"]:
                    b = b.do_update(c)
            return b
        if k == "update":
            b = t.update() if self.entry == "shortcut" else self.Q.update(t)
            if p["from"]:
                b = b.from_(self.src_obj(p["from"]))
            for c, e in p["set"]:
                b = b.set(t.field(c), e["v"] if e["k"] == "const" else self.expr(e))
            if p["where"] is not None:
                b = b.where(self.expr(p["where"]))
            return b
        if k == "delete":
            b = self.Q.from_(t).delete()
            if p["where"] is not None:
                b = b.where(self.expr(p["where"]))
            return b
        raise ValueError(k)


# ---------------------------------------------------------------------------------------------- engine
def new_db(seed):
    con = sqlite3.connect(":memory:")
    con.setconfig(sqlite3.SQLITE_DBCONFIG_DQS_DML, False)
    con.setconfig(sqlite3.SQLITE_DBCONFIG_DQS_DDL, False)
    rnd = random.Random(seed)
    for t in TABLES:
        con.execute("CREATE TABLE %s(id INTEGER PRIMARY KEY, a INT, b INT, c TEXT)" % t)
        n = rnd.randint(0, 8)
        ids = rnd.sample(range(1, 13), n)
        for i in ids:
            con.execute("INSERT INTO %s VALUES (?,?,?,?)" % t, (i, rnd.choice([None, 0, 1, 1, 2, -1, -3, 5, 10]), rnd.choice([None, 0, 1, 2, 2, 3, -2]),
                                                              rnd.choice([None, "x", "y", "X", "Zed", "it's", "", "xenon"])))
    con.commit()
    return con


ROW_CAP = 20000      # rows fetched per statement; a cross join of many sources can yield 8**n rows
STEP_CAP = 400        # progress callbacks (every 50000 VM steps) before a statement is interrupted


class TooManyRows(Exception):
    pass


def guard(con):
    """Bound one connection's statements: interrupt after STEP_CAP * 50000 virtual-machine steps."""
    box = [0]

    def tick():
        box[0] += 1
        return 1 if box[0] > STEP_CAP else 0

    con.set_progress_handler(tick, 50000)
    return box


def rows(con, sql):
    cur = con.execute(sql)
    out = cur.fetchmany(ROW_CAP + 1)
    if len(out) > ROW_CAP:
        raise TooManyRows()
    return out


def explain(con, sql):
    return [tuple(r[1:7]) for r in con.execute("EXPLAIN " + sql)]


def dump(con):
    return [con.execute("SELECT * FROM %s ORDER BY id" % t).fetchall() for t in TABLES]


def is_total_order(p):
    """Does the program have an ORDER BY that includes a unique key (so LIMIT / row order is deterministic)?"""
    return False


def clauses(p):
    if p["k"] != "select":
        return 3
    n = sum(1 for k in ("where", "having", "limit") if p.get(k) is not None) + (1 if p["joins"] else 0) + (1 if p["group"] else 0) + (1 if p["order"] else 0)
    return n + len(p["from"])


def has_nested(p):
    s = repr(p)
    return "'insub'" in s or "'sub'" in s


def classify(p, msg):
    k = p["k"]
    m = msg.split(":")[0][:40].replace(" ", "-")
    if k == "update" and p.get("from"):
        return "sqlite:update-from:%s" % m
    if k == "insert":
        return "sqlite:insert-%s:%s" % (p["mode"], m)
    return "sqlite:%s:%s" % (k, m)


def semantic_key(p):
    return "result-differs:%s" % (p["k"] if p["k"] != "insert" else "insert-" + p["mode"])


def norm_row(row):
    """Row as a comparable text: floats to 12 significant digits and -0.0 as 0.0 - the library writes a*(b*c) as a*b*c, which
    is the same number up to the last bit and the sign of a zero."""
    def one(v):
        if isinstance(v, float):
            v = float("%.12g" % v) + 0.0
            # (a column with INTEGER affinity stores 20.0 as 20 but keeps 20.000000000000004 as a float: compare integral values as integers)
            return int(v) if v == int(v) and abs(v) < 2 ** 53 else v
        return v
    return repr(tuple(one(v) for v in row))


def run_case(case, mon):
    rnd = random.Random("C03case:" + case["s"])
    g = G(rnd)
    if case.get("bias"):
        g.bias = case["bias"]
        mon.count("programs_biased_to_derived_sources")
    p = case.get("p") or g.statement(rnd.randint(2, 3) if case.get("bias") else rnd.randint(1, 3))
    try:
        ref = ref_stmt(p)
    except Exception as e:
        mon.inconc("reference writer failed: %r" % e)
        return
    if " IN (SELECT" in ref:
        import re as _re
        for m_ in _re.finditer(r" IN \(SELECT [^()]* ORDER BY [^()]*? (LIMIT -1 OFFSET|LIMIT \d+ OFFSET|LIMIT \d+)", ref):
            mon.count("in_subqueries_ordered_and_cut")
            mon.add("in_subquery_cuts", "offset-alone" if "-1" in m_.group(1) else ("limit+offset" if "OFFSET" in m_.group(1) else "limit"))
    try:
        if rnd.random() < 0.2:
            mon.count("programs_started_from_table_shortcuts")
            sql = str(PB(entry="shortcut").stmt(p))  # rendered the way users do: no context
        else:
            sql = PB().stmt(p).get_sql(registry()["SQLLiteQuery"].SQL_CONTEXT)
    except Exception as e:
        mon.violation("library-raises:%s:%s" % (type(e).__name__, p["k"]), "building/rendering a program of the stated subset raised %r; reference: %s" % (e, ref[:300]),
                      {"program": p})
        return
    mon.count("programs")
    mon.add("kinds", p["k"] if p["k"] != "insert" else "insert-" + p["mode"])
    con = new_db("db0:" + case["s"])
    try:
        try:
            e_ref = explain(con, ref)
        except sqlite3.Error as e:
            mon.count("reference_prepare_errors")
            mon.add("reference_errors", str(e)[:60])
            return  # the generator produced something SQLite rejects even in reference form (e.g. misuse of aggregate): not judged
        try:
            e_sql = explain(con, sql)
        except sqlite3.Error as e:
            mon.violation(classify(p, str(e)), "SQLite rejects the rendered statement (%s) but accepts its reference transcription; rendered %r; reference %r" % (
                e, sql[:300], ref[:300]), {"program": p, "sql": sql, "ref": ref})
            return
        if clauses(p) >= 3 or has_nested(p):
            mon.nontrivial(p)
        if e_ref == e_sql:
            mon.count("bytecode_identical")
            if mon.evaluations % 199 == 1:
                mon.sample({"rendered": sql[:400], "reference": ref[:400], "bytecode_identical": True})
            return
        # different plans: compare on data
        ndb = case.get("ndb", 6)
        ordered = p["k"] == "select" and bool(p.get("total"))
        limited = not ordered and (p["k"] == "select" and (p["limit"] is not None or p["offset"] is not None)) or (p["k"] == "setop" and (p["limit"] is not None or p.get("offset") is not None))
        for i in range(ndb):
            c = new_db("db%d:%s" % (i, case["s"])) if i else con
            try:
                if p["k"] in ("select", "setop"):
                    box = guard(c)
                    try:
                        r1 = rows(c, sql)
                        box[0] = 0
                        r2 = rows(c, ref)
                    except TooManyRows:
                        mon.count("skipped_result_over_row_cap")
                        break
                    except sqlite3.Error as e:
                        mon.count("execution_errors")
                        mon.add("execution_errors", str(e)[:50])
                        break
                    mon.count("executed_pairs")
                    mon.count("rows_compared", len(r2))
                    if limited:
                        # without a total order the engine may legitimately pick different rows for different plans
                        if len(r1) != len(r2):
                            mon.violation(semantic_key(p) + ":row-count", "row counts differ under LIMIT/OFFSET: %d vs %d; rendered %r; reference %r" % (len(r1), len(r2), sql[:300], ref[:300]),
                                          {"program": p})
                            return
                        mon.count("skipped_nondeterministic")
                        continue
                    if ordered:
                        mon.count("ordered_sequences_compared")
                        if list(map(norm_row, r1)) != list(map(norm_row, r2)):
                            mon.violation(semantic_key(p) + ":order", "different row sequence on generated database %d under a total ORDER BY: rendered %r -> %r ; reference %r -> %r" % (
                                i, sql[:300], r1[:4], ref[:300], r2[:4]), {"program": p, "sql": sql, "ref": ref})
                            return
                        continue
                    if sorted(map(norm_row, r1)) != sorted(map(norm_row, r2)):
                        mon.violation(semantic_key(p), "different rows on generated database %d: rendered %r -> %r ; reference %r -> %r" % (
                            i, sql[:300], r1[:4], ref[:300], r2[:4]), {"program": p, "sql": sql, "ref": ref})
                        return
                else:
                    box = guard(c)
                    try:
                        c.execute("BEGIN")
                        c.execute(sql)
                        d1 = dump(c)
                        box[0] = 0
                        c.execute("ROLLBACK")
                        c.execute("BEGIN")
                        c.execute(ref)
                        d2 = dump(c)
                        c.execute("ROLLBACK")
                    except sqlite3.Error as e:
                        try:
                            c.execute("ROLLBACK")
                        except sqlite3.Error:
                            pass
                        mon.count("execution_errors")
                        mon.add("execution_errors", str(e)[:50])
                        break
                    mon.count("executed_pairs")
                    # (stored floats differ in their last digits when a product is re-associated: x*(y*z) is printed x*y*z)
                    d1 = [sorted(map(norm_row, tb_)) for tb_ in d1]
                    d2 = [sorted(map(norm_row, tb_)) for tb_ in d2]
                    if d1 != d2:
                        mon.violation(semantic_key(p), "different table contents on generated database %d after: rendered %r ; reference %r" % (i, sql[:300], ref[:300]),
                                      {"program": p, "sql": sql, "ref": ref})
                        return
            finally:
                if c is not con:
                    c.close()
        else:
            mon.count("bytecode_different_results_equal")
    finally:
        con.close()


def cases(tier, seed, shard, nshards):
    n = (32000 if tier == "quick" else 800000) // nshards
    for i in range(n):
        c = {"s": "%d:%d:%d" % (seed, shard, i), "ndb": 6 if tier == "quick" else 24}
        if i % 10 == 9:
            c["bias"] = "derived-sources"
        yield c


def FLOORS(tier):
    return {"programs": 3000, "bytecode_identical": 500, "executed_pairs": 500, "ordered_sequences_compared": 100, "in_subqueries_ordered_and_cut": 20}
