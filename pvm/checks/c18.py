"""C18 - interval literals encode exactly the requested duration.

Monitor: every generated Interval is rendered by the real library under the six dialect contexts (directly and
embedded in a statement); the literal is read back by an independent reader (template per dialect, unit designator
-> field layout) and compared component by component with the constructor arguments.
"""
from __future__ import annotations

import itertools
import random
import re

from ..fingerprint import contexts
from ..prog import DIALECT_CLASSES, registry

PROP = "C18"
LEVEL = "exploration"
RULE = ("exhaustive 7-tuples over the digit-pattern alphabet {0,1,5,10,100,1005} x sign of the leading component, "
        "quarters/weeks alone, plus seeded random large values; constructor called with keywords, positionally (documented order) "
        "and with each dialect= argument; each rendered under the six dialect contexts, "
        "bare and embedded in a SELECT; a case is non-trivial when at least two components are non-zero or the value "
        "is negative/quarter/week; distinct = distinct (argument tuple)"
        " also: constructor forms (positional, dialect=), embedding in every statement position of all six dialect classes, magnitudes beyond 2**53 and 64 bits, the empty interval everywhere. (DESIGN.md 6a)")
ASSUMPTIONS = [
    "unit designator L_S is read as the integer fields of 'Y-M-D h:m:s.us' from L to S (the property's stated reading)",
    "expected quoting form per dialect: MySQL/Oracle INTERVAL 'expr' UNIT; all others INTERVAL 'expr UNIT'",
]
ANCHORS = ["Interval.__init__", "Interval.get_sql"]
WORKERS = {"quick": 16, "thorough": 16}

ALPHABET = [0, 1, 5, 10, 100, 1005]
LABELS = ["YEAR", "MONTH", "DAY", "HOUR", "MINUTE", "SECOND", "MICROSECOND"]
UNITS = ["years", "months", "days", "hours", "minutes", "seconds", "microseconds"]
SEPS = ["-", "-", " ", ":", ":", "."]  # separator between field i and i+1
FORM_A = {"MySQLQuery", "OracleQuery"}  # INTERVAL 'expr' UNIT
CTOR_DIALECTS = ["MYSQL", "POSTGRESQL", "ORACLE", "SQLITE", "MSSQL"]


def cases(tier, seed, shard, nshards):
    n = 0
    for tup in itertools.product(ALPHABET, repeat=7):
        n += 1
        if n % nshards != shard:
            continue
        yield {"k": "ymd", "v": list(tup), "neg": False}
        if any(tup):
            yield {"k": "ymd", "v": list(tup), "neg": True}
        # the same durations through the other ways of calling the constructor: positional arguments (in the documented order
        # years, months, days, hours, minutes, seconds, microseconds, quarters, weeks) and the dialect= argument, which must not
        # take precedence over the dialect the literal is rendered for
        if n % 11 == 0:
            yield {"k": "ymd", "v": list(tup), "neg": n % 22 == 0 and any(tup), "ctor": "pos"}
        if n % 13 == 0:
            yield {"k": "ymd", "v": list(tup), "neg": n % 26 == 0 and any(tup), "ctor": "dialect:%s" % CTOR_DIALECTS[(n // 13) % len(CTOR_DIALECTS)]}
    if shard == 0:
        # the interval of no duration, often enough for every dialect class to embed it in every statement position
        for rep in range(12):
            yield {"k": "ymd", "v": [0] * 7, "neg": False, "ctor": [None, "pos"][rep % 2], "rep": rep}
            yield {"k": "weeks" if rep % 2 else "quarters", "q": 0, "ctor": None, "rep": rep}
        for big in (2 ** 53 + 1, 10 ** 17 + 1, 12345678901234567891, 2 ** 64 + 3):
            for pos in range(7):
                v_ = [0] * 7
                v_[pos] = big
                for ctor in [None, "pos"]:
                    yield {"k": "ymd", "v": v_, "neg": False, "ctor": ctor}
                    yield {"k": "ymd", "v": v_, "neg": True, "ctor": ctor}
            yield {"k": "quarters", "q": big, "ctor": None}
            yield {"k": "weeks", "q": -big, "ctor": None}
        for v in [1, 5, 10, 100, 1005, -1, -10, -1005]:
            for ctor in [None, "pos"] + ["dialect:%s" % x for x in CTOR_DIALECTS]:
                yield {"k": "quarters", "q": v, "ctor": ctor}
                yield {"k": "weeks", "q": v, "ctor": ctor}
    rnd = random.Random("C18:%d:%d" % (seed, shard))
    count = (4000 if tier == "quick" else 200000) // nshards
    for _ in range(count):
        tup = []
        for _i in range(7):
            r = rnd.random()
            if r < 0.35:
                tup.append(0)
            elif r < 0.43:
                # magnitudes beyond what a double holds exactly (2**53) and beyond 64 bits: every digit must survive
                tup.append(rnd.choice([2 ** 53 + 1, 2 ** 53 + rnd.randint(1, 999), 10 ** 17 + 1, 12345678901234567891, 2 ** 63 + 1, 2 ** 64 + 3,
                                       rnd.randint(10 ** 16, 10 ** 25), 10 ** rnd.randint(16, 30) + rnd.randint(1, 9), 99999999999999999]))
            elif r < 0.6:
                tup.append(rnd.choice([10, 20, 100, 1000, 10 ** rnd.randint(1, 9), 101, 1001, 110]))
            else:
                tup.append(rnd.randint(1, 10 ** rnd.randint(1, 7)))
        yield {"k": "ymd", "v": tup, "neg": rnd.random() < 0.3 and any(tup),
               "ctor": rnd.choice([None, None, "pos", "dialect:%s" % rnd.choice(CTOR_DIALECTS)])}
        if rnd.random() < 0.05:
            yield {"k": rnd.choice(["quarters", "weeks"]), "q": rnd.choice([-1, 1]) * rnd.randint(1, 10 ** 6)}


_RE_A = re.compile(r"^INTERVAL '([^']*)' ([A-Z_]+)$")
_RE_B = re.compile(r"^INTERVAL '([^']*) ([A-Z_]+)'$")


def read_literal(sql, form_a):
    m = (_RE_A if form_a else _RE_B).match(sql)
    if not m:
        return None
    return m.group(1), m.group(2)


def expected(case):
    """(unit, sign, [field ints]) from the constructor arguments - independent of the library."""
    if case["k"] in ("quarters", "weeks"):
        q = case["q"]
        if q == 0:
            return "DAY", False, [0], 2  # (no duration: written like every other empty interval)
        return ("QUARTER" if case["k"] == "quarters" else "WEEK"), (q < 0), [abs(q)], 0
    v = case["v"]
    nz = [i for i, x in enumerate(v) if x]
    if not nz:
        return "DAY", False, [0], 2
    lo, hi = nz[0], nz[-1]
    unit = LABELS[lo] if lo == hi else LABELS[lo] + "_" + LABELS[hi]
    return unit, bool(case["neg"]), v[lo:hi + 1], lo


def parse_expr(expr, nfields, lo):
    """Split expr into sign and integer fields according to the separators of the layout starting at field lo."""
    neg = expr.startswith("-")
    body = expr[1:] if neg else expr
    pat = r"(\d+)"
    for j in range(nfields - 1):
        pat += re.escape(SEPS[lo + j]) + r"(\d+)"
    m = re.fullmatch(pat, body)
    if not m:
        return None
    return neg, [int(x) for x in m.groups()]


def build(case):
    reg = registry()
    ctor = case.get("ctor") or "kw"
    extra = {}
    if ctor.startswith("dialect:"):
        extra["dialect"] = reg["Dialects"][ctor.split(":")[1]]
    if case["k"] in ("quarters", "weeks"):
        if ctor == "pos":
            return reg["Interval"](0, 0, 0, 0, 0, 0, 0, *([case["q"]] if case["k"] == "quarters" else [0, case["q"]]))
        return reg["Interval"](**{case["k"]: case["q"]}, **extra)
    v = list(case["v"])
    if case["neg"]:
        for i, x in enumerate(v):
            if x:
                v[i] = -x
                break
    if ctor == "pos":
        return reg["Interval"](*v)
    return reg["Interval"](**dict(zip(UNITS, v)), **extra)


def key_of(case, fault, unit):
    if case["k"] == "ymd":
        nz = [i for i, x in enumerate(case["v"]) if x]
        if case["neg"] and nz == [6]:
            return "negative-microsecond-only:sign-lost" if fault == "sign" else "%s:%s" % (fault, unit)
    return "%s:%s" % (fault, unit)


def run_case(case, mon):
    reg = registry()
    iv = build(case)
    unit, neg, fields, lo = expected(case)
    if case["k"] != "ymd" or neg or sum(1 for x in case.get("v", []) if x) >= 2:
        mon.nontrivial(case)
    seen_forms = set()
    for dname, ctx in contexts().items():
        outs = [("bare", iv.get_sql(ctx))]
        if DIALECT_CLASSES[mon.evaluations % 6] == dname:
            # embedded: select(field + interval) through the dialect's own class (one rotating dialect per case)
            t = reg["Table"]("t")
            q = reg[dname].from_(t).select(t.a + iv)
            s = q.get_sql()
            i = s.find("INTERVAL ")
            j = s.find(" FROM ")
            outs.append(("embedded", s[i:j] if i >= 0 and j > i else s))
            # ... and as a function argument, nested in another function
            q2 = reg[dname].from_(t).select(reg["fn.Coalesce"](reg["Function"]("DATE_ADD", t.a, iv), t.b))
            s2 = q2.get_sql()
            i2 = s2.find("INTERVAL ")
            j2 = s2.find("),", i2)
            outs.append(("function-argument", s2[i2:j2] if i2 >= 0 and j2 > i2 else s2))
            mon.count("embedded_renders", 2)
            if mon.evaluations % 11 == 0 or not any(case.get("v") or [case.get("q", 1)]):
                # ... and as a value of every statement kind: the literal inside the statement is the bare literal of that dialect
                bare = iv.get_sql(ctx)
                Qd = reg[dname]
                stmts = {
                    "insert-value": lambda: Qd.into(t).columns("id", "ttl").insert(1, iv),
                    "update-set": lambda: Qd.update(t).set("ttl", iv).where(t.ts > iv),
                    "upsert-do-update": lambda: Qd.into(t).insert(1, 2).on_conflict("id").do_update("ttl", iv),
                    "upsert-do-update-expr": lambda: Qd.into(t).insert(1, 2).on_conflict("id").do_update("ttl", t.ttl + iv),
                    "where-between": lambda: Qd.from_(t).select(t.a).where(t.ts.between(iv, t.b)),
                    "case-then": lambda: Qd.from_(t).select(reg["Case"]().when(t.a > 1, iv).else_(t.b)),
                    "case-else": lambda: Qd.from_(t).select(reg["Case"]().when(t.a > 1, t.b).else_(iv)),
                    "case-when-operand": lambda: Qd.from_(t).select(reg["Case"]().when(t.ts > iv, 1).else_(0)),
                    "in-list": lambda: Qd.from_(t).select(t.a).where(t.ttl.isin([iv, t.b])),
                    "function-first-arg": lambda: Qd.from_(t).select(reg["fn.Coalesce"](iv, t.b)),
                    "orderby-expr": lambda: Qd.from_(t).select(t.a).orderby(t.ts - iv),
                }
                for pos_, mk in stmts.items():
                    try:
                        s3 = mk().get_sql()
                    except Exception as e:
                        mon.violation("embedded:raises:%s:%s" % (pos_, type(e).__name__), "an Interval as %s raised %r" % (pos_, e), {"dialect": dname})
                        continue
                    mon.count("statement_embeddings")
                    if bare not in s3:
                        mon.violation("embedded-literal-differs:%s:%s" % (pos_, dname), "the literal %r does not appear in %r" % (bare, s3[:240]),
                                      {"dialect": dname, "where": pos_, "sql": s3})
        for where, sql in outs:
            mon.count("renders")
            got = read_literal(sql, dname in FORM_A)
            if got is None:
                mon.violation("template:%s" % dname, "literal %r is not in the %s quoting form" % (sql, dname),
                              {"dialect": dname, "where": where, "sql": sql})
                continue
            expr, gunit = got
            seen_forms.add((dname in FORM_A))
            if gunit != unit:
                mon.violation(key_of(case, "unit", unit), "unit %s, expected %s in %r" % (gunit, unit, sql),
                              {"dialect": dname, "where": where, "sql": sql})
                continue
            p = parse_expr(expr, len(fields), lo)
            if p is None:
                mon.violation(key_of(case, "layout", unit), "expression %r does not have the %d-field layout of %s"
                              % (expr, len(fields), unit), {"dialect": dname, "where": where, "sql": sql})
                continue
            gneg, gfields = p
            mon.count("fields_compared", len(fields))
            if gfields != fields:
                mon.violation(key_of(case, "fields", unit), "fields %s, expected %s in %r" % (gfields, fields, sql),
                              {"dialect": dname, "where": where, "sql": sql})
            elif gneg != neg and any(fields):
                mon.violation(key_of(case, "sign", unit), "sign %s, expected %s in %r" % (
                    "-" if gneg else "+", "-" if neg else "+", sql), {"dialect": dname, "where": where, "sql": sql})
    mon.add("units", unit)
    if mon.evaluations % 20000 == 1:
        mon.sample({"case": case, "sql": {d: iv.get_sql(c) for d, c in contexts().items()}})


def FLOORS(tier):
    return {"renders": 100000, "fields_compared": 100000, "statement_embeddings": 20000}


def coverage_extra(m, tier):
    return {"exhaustive": True, "alphabet": ALPHABET,
            "explanation": "the 6^7 alphabet product (x sign) is enumerated completely on both tiers; random part on top"}
