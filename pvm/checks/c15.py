"""C15 - copy, deepcopy and pickle round-trips preserve and decouple objects.

For objects taken from call forests (queries, set operations, DDL builders, tables, schemas, NOT wrappers, CTEs, nested
subqueries, every term kind) and each mechanism m in {copy, deepcopy, pickle}: the duplicate must fingerprint exactly
like the original; then both stay live in the C01 history monitor while further builder calls are applied to either
side - every object must still equal a fresh rebuild of its own construction (so neither side affects the other).
"""
from __future__ import annotations

import random

from ..fingerprint import F, fdiff
from ..gen import Forest, Obj
from ..prog import DIALECT_CLASSES, P, Cls, Failed, phash, run, show
from .c01 import check_history, renderable

PROP = "C15"
LEVEL = "exploration"
RULE = ("seeded call forests per dialect class; 3-8 live objects of different kinds are duplicated with copy / deepcopy / "
        "pickle, the duplicates join the pools, and 6-14 further builder actions are applied to originals and duplicates; "
        "plus fixed graphs (schema chains, NOT wrappers, CTEs, nested subqueries, set operations, joins) x 3 mechanisms x 6 "
        "dialects, plus 'used' graphs in which the original was rendered, hashed, asked for dynamic attributes and called "
        "through the delegating NOT wrapper before it is duplicated and the duplicate is continued (replace_table, as_, "
        "delegated calls, for_update(of=), groupby by alias ...). non-trivial = at least one duplicate of a builder/term was later used as receiver or argument; "
        "distinct = program hash"
        " also: objects used before duplication, zoo subjects, continuations on duplicate and original with the sibling vocabulary, deep duplicates own their tables. (DESIGN.md 6a)")
ASSUMPTIONS = ["same observation function as C01 (six contexts x inline/parameterised, str, alias, is_aggregate, tables, fields)"]
ANCHORS = ["QueryBuilder.__copy__", "PostgreSQLQueryBuilder.__copy__", "ignore_copy.<locals>._getattr", "builder.<locals>._copy"]
WORKERS = {"quick": 16, "thorough": 16}
WATCHDOG = {"quick": 900, "thorough": 3300}
HOWS = ["copy", "deepcopy", "pickle"]
DUP_KINDS = ["select", "insert", "update", "delete", "setop", "create", "drop", "table", "term", "crit", "fn", "case",
             "agg", "analytic", "subq", "load"]


def fixed_graphs(d):
    """(program, [vars to duplicate]) - object graphs named by the property."""
    out = []
    p = P()
    db = p.new("Database", "db")
    sch = p.attr(db, "s1")
    t = p.attr(sch, "tbl")
    t2 = p.new("Table", "t2", schema=("a", "b", "c"), alias="x")
    q = p.call(p.call(Cls(d), "from_", t), "select", p.attr(t, "col"), p.attr(t, "star"))
    out.append((p, [db.i, sch.i, t.i, t2.i, q.i]))
    p = P()
    t = p.new("Table", "t1")
    n1 = p.un("not", p.bin("==", p.call(t, "field", "a"), 1))
    n2 = p.new("Not", p.call(p.call(t, "field", "b"), "isin", [1, 2]), alias="nn")
    n3 = p.call(n1, "isin", [3])
    out.append((p, [n1.i, n2.i, n3.i]))
    p = P()
    t = p.new("Table", "t1")
    t2 = p.new("Table", "t2")
    inner = p.call(p.call(p.call(Cls(d), "from_", t2), "select", p.call(t2, "field", "id")), "where", p.bin(">", p.call(t2, "field", "a"), 1))
    cte = p.new("AliasedQuery", "c1")
    q = p.call(p.call(p.call(Cls(d), "with_", inner, "c1"), "from_", cte), "select", p.call(cte, "field", "id"))
    sub = p.call(inner, "as_", "s")
    q2 = p.call(p.call(p.call(Cls(d), "from_", sub), "select", p.call(sub, "field", "id")), "where",
                p.call(p.call(t, "field", "id"), "isin", inner))
    so = p.call(p.call(q2, "union", p.call(p.call(Cls(d), "from_", t), "select", p.call(t, "field", "id"))), "orderby", p.call(t, "field", "id"))
    j = p.call(p.call(p.call(p.call(Cls(d), "from_", t), "select", p.call(t, "field", "a")), "join", t2), "on",
               p.bin("==", p.call(t, "field", "id"), p.call(t2, "field", "id")))
    ins = p.call(p.call(p.call(p.call(Cls(d), "into", t), "insert", 1, "x"), "on_conflict", "id"), "do_update", "a", 5)
    cr = p.call(p.call(p.call(Cls(d), "create_table", t), "columns", p.new("Column", "a", "INT", default=3), "b"), "unique", "a")
    out.append((p, [inner.i, cte.i, q.i, sub.i, q2.i, so.i, j.i, ins.i, cr.i]))
    return out


def used_graphs(d, how):
    """Objects that were *used* (rendered, hashed, asked for dynamic attributes, called through a delegating wrapper) before they
    are duplicated, then continued on the duplicate.  The warm-up steps are no part of the duplicate's own sub-program, so the
    history monitor compares it with an object that was never warmed up."""
    p = P()
    t1, t9 = p.new("Table", "t1"), p.new("Table", "t9")
    dups = []

    def dup(x):
        y = p.dup(how, x)
        dups.append([x.i, y.i, how])
        return y
    # NOT wrapper around a field: JSON operators are delegated through Not.__getattr__
    n = p.new("Not", p.call(t1, "field", "data"))
    p.call(n, "has_key", "k")
    p.call(n, "get_text_value", "k")
    p.call(n, "__hash__")
    p.call(n, "__str__")
    n_d = dup(n)
    p.call(n_d, "has_key", "k")
    rt = p.call(n_d, "replace_table", t1, t9)
    p.call(rt, "has_key", "k")
    p.call(rt, "get_text_value", "z")
    p.call(p.call(n, "replace_table", t1, t9), "has_key", "k2")
    # NOT wrapper around a CASE: when/else_ are delegated
    c = p.new("Not", p.call(p.new("Case"), "when", p.bin(">", p.call(t1, "field", "a"), 1), 1))
    p.call(c, "else_", 0)
    c_d = dup(c)
    p.call(p.call(c_d, "replace_table", t1, t9), "else_", 5)
    p.call(c_d, "when", p.bin("<", p.call(t1, "field", "b"), 0), 2)
    # table: dynamic attributes, star, hash, str before duplication; alias / temporal continuation on the duplicate
    t = p.new("Table", "abc", schema="s")
    p.attr(t, "star")
    p.attr(t, "some_col")
    p.call(t, "__hash__")
    p.call(t, "__str__")
    p.call(p.call(Cls(d), "from_", t), "select", p.attr(t, "star"), p.attr(t, "foo"))
    t_d = dup(t)
    ta = p.call(t_d, "as_", "a")
    p.call(ta, "__hash__")
    p.call(p.call(Cls(d), "from_", ta), "select", p.attr(ta, "star"), p.attr(ta, "foo"))
    p.call(p.call(Cls(d), "from_", t_d), "select", p.attr(t_d, "x"))
    # query: rendered, hashed and asked for attributes before duplication
    q = p.call(p.call(p.call(Cls(d), "from_", t1), "select", p.call(t1, "field", "a"), p.call(p.new("fn.Sum", p.call(t1, "field", "b")), "as_", "x")),
               "where", p.bin("==", p.call(t1, "field", "c"), "v"))
    p.call(q, "__str__")
    p.call(q, "get_sql")
    p.call(q, "__hash__")
    p.attr(q, "a")
    p.attr(q, "star")
    q_d = dup(q)
    p.call(q_d, "groupby", p.call(p.call(t1, "field", "c"), "as_", "x"))
    p.call(q_d, "orderby", "x")
    p.call(p.call(q_d, "for_update", of=("t1",)), "__str__")
    p.call(q, "for_update", of=("t9",))
    p.call(q_d, "replace_table", t1, t9)
    p.call(p.call(q_d, "join", t9), "on", p.bin("==", p.call(t9, "field", "id"), p.call(t1, "field", "id")))
    # terms: collected fields/tables, hash and rendering before duplication
    e = p.bin("+", p.call(t1, "field", "a"), p.bin("*", p.call(t1, "field", "b"), 2))
    p.call(e, "fields_")
    p.attr(e, "tables_")
    p.call(e, "__hash__")
    e_d = dup(e)
    p.call(e_d, "replace_table", t1, t9)
    p.call(e_d, "as_", "al")
    iv = p.new("Interval", days=-3, hours=20)
    p.call(iv, "__str__")
    iv_d = dup(iv)
    p.call(iv_d, "__str__")
    p.call(p.new("Interval", days=3, hours=20), "__str__")
    cr = p.call(p.call(Cls(d), "create_table", t1), "columns", p.new("Column", "a", "INT"), p.new("Column", "b", "INT"))
    p.call(cr, "__str__")
    cr_d = dup(cr)
    p.call(cr_d, "unique", "a")
    p.call(cr_d, "columns", p.new("Column", "c", "INT"))
    p.call(cr, "unique", "b")
    return p, dups


def zoo_subjects():
    """label -> constructor(reg, t) of one object per Term class of the live package (the zoo), leaf classes and a few
    public objects whose state is not in plain constructor arguments (exempt wrappers, custom functions, intervals)."""
    from ..zoo import leaf_terms, zoo
    from ..prog import registry
    reg = registry()
    out = {}
    for e in zoo()[0]:
        if e["cls"] in ("AtTimezone", "Values"):
            mk = (lambda e: lambda t: e["make"]([t.field("o%d" % i) for i in range(e["arity"])]))(e)
        else:
            mk = (lambda e: lambda t: e["make"]([(t.field("o%d" % i).isnull() if i in e["crit_slots"] else t.field("o%d" % i)) for i in range(e["arity"])]))(e)
        out["zoo:" + e["label"]] = mk
    for label, _ in leaf_terms(reg, reg["Table"]("tz")):
        out["leaf:" + label] = (lambda label: lambda t: dict(leaf_terms(reg, t))[label])(label)
    VW = reg["ValueWrapper"]
    out["exempt-wrapper"] = lambda t: VW("v2", allow_parametrize=False)
    out["exempt-wrapper-aliased"] = lambda t: VW(5, alias="five", allow_parametrize=False)
    out["criterion-with-exempt"] = lambda t: (t.version == VW("v2", allow_parametrize=False)) & (t.customer == "acme")
    out["query-with-exempt"] = lambda t: reg["Query"].from_(t).select(t.a, VW("lit", allow_parametrize=False)).where(t.b == VW(3, allow_parametrize=False)).where(t.c == "p")
    out["custom-function"] = lambda t: reg["CustomFunction"]("DATE_DIFF", ["unit", "a", "b"])("day", t.a, t.b)
    out["custom-function-no-params"] = lambda t: reg["CustomFunction"]("NOWISH")()
    out["query-with-custom-function"] = lambda t: reg["Query"].from_(t).select(reg["CustomFunction"]("F2", ["x"])(t.a)).where(reg["CustomFunction"]("G1", ["x"])(t.b) > 1)
    out["interval-composite"] = lambda t: reg["Interval"](days=-2, hours=5)
    out["interval-dialect"] = lambda t: reg["Interval"](months=3, dialect=reg["Dialects"].MYSQL)
    out["field-plus-interval"] = lambda t: t.ts + reg["Interval"](weeks=2)
    out["table-temporal"] = lambda t: t.for_(reg["SystemTimeValue"]() == "2020-01-01")
    out["schema-chain-table"] = lambda t: reg["Table"]("abc", schema=["d", "s"], alias="al")
    out["column"] = lambda t: reg["Column"]("c", "INT", nullable=False, default=3)
    out["bracket"] = lambda t: reg["Bracket"](t.a + 1)
    out["array"] = lambda t: reg["Array"](1, "a", t.b)
    out["tuple"] = lambda t: reg["Tuple"](t.a, 2)
    return out


def cases(tier, seed, shard, nshards):
    k = 0
    for label in zoo_subjects():
        for how in HOWS:
            k += 1
            if k % nshards == shard:
                yield {"k": "zoo", "label": label, "how": how}
    from ..prog import registry as _reg
    for lab in sorted(k_ for k_, v_ in _reg().items() if isinstance(v_, _reg()["Term"])):
        for how in HOWS:
            k += 1
            if k % nshards == shard:
                yield {"k": "constant", "label": lab, "how": how}
    for d in DIALECT_CLASSES:
        for how in HOWS:
            k += 1
            if k % nshards == shard:
                pb, dups = used_graphs(d, how)
                yield {"k": "used", "prog": pb.prog(dialect=d), "dups": dups}
    for d in DIALECT_CLASSES:
        for pb, targets in fixed_graphs(d):
            for how in HOWS:
                k += 1
                if k % nshards != shard:
                    continue
                p = P()
                p.steps = [dict(s) for s in pb.steps]
                dups = []
                for t in targets:
                    dups.append([t, p.dup(how, p_ref(t)).i, how])
                # continuation on both sides for builders
                yield {"k": "fixed", "prog": p.prog(dialect=d), "dups": dups}
    # continuations on a duplicate and on its original (the sibling vocabulary of C01): every call on one side leaves the other alone
    from ..siblings import pair_specs
    for di, d in enumerate(DIALECT_CLASSES):
        for j, (fam, pn, an, bn) in enumerate(pair_specs(d)):
            if an in ("render", "str", "hash", "copy") or bn in ("copy",):
                continue
            # quick: the diagonal (the same call on both sides) and one rotating off-diagonal partner, one dialect class per pair
            if tier == "quick" and ((j + seed) % 6 != di or (an != bn and (hash_stable(an + bn) + seed) % 16)):
                continue
            k += 1
            if k % nshards == shard:
                yield {"k": "dup-pair", "d": d, "spec": [fam, pn, an, bn], "how": HOWS[k // nshards % 3]}
    # a deep duplicate owns its tables: the original may give its own FROM table an automatic alias without the duplicate noticing
    from ..siblings import families
    for d in DIALECT_CLASSES:
        prs, acts = families(d)["select"]
        for pn, _ in prs:
            for an in ("where-a", "select-b", "groupby-b", "orderby-b", "join-t2", "limit-3"):
                for how in ("deepcopy", "pickle"):
                    k += 1
                    if k % nshards == shard:
                        yield {"k": "dup-pair", "d": d, "spec": ["select", pn, an, "join-same-table-object"], "how": how}
    n = (1500 if tier == "quick" else 100000) // nshards
    rnd = random.Random("C15:%d:%d" % (seed, shard))
    for i in range(n):
        d = DIALECT_CLASSES[i % 6]
        f = Forest(rnd, d)
        f.grow(rnd.randint(5, 12))
        dups = []
        for _ in range(rnd.randint(3, 8)):
            kind = rnd.choice(DUP_KINDS)
            o = f.pick(kind)
            if o is None:
                continue
            how = rnd.choice(HOWS)
            ref = f.p.dup(how, o.ref)
            f.put(ref, o.kind, **o.info)
            dups.append([o.ref.i, ref.i, how])
        f.grow(rnd.randint(6, 14))
        yield {"k": "forest", "prog": f.p.prog(dialect=d), "dups": dups}


def p_ref(i):
    from ..prog import Ref
    return Ref(i)


_subjects = None


def run_constant(case, mon):
    """The module-level term constants (pseudo columns, NULL, SYSTEM_TIME): a duplicate is an object of its own; builder calls on it -
    or on the constant found inside a duplicated statement - leave the constant of the process alone."""
    import copy as _copy
    import pickle as _pickle
    from ..prog import registry
    reg = registry()
    c = reg[case["label"]]
    how = case["how"]
    dupf = {"copy": _copy.copy, "deepcopy": _copy.deepcopy, "pickle": lambda v: _pickle.loads(_pickle.dumps(v))}[how]
    f0 = F(c)
    t = reg["Table"]("tz")
    q = reg["Query"].from_(t).select(c, t.a)
    fq0 = F(q)
    try:
        x = dupf(c)
        qx = dupf(q)
    except Exception as ex:
        mon.violation("%s:raises:%s" % (how, type(c).__name__), "%s of the constant %s raised %r" % (how, case["label"], ex))
        return
    mon.count("constant_duplications")
    if F(x) != f0 or F(qx) != fq0:
        mon.violation("%s:differs:constant:%s" % (how, case["label"]), "the %s of %s (or of a statement selecting it) renders differently" % (how, case["label"]))
        return
    try:
        y = x.as_("zz_alias")
        inner = [s_ for s_ in qx._selects if type(s_) is type(c)]
        y2 = inner[0].as_("zz_alias2") if inner else None
    except Exception as ex:
        mon.count("constant_continuation_raises")
        return
    mon.count("constant_continuations")
    if F(c) != f0 or F(q) != fq0 or F(reg["Query"].from_(t).select(c, t.a)) != fq0:
        mon.violation("%s:continuation-leaks:constant:%s" % (how, case["label"]), "as_() on the %s of the module constant %s (or on the constant inside a duplicated statement) "
                      "changed the constant itself: it renders %r now" % (how, case["label"], str(c)))
        c.alias = None  # (put the process-wide constant back so that the run can go on)
        return
    mon.nontrivial(["constant", case["label"], how])


def run_zoo(case, mon):
    """One object per term class: the duplicate fingerprints like the original and like a fresh construction; a
    replace_table continuation on either side leaves the other side alone."""
    global _subjects
    import copy as _copy
    import pickle as _pickle
    from ..prog import registry
    reg = registry()
    if _subjects is None:
        _subjects = zoo_subjects()
    mk, how = _subjects[case["label"]], case["how"]
    t, t9 = reg["Table"]("tz"), reg["Table"]("tz9")
    try:
        o = mk(t)
        fresh = mk(t)
    except Exception as ex:
        mon.count("zoo_unbuildable")
        mon.add("zoo_unbuildable", "%s:%s" % (case["label"], type(ex).__name__))
        return
    f0 = F(o)
    try:
        x = {"copy": _copy.copy, "deepcopy": _copy.deepcopy, "pickle": lambda v: _pickle.loads(_pickle.dumps(v))}[how](o)
    except Exception as ex:
        mon.violation("%s:raises:%s" % (how, type(o).__name__), "%s of %s raised %s: %s" % (how, case["label"], type(ex).__name__, str(ex)[:200]))
        return
    mon.count("duplications_" + how)
    mon.count("zoo_duplications")
    mon.add("duplicated_classes", type(o).__name__)
    if type(x) is not type(o):
        mon.violation("%s:type-changed:%s" % (how, type(o).__name__), "%s of %s gave a %s" % (how, case["label"], type(x).__name__))
        return
    fx = F(x)
    mon.count("duplicate_fingerprint_comparisons")
    if fx != f0:
        dd = fdiff(f0, fx)
        mon.violation("%s:differs:%s" % (how, type(o).__name__), "%s of %s renders differently in %s: original %r, duplicate %r" % (
            how, case["label"], dd[:3], _short(f0.get(dd[0])), _short(fx.get(dd[0]))), {"keys": dd[:6]})
        return
    # continuation on the duplicate, then on the original: neither disturbs the other, both equal a fresh construction
    if hasattr(x, "replace_table") and hasattr(o, "get_sql"):
        try:
            xr = x.replace_table(t, t9)
            fr = fresh.replace_table(t, t9)
        except Exception as ex:
            mon.count("zoo_continuation_raises")
            return
        mon.count("zoo_continuations")
        if F(o) != f0 or F(x) != f0:
            mon.violation("%s:continuation-leaks:%s" % (how, type(o).__name__), "replace_table on the %s of %s changed the original or the duplicate itself" % (how, case["label"]))
            return
        if hasattr(xr, "get_sql") and F(xr) != F(fr):
            dd = fdiff(F(fr), F(xr))
            mon.violation("%s:continuation-differs:%s" % (how, type(o).__name__), "replace_table on the %s of %s differs from the same call on a fresh object in %s" % (
                how, case["label"], dd[:3]))
            return
    mon.nontrivial(["zoo", case["label"], how])


def hash_stable(s_):
    import zlib
    return zlib.crc32(s_.encode())


def run_case(case, mon):
    if case["k"] == "zoo":
        return run_zoo(case, mon)
    if case["k"] == "constant":
        return run_constant(case, mon)
    if case["k"] == "dup-pair":
        from ..siblings import dup_program
        prog, dups, want = dup_program(case["d"], *case["spec"], case["how"])
        case = dict(case, prog=prog, dups=dups, want=want)
        mon.count("duplicate_continuation_programs")
    prog = case["prog"]
    d = prog["meta"]["dialect"]
    env = run(prog, d)
    used = set()
    for s in prog["steps"]:
        from ..prog import step_refs
        used |= step_refs(s)
    nontriv = False
    for orig, dup, how in case["dups"]:
        o, x = env[orig], env[dup]
        if isinstance(o, Failed):
            continue
        mon.count("duplications_" + how)
        mon.add("duplicated_classes", type(o).__name__)
        if isinstance(x, Failed):
            mon.violation("%s:raises:%s" % (how, type(o).__name__),
                          "%s of a %s raised %s: %s" % (how, type(o).__name__, type(x.exc).__name__, str(x.exc)[:200]),
                          {"program": show(prog)[:orig + 1][-12:]})
            return
        if x is o and type(o).__module__.startswith("pypika_tortoise"):
            mon.violation("%s:same-object:%s" % (how, type(o).__name__), "%s returned the original object" % how)
            return
        if type(x) is not type(o):
            mon.violation("%s:type-changed:%s" % (how, type(o).__name__), "%s of %s gave a %s" % (how, type(o).__name__, type(x).__name__))
            return
        if dup in used and hasattr(o, "get_sql"):
            nontriv = True
    # the shared history monitor: every live object (originals and duplicates) equals its own rebuild
    # (in the pair programs only the receiver, its duplicate and the continuations are judged: an un-aliased subquery argument may
    #  legitimately receive its automatic alias)
    fs = check_history(prog, mon, want=set(case["want"]) if case.get("want") else None, prefix="after-dup:")
    if fs is None:
        return
    for orig, dup, how in case["dups"]:
        o, x = env[orig], env[dup]
        if isinstance(o, Failed) or not renderable(o):
            if not isinstance(o, Failed):
                # schemas etc.: compare through get_sql under one context
                pass
            continue
        fa, fb = fs.get(orig), fs.get(dup)
        if fa is None or fb is None:
            continue
        mon.count("duplicate_fingerprint_comparisons")
        if fa != fb:
            dd = fdiff(fa, fb)
            mon.violation("%s:differs:%s" % (how, type(o).__name__),
                          "%s of v%d (%s) renders differently in %s: original %r, duplicate %r" % (
                              how, orig, type(o).__name__, dd[:3], _short(fa.get(dd[0])), _short(fb.get(dd[0]))),
                          {"keys": dd[:6], "program": show(prog)})
            return
    if nontriv:
        mon.nontrivial(phash(prog))
    if mon.evaluations % 61 == 1:
        mon.sample({"program": show(prog)[-14:], "dups": case["dups"]})


def _short(x, n=240):
    s = repr(x)
    return s if len(s) <= n else s[:n] + "..."


def FLOORS(tier):
    return {"duplications_copy": 300, "duplications_deepcopy": 300, "duplications_pickle": 300,
            "duplicate_fingerprint_comparisons": 1000, "rebuild_comparisons": 5000}


def describe(case):
    return show(case["prog"]) if "prog" in case else "%s via %s" % (case.get("label"), case.get("how"))
