"""C08 - one dialect's conventions govern the whole statement tree.

Three monitors:
 (i)  context invariant at a hook: during a root render through a dialect class, every nested get_sql event must carry the
      root's dialect (a Dialects member), quote characters, AS policy and the very same Parameterizer object;
 (ii) depth variance: a dialect-sensitive probe (identifier, placeholder, boolean, array, interval, JSON literal, set-operand
      wrapping, GROUP BY alias reference, row limit) placed at depth k inside nesting constructs - built with the dialect's own
      class and with the generic class - must render exactly like the same probe at depth 0 of that dialect;
 (iii) for the dialect-neutral builder subset, the token streams of one program under any two dialect classes must be equal
      once identifier quoting and placeholder style are normalised (tokenised with each dialect's own lexer).
"""
from __future__ import annotations

import itertools
import random

from .. import hooks
from ..fingerprint import contexts
from ..gen import Forest
from ..lex import DIALECT_OF, sig, tokenize
from ..prog import DIALECT_CLASSES, Failed, phash, registry, run, show

PROP = "C08"
LEVEL = "exploration"
RULE = ("(ii) complete product probe (9) x container chain of depth 1-3 over 8 nesting constructs x nested builder class {own, generic} x "
        "six dialect classes x {inline, parameterised}; (i) the same renders under the context hook plus seeded random statements of "
        "every kind; (iv) convention-sensitive leaves (interval, boolean, array, JSON, backslash string, number, field, table, subquery, custom "
        "function) in every operand slot of every term class of the zoo: context invariant plus 'written as when rendered alone'; "
        "(iii) seeded random dialect-neutral programs rendered under all six classes (15 pairs each). non-trivial = "
        "depth >= 1; distinct = (probe, chain, class, dialect, mode) / program hash"
        " also: entry paths (str / repr / get_sql() / get_sql(None) / get_parameterized_sql()) of eleven statement kinds, all three table shortcuts, one value at several positions, absolute operand wrapping for ten operand shapes, absolute array / JSON literal forms at depth 0-2. (DESIGN.md 6a)")
ASSUMPTIONS = ["the convention of a dialect is what its own class renders for the probe at depth 0 (placeholders compared by kind and numbering offset)",
               "neutral subset: select/from/join/where/group by expression/having/order by, functions, CASE, arithmetic, IN, BETWEEN, subqueries; "
               "no limit/offset, set operations, booleans, arrays, intervals, JSON"]
ANCHORS = ["SqlContext.copy", "_SetOperation.get_sql", "Parameter.get_sql", "Array.get_sql", "Interval.get_sql", "QueryBuilder.get_sql",
           "MSSQLQueryBuilder.get_sql", "OracleQueryBuilder.get_sql", "MySQLQueryBuilder.get_sql", "SQLLiteQueryBuilder.get_sql",
           "PostgreSQLQueryBuilder.get_sql"]
WORKERS = {"quick": 16, "thorough": 16}
# cases the check sets aside instead of judging, as a share of all cases (more than that makes a run inconclusive)
CEILING_RATIOS = {"unbuildable": 0.002}

PROBES = ["identifier", "placeholder", "boolean", "boolean-criterion", "array", "interval", "json-value", "set-operand", "groupby-alias", "row-limit",
          "string-backslash"]
CONTAINERS = ["from", "join", "in", "select-item", "cte", "set-operand", "insert-select", "comparison", "create-as-select"]


def R():
    return registry()


class _Start:
    """Stands in for a Query class in probe_query: the statement starts from the table's own shortcut (t.select())."""

    def __init__(self, Qx, t):
        self.Qx, self.t = Qx, t

    def from_(self, t):
        return self.t.select()


def probe_query(Qx, probe, t=None):
    """Innermost query over table tprobe carrying the probe."""
    r = R()
    t = t if t is not None else r["Table"]("tprobe")
    if probe == "identifier":
        return Qx.from_(t).select(t.pcol.as_("pal"))
    if probe == "placeholder":
        return Qx.from_(t).select(t.pcol).where(t.pcol == 4242)
    if probe == "boolean":
        return Qx.from_(t).select(t.pcol, True)
    if probe == "boolean-criterion":
        return Qx.from_(t).select(t.pcol).where(t.flag == True)  # noqa: E712
    if probe == "array":
        return Qx.from_(t).select(t.pcol).where(t.arr == [1, 2])
    if probe == "interval":
        return Qx.from_(t).select(t.pcol + r["Interval"](days=3))
    if probe == "json-value":
        return Qx.from_(t).select(t.pcol).where(t.j == {"k": "it's \"q\" back\\slash \u00e9"})
    if probe == "string-backslash":
        return Qx.from_(t).select(t.pcol).where(t.s == "a\\b")
    if probe == "set-operand":
        return Qx.from_(t).select(t.pcol).union(Qx.from_(t).select(t.qcol))
    if probe == "groupby-alias":
        e = (t.pcol + 1).as_("gal")
        return Qx.from_(t).select(e).groupby(e)
    if probe == "row-limit":
        return Qx.from_(t).select(t.pcol).orderby(t.pcol).limit(7).offset(3)
    raise ValueError(probe)


def wrap(Qx, inner, container, level):
    r = R()
    o = r["Table"]("o%d" % level)
    is_setop = isinstance(inner, r["_SetOperation"])
    if container == "from":
        s = inner.as_("w%d" % level)
        return Qx.from_(s).select(s.star)
    if container == "join":
        s = inner.as_("w%d" % level)
        return Qx.from_(o).select(o.a).join(s).on(o.id == s.pcol)
    if container == "in":
        return Qx.from_(o).select(o.a).where(o.id.isin(inner))
    if container == "comparison":
        return Qx.from_(o).select(o.a).where(o.id >= inner)
    if container == "select-item":
        return Qx.from_(o).select(o.a, inner.as_("w%d" % level))
    if container == "cte":
        c = r["AliasedQuery"]("c%d" % level)
        return Qx.with_(inner, "c%d" % level).from_(c).select(c.star)
    if container == "set-operand":
        if is_setop:
            return None
        n = len(inner._selects)
        return Qx.from_(o).select(*([o.a] * n)).union_all(inner)
    if container == "insert-select":
        s = inner.as_("w%d" % level)
        return Qx.into(r["Table"]("dst")).from_(s).select(s.star)
    if container == "create-as-select":
        return Qx.create_table("nt%d" % level).as_select(inner)
    raise ValueError(container)


def cases(tier, seed, shard, nshards):
    k = 0
    chains = [[c] for c in CONTAINERS] + [list(x) for x in itertools.product(CONTAINERS[:6], repeat=2)]
    for d in DIALECT_CLASSES:
        for probe in PROBES:
            for chain in chains:
                for cls in ("own", "generic"):
                    for mode in ("inline", "param"):
                        k += 1
                        if k % nshards == shard:
                            yield {"k": "probe", "d": d, "probe": probe, "chain": chain, "cls": cls, "mode": mode}
    for d in DIALECT_CLASSES:
        for value in TWO_POS_VALUES:
            for stmt in ("select", "update", "insert", "upsert"):
                k += 1
                if k % nshards == shard:
                    yield {"k": "two-positions", "d": d, "value": value, "stmt": stmt}
    for d in DIALECT_CLASSES:
        for probe in PROBES:
            for maker in ("Table", "Tables-name", "Tables-pair", "Tables-many", "Table-query_cls"):
                k += 1
                if k % nshards == shard:
                    yield {"k": "shortcut", "d": d, "probe": probe, "maker": maker}
    for d in DIALECT_CLASSES:
        for a in OPERAND_SHAPES:
            for b in OPERAND_SHAPES:
                for hi, host in enumerate(WRAP_HOSTS):
                    if tier == "quick" and host != "top" and (OPERAND_SHAPES.index(a) + OPERAND_SHAPES.index(b) + seed) % 5 != hi - 1:
                        continue
                    k += 1
                    if k % nshards == shard:
                        yield {"k": "wrapping", "d": d, "a": a, "b": b, "host": host, "bcls": ["own", "generic"][(k // 3) % 2],
                               "op": ["union", "union_all", "intersect", "except_of", "minus"][k % 5], "tail": k % 4 == 0, "mode": ["inline", "param"][(k // 2) % 2]}
    for d in DIALECT_CLASSES:
        for stmt in PATH_STATEMENTS:
            if stmt == "load" and d != "MySQLQuery":
                continue
            for tb in PATH_TABLES:
                k += 1
                if k % nshards == shard:
                    yield {"k": "paths", "d": d, "stmt": stmt, "table": tb}
    for d in DIALECT_CLASSES:
        for depth in (0, 1, 2):
            for inner in ("own", "generic"):
                k += 1
                if k % nshards == shard:
                    yield {"k": "literal-forms", "d": d, "depth": depth, "inner": inner}
    # convention-sensitive leaves inside every operand slot of every term class (term-level nesting)
    from ..zoo import zoo
    for d in DIALECT_CLASSES:
        for e in zoo()[0]:
            if e["cls"] in ("AtTimezone", "Values"):
                continue  # column-only constructors
            for slot in range(e["arity"]):
                for leaf in LEAVES:
                    for mode in ("inline", "param"):
                        k += 1
                        if k % nshards == shard:
                            yield {"k": "term", "d": d, "e": e["label"], "slot": slot, "leaf": leaf, "mode": mode}
    rnd = random.Random("C08:%d:%d" % (seed, shard))
    for _ in range((6000 if tier == "quick" else 120000) // nshards):
        yield {"k": "probe", "d": rnd.choice(DIALECT_CLASSES), "probe": rnd.choice(PROBES), "chain": [rnd.choice(CONTAINERS[:6]) for _ in range(3)],
               "cls": rnd.choice(["own", "generic", "mixed"]), "mode": rnd.choice(["inline", "param"]), "rnd": rnd.getrandbits(20)}
    for i in range((6000 if tier == "quick" else 120000) // nshards):
        yield {"k": "neutral", "seed": "%d:%d:%d" % (seed, shard, i)}
    for i in range((3000 if tier == "quick" else 60000) // nshards):
        d = DIALECT_CLASSES[i % 6]
        f = Forest(rnd, d)
        f.select_query(2)
        if rnd.random() < 0.5:
            f.setop()
        if rnd.random() < 0.3:
            f.insert_stmt()
        yield {"k": "hook", "prog": f.p.prog(dialect=d)}


def norm(toks, keep_param_index=False):
    out = []
    for t in toks:
        if t.kind == "PARAM":
            out.append(("PARAM", "?"))
        elif t.kind in ("IDENT", "STR", "NUM", "WORD"):
            out.append((t.kind, t.value))
        else:
            out.append((t.kind, t.text))
    return out


def span_of_probe(toks, probe):
    """Token span (normalised) of the innermost query over tprobe: from its SELECT to its end."""
    idx = [i for i, t in enumerate(toks) if t.kind == "IDENT" and t.value == "tprobe"]
    if not idx:
        return None
    i = idx[0]
    # backwards to the SELECT that opens this query: nearest SELECT at the same bracket depth
    depth = 0
    j = i
    while j >= 0:
        t = toks[j]
        if t.kind == "PUNCT" and t.text == ")":
            depth += 1
        elif t.kind == "PUNCT" and t.text == "(":
            if depth == 0:
                break
            depth -= 1
        elif depth == 0 and t.kind == "WORD" and t.value == "SELECT":
            break
        j -= 1
    start = max(j, 0)
    if toks[start].kind == "PUNCT":
        start += 1
    # forwards to the end of this query: closing bracket at depth 0, or a set operator of an enclosing set operation, or the end
    depth = 0
    e = start
    while e < len(toks):
        t = toks[e]
        if t.kind == "PUNCT" and t.text == "(":
            depth += 1
        elif t.kind == "PUNCT" and t.text == ")":
            if depth == 0:
                break
            depth -= 1
        e += 1
    return norm(toks[start:e])


def strip_trailing(span, probe):
    """For the set-operand probe the span of interest is the whole set operation; for others cut at an enclosing set operator."""
    if probe == "set-operand":
        return span
    out = []
    depth = 0
    for t in span:
        if t == ("PUNCT", "("):
            depth += 1
        elif t == ("PUNCT", ")"):
            depth -= 1
        if depth == 0 and t[0] == "WORD" and t[1] in ("UNION", "INTERSECT", "EXCEPT", "MINUS"):
            break
        out.append(t)
    return out


def run_probe(case, mon):
    r = R()
    d = case["d"]
    fam = DIALECT_OF[d] if d != "Query" else "generic"
    Q = r[d]
    G = r["Query"]
    probe = case["probe"]
    rnd = random.Random(case.get("rnd", 0))

    def klass(level):
        if case["cls"] == "own":
            return Q
        if case["cls"] == "generic":
            return G
        return rnd.choice([Q, G])
    ctx0 = contexts()[d]
    try:
        base0 = probe_query(Q, probe)
        ref_sql = render(base0, ctx0, case["mode"])
        inner = probe_query(klass(0), probe)
        o = inner
        for lvl, c in enumerate(case["chain"]):
            # the outermost statement is always built with the dialect's own class: it supplies the conventions
            Qx = Q if lvl == len(case["chain"]) - 1 else klass(lvl + 1)
            o = wrap(Qx, o, c, lvl)
            if o is None:
                return
    except Exception as e:
        mon.count("unbuildable")
        mon.add("unbuildable", "%s:%s:%s" % (probe, type(e).__name__, str(e)[:40]))
        return
    try:
        with hooks.collect() as tree:
            sql = render(o, ctx0, case["mode"])
    except Exception as e:
        mon.violation("raises:%s:%s" % (type(e).__name__, fam), "nested render raised %r for %s" % (e, case))
        return
    mon.count("nested_renders")
    mon.add("cells", "%s|%s|%s" % (probe, case["chain"][0], fam))
    # the root rendered the way users do it - str() / get_sql() without a context - must follow the same conventions
    if case["mode"] == "inline":
        try:
            dflt = str(o) if isinstance(o, (r["_SetOperation"], r["CreateQueryBuilder"])) else (o.get_sql() if isinstance(o, r["QueryBuilder"]) else None)
        except Exception as e:
            dflt = "<exc:%s>" % type(e).__name__
        if dflt is not None:
            mon.count("default_root_renders")
            if dflt != sql:
                mon.violation("default-render-differs:%s:%s" % ("generic-class" if case["cls"] != "own" else "own-class", case["chain"][-1]),
                              "%s probe %s in %s: str()/get_sql() of the root gives %r, rendering through the dialect's context gives %r" % (
                                  d, probe, "/".join(case["chain"]), dflt[:240], sql[:240]))
                return
    # (i) context invariant
    bad = context_fault(tree, ctx0, case["mode"])
    if bad:
        conv, node = bad
        mon.violation("%s:%s:%s" % (conv, "generic-class" if case["cls"] != "own" else "own-class", node),
                      "%s/%s: a nested %s render received a context whose %s differs from the root's (%s)" % (d, case["chain"], node, conv, case["cls"]),
                      {"sql": sql[:300]})
        return
    mon.count("hook_contexts_checked", len(tree.events))
    # (ii) depth variance
    want = strip_trailing(span_of_probe(tokenize(ref_sql, d), probe), probe)
    got_full = span_of_probe(tokenize(sql, d), probe)
    if got_full is None:
        mon.inconc("probe table not found in %r" % sql[:200])
        return
    got = strip_trailing(got_full, probe)
    mon.count("probe_spans_compared")
    if got != want:
        conv = convention_of(probe, got, want)
        mon.violation("%s:%s:%s" % (conv, ("generic-class" if case["cls"] != "own" else "own-class"), case["chain"][0]),
                      "%s probe %s at depth %d (%s, nested builders: %s, %s): renders %r, at depth 0 it renders %r" % (
                          d, probe, len(case["chain"]), "/".join(case["chain"]), case["cls"], case["mode"], untok(got)[:200], untok(want)[:200]),
                      {"sql": sql, "reference": ref_sql})
        return
    mon.nontrivial(case)
    if mon.evaluations % 499 == 1:
        mon.sample({"case": case, "sql": sql[:300]})


def render(o, ctx, mode):
    r = R()
    if mode == "param":
        ctx = ctx.copy(parameterizer=r["Parameterizer"]())
    return o.get_sql(ctx)


def untok(span):
    return " ".join(str(v) for _, v in span)


def convention_of(probe, got, want):
    return {"identifier": "identifier-quote", "placeholder": "placeholder-style", "boolean": "boolean-literal", "boolean-criterion": "boolean-literal",
            "array": "array-literal", "interval": "interval-literal", "json-value": "json-literal", "set-operand": "set-operand-wrapping",
            "groupby-alias": "groupby-alias-policy", "row-limit": "pagination", "string-backslash": "string-escape"}[probe]


def context_fault(tree, root, mode):
    """First nested event whose context deviates from the root context in a dialect convention.

    Returns (convention, node) where node names the defining class of the deviating render, prefixed with
    '_SetOperation>' when the deviation starts below a set operation (which re-derives dialect and quote character from
    its base query's class)."""
    reg = R()
    Dialects = reg["Dialects"]
    root_pz = None
    stack = []  # (depth, defining class) of the ancestors of the current event
    for ev in tree.events:
        if ev is None:
            continue
        depth, defcls, inst, _id, ctx, res, obj = ev
        while stack and stack[-1][0] >= depth:
            stack.pop()
        under_setop = any(c == "_SetOperation" for _, c in stack)
        stack.append((depth, defcls))
        if ctx is None:
            continue
        if root_pz is None and mode == "param":
            root_pz = ctx.parameterizer
        node = ("_SetOperation>" if under_setop else "") + defcls
        if not isinstance(ctx.dialect, Dialects):
            return "dialect-enum", node
        if ctx.dialect != root.dialect:
            return "dialect", node
        if ctx.quote_char != root.quote_char:
            return "quote-char", node
        if ctx.secondary_quote_char != root.secondary_quote_char:
            return "secondary-quote-char", node
        if ctx.alias_quote_char != root.alias_quote_char:
            return "alias-quote-char", node
        if ctx.as_keyword != root.as_keyword and defcls not in ("MySQLQueryBuilder",):
            return "as-keyword", node
        if mode == "param" and ctx.parameterizer is not root_pz:
            return "parameterizer-identity", node
        if mode != "param" and ctx.parameterizer is not None:
            return "parameterizer-identity", node
    return None


# ------------------------------------------------------------------------------------------------ neutral programs
def neutral_program(Q, rnd):
    r = R()
    T = r["Table"]
    fn = lambda n: r["fn." + n]  # noqa: E731
    t, u = T("t"), T("u", alias="ua")

    def term(depth):
        x = rnd.random()
        if depth <= 0 or x < 0.3:
            return rnd.choice([t.a, t.b, u.c, t.field("Mixed Case")])
        if x < 0.5:
            return term(depth - 1) + rnd.choice([1, 2.5, -3])
        if x < 0.65:
            return fn(rnd.choice(["Coalesce", "NullIf"]))(term(depth - 1), rnd.choice([0, "dflt", "it's"]))
        if x < 0.8:
            return r["Case"]().when(crit(depth - 1), term(depth - 1)).else_(rnd.choice([0, "e"]))
        if x < 0.9:
            return fn(rnd.choice(["Upper", "Length", "Abs"]))(term(depth - 1))
        return -term(depth - 1)

    def crit(depth):
        x = rnd.random()
        if depth > 0 and x < 0.3:
            return (crit(depth - 1) & crit(depth - 1)) if rnd.random() < 0.5 else (crit(depth - 1) | crit(depth - 1))
        if x < 0.5:
            return term(depth) > rnd.choice([1, "s", 2.5])
        if x < 0.65:
            return term(depth).isin([1, 2, "x"])
        if x < 0.75:
            return term(depth).between(1, 9)
        if x < 0.85:
            return term(depth).isnull()
        if x < 0.93:
            sub = Q.from_(T("v")).select(T("v").id).where(T("v").k == rnd.randint(0, 5))
            return term(depth).isin(sub)
        return ~crit(depth - 1) if depth > 0 else term(0).like("a%")
    x1 = term(2).as_("x1")
    q = Q.from_(t).select(x1, term(1))
    if rnd.random() < 0.7:
        q = q.join(u).on(t.id == u.id)
    if rnd.random() < 0.3:
        sub = Q.from_(T("w")).select(T("w").id, T("w").z).where(T("w").z > 1).as_("sw")
        q = q.join(sub, r["JoinType"].left).on(sub.id == t.id)
    for _ in range(rnd.randint(0, 2)):
        q = q.where(crit(2))
    if rnd.random() < 0.5:
        q = q.groupby(t.a, term(1)).having(fn("Count")(t.b) > rnd.randint(0, 3))
    if rnd.random() < 0.6:
        q = q.orderby(term(1), order=rnd.choice([r["Order"].asc, r["Order"].desc]))
    if rnd.random() < 0.4:
        # ordering by a term the select list names: every dialect refers to it by that name (only GROUP BY has a per-dialect policy)
        q = q.orderby(x1)
    if rnd.random() < 0.3:
        q = q.distinct()
    return q


def run_neutral(case, mon):
    r = R()
    outs = {}
    for d in DIALECT_CLASSES:
        rnd = random.Random("n:" + case["seed"])
        try:
            q = neutral_program(r[d], rnd)
            for mode in ("inline", "param"):
                sql = render(q, contexts()[d], mode)
                outs[(d, mode)] = (norm(tokenize(sql, d)), sql)
        except Exception as e:
            mon.violation("neutral:raises:%s:%s" % (type(e).__name__, DIALECT_OF[d]), "neutral program raised %r under %s" % (e, d))
            return
    mon.count("neutral_programs")
    for mode in ("inline", "param"):
        ref_d = "Query"
        for d in DIALECT_CLASSES[1:]:
            mon.count("dialect_pairs_compared")
            a, b = outs[(ref_d, mode)], outs[(d, mode)]
            if a[0] != b[0]:
                i = 0
                while i < len(a[0]) and i < len(b[0]) and a[0][i] == b[0][i]:
                    i += 1
                mon.violation("neutral:token-streams-differ:%s" % DIALECT_OF[d],
                              "the same dialect-neutral program differs between Query and %s (%s) at token %d: %r vs %r" % (
                                  d, mode, i, a[1][:240], b[1][:240]))
                return
    mon.nontrivial(case)


def run_hook(case, mon):
    prog = case["prog"]
    d = prog["meta"]["dialect"]
    env = run(prog, d)
    reg = R()
    n = 0
    for v in env:
        if isinstance(v, Failed) or not isinstance(v, (reg["QueryBuilder"], reg["_SetOperation"])):
            continue
        for mode in ("inline", "param"):
            try:
                with hooks.collect() as tree:
                    render(v, contexts()[d], mode)
            except Exception:
                continue
            n += 1
            mon.count("hook_contexts_checked", len(tree.events))
            bad = context_fault(tree, contexts()[d], mode)
            if bad:
                mon.violation("%s:own-class:%s" % (bad[0], bad[1]), "random %s statement: nested %s render got a deviating %s" % (d, bad[1], bad[0]),
                              {"program": show(prog)[-10:]})
                return
    # str() of a statement is its rendering through its own class's context (the outermost builder supplies the default)
    for v in env:
        if isinstance(v, Failed):
            continue
        own = None
        if isinstance(v, reg["_SetOperation"]):
            own = v.base_query.QUERY_CLS
        elif isinstance(v, reg["QueryBuilder"]):
            own = v.QUERY_CLS
        if own is None:
            continue
        try:
            a, b = str(v), v.get_sql(own.SQL_CONTEXT)
        except Exception:
            continue
        mon.count("str_vs_own_context")
        if a != b:
            mon.violation("default-render-differs:own-class:%s" % type(v).__name__, "str() of a %s statement differs from its rendering through %s.SQL_CONTEXT: %r vs %r" % (
                d, own.__name__, a[:240], b[:240]), {"program": show(prog)[-10:]})
            return
    if n:
        mon.nontrivial(phash(prog))
        mon.count("hooked_statements", n)


LEAVES = ["interval", "interval-hint-mysql", "interval-hint-postgresql", "boolean", "array", "json", "string-backslash", "number", "field", "table", "subquery", "custom-function"]


def make_leaf(name, Q):
    r = R()
    t = r["Table"]("tprobe")
    if name == "interval":
        return r["Interval"](days=3, hours=4)
    if name == "interval-hint-mysql":  # the constructor's dialect= argument is a hint of the caller, not the statement's dialect
        return r["Interval"](days=3, hours=4, dialect=r["Dialects"].MYSQL)
    if name == "interval-hint-postgresql":
        return r["Interval"](days=3, hours=4, dialect=r["Dialects"].POSTGRESQL)
    if name == "boolean":
        return r["ValueWrapper"](True)
    if name == "array":
        return r["Array"](1, 2)
    if name == "json":
        return r["JSON"]({"k": "it's"})
    if name == "string-backslash":
        return r["ValueWrapper"]("a\\b")
    if name == "number":
        return r["ValueWrapper"](4242)
    if name == "field":
        return t.pcol
    if name == "table":
        return t
    if name == "subquery":
        return Q.from_(t).select(t.pcol).where(t.flag == True)  # noqa: E712
    if name == "custom-function":
        return r["CustomFunction"]("MYFN", ["x", "y"])(t.pcol, r["Interval"](months=2))
    raise ValueError(name)


_zoo = None


def run_term(case, mon):
    """A convention-sensitive leaf in one operand slot of one term class: every nested render must receive the root's
    conventions, and (inline) the leaf must be written exactly as when it is rendered on its own under the same context."""
    global _zoo
    r = R()
    d = case["d"]
    fam = DIALECT_OF[d] if d != "Query" else "generic"
    if _zoo is None:
        from ..zoo import zoo
        _zoo = {e["label"]: e for e in zoo()[0]}
    e = _zoo[case["e"]]
    t = r["Table"]("tprobe")
    # terms are rendered as a statement renders its clauses: nested queries are asked for brackets (subquery=True)
    ctx0 = contexts()[d].copy(subquery=True)
    try:
        leaf = make_leaf(case["leaf"], r[d])
        ops = [t.field("o%d" % i) for i in range(e["arity"])]
        ops[case["slot"]] = leaf
        term = e["make"](ops)
        alone = leaf.get_sql(ctx0)
    except Exception as ex:
        mon.count("term_unbuildable")
        mon.add("term_unbuildable", "%s:%s:%s" % (case["e"], case["leaf"], type(ex).__name__))
        return
    try:
        with hooks.collect() as tree:
            sql = render(term, ctx0, case["mode"])
    except Exception as ex:
        mon.count("term_render_raises")
        mon.add("term_render_raises", "%s:%s:%s" % (case["e"], case["leaf"], type(ex).__name__))
        return
    mon.count("term_embeddings_rendered")
    if case["leaf"].startswith("interval") and case["mode"] == "inline":
        # the literal's quoting form is the rendering dialect's: INTERVAL '3 4' DAY_HOUR (MySQL, Oracle) / INTERVAL '3 4 DAY_HOUR'
        want = "INTERVAL '3 4' DAY_HOUR" if fam in ("mysql", "oracle") else "INTERVAL '3 4 DAY_HOUR'"
        mon.count("interval_forms_checked")
        if want not in sql:
            mon.violation("interval-form:term-operand:%s" % fam, "%s: %s in slot %d of %s is not written in the dialect's form %r: %r" % (
                d, case["leaf"], case["slot"], case["e"], want, sql[:200]))
            return
    mon.add("term_cells", "%s#%d|%s" % (case["e"], case["slot"], case["leaf"]))
    bad = context_fault(tree, ctx0, case["mode"])
    if bad:
        conv, node = bad
        mon.violation("%s:term-operand:%s" % (conv, node), "%s: %s in slot %d of %s (%s): a nested %s render received a context whose %s differs from the root's: %r" % (
            d, case["leaf"], case["slot"], case["e"], case["mode"], node, conv, sql[:200]))
        return
    mon.count("hook_contexts_checked", len(tree.events))
    if case["mode"] == "inline":
        ta, tt = sig(tokenize(alone, d)), sig(tokenize(sql, d))
        n = len(ta)
        found = alone in sql or any(tt[i:i + n] == ta for i in range(len(tt) - n + 1))
        mon.count("term_leaf_containments")
        if not found:
            mon.violation("leaf-rewritten:term-operand:%s:%s" % (case["leaf"], e["cls"]), "%s: %s renders %r on its own but slot %d of %s shows %r" % (
                d, case["leaf"], alone[:120], case["slot"], case["e"], sql[:240]))
            return
    mon.nontrivial(case)


def run_shortcut(case, mon):
    """Tables made by the dialect class's factories carry the class: a statement started from the table's shortcut follows the same
    conventions as one started from the class."""
    r = R()
    d, probe = case["d"], case["probe"]
    Q = r[d]
    fam = DIALECT_OF[d] if d != "Query" else "generic"
    makers = {"Table": lambda: Q.Table("tprobe"), "Tables-name": lambda: Q.Tables("tprobe")[0], "Tables-pair": lambda: Q.Tables(("tprobe", "ta"))[0],
              "Tables-many": lambda: Q.Tables("x1", ("tprobe", "ta"), "x2")[1], "Table-query_cls": lambda: r["Table"]("tprobe", alias="ta", query_cls=Q)}
    try:
        t_fact = makers[case["maker"]]()
        t_ref = r["Table"]("tprobe", alias=t_fact.alias)
        a = probe_query(_Start(Q, t_fact), probe, t_fact)
        b = probe_query(Q, probe, t_ref)
    except Exception as e:
        mon.count("unbuildable")
        mon.add("unbuildable", "shortcut:%s:%s" % (probe, type(e).__name__))
        return
    mon.count("shortcut_statements")
    # every shortcut of the table (select / update / insert) starts a statement of the class the table is bound to
    verbs = {"select": (lambda t: t.select("pcol", True), lambda t: Q.from_(t).select("pcol", True)),
             "update": (lambda t: t.update().set("pcol", True).where(t.flag == True), lambda t: Q.update(t).set("pcol", True).where(t.flag == True)),  # noqa: E712
             "insert": (lambda t: t.insert(1, True, {"k": "v"}), lambda t: Q.into(t).insert(1, True, {"k": "v"}))}
    for verb, (fa, fb) in verbs.items():
        try:
            qa, qb = fa(t_fact), fb(t_ref)
            sa, sb = str(qa), qb.get_sql(contexts()[d])
            pa, pb = repr(qa.get_parameterized_sql()), repr(qb.get_parameterized_sql(contexts()[d]))
        except Exception as e:
            mon.violation("shortcut:raises:%s:%s" % (type(e).__name__, fam), "%s shortcut via %s raised %r" % (verb, case["maker"], e))
            return
        mon.count("shortcut_verbs_compared")
        if sa != sb or pa != pb or type(qa) is not type(qb):
            mon.violation("shortcut-loses-dialect:%s:%s:%s" % (case["maker"], verb, fam), "%s: a statement started from %s(..).%s() renders %r (%s), started from the class %r (%s)" % (
                d, case["maker"], verb, sa[:200], type(qa).__name__, sb[:200], type(qb).__name__))
            return
    for mode in ("str", "param"):
        try:
            if mode == "param" and not isinstance(a, r["QueryBuilder"]):
                continue  # (set operations have no get_parameterized_sql of their own)
            sa = str(a) if mode == "str" else repr(a.get_parameterized_sql())
            sb = b.get_sql(contexts()[d]) if mode == "str" else repr(b.get_parameterized_sql(contexts()[d]))
        except Exception as e:
            mon.violation("shortcut:raises:%s:%s" % (type(e).__name__, fam), "%s via %s raised %r" % (probe, case["maker"], e))
            return
        if sa != sb:
            mon.violation("shortcut-loses-dialect:%s:%s:%s" % (case["maker"], probe, fam), "%s: a statement started from %s(..).select() renders %r, started from %s.from_() %r" % (
                d, case["maker"], sa[:220], d, sb[:220]))
            return
    mon.nontrivial(case)


TWO_POS_VALUES = {
    "json-dict": {"mk77": "it's \"q\" back\\slash \u00e9 \n"},
    "string": "mk77 it's back\\slash \"dq\"",
    "json-nested": {"mk77": {"k": ["a\\b", "c'd"]}},
}


def run_two_positions(case, mon):
    """One value at several positions of one statement (select list and SET use the dialect's value wrapper, criteria / rows /
    function arguments the generic one): it is written the same way everywhere."""
    r = R()
    d = case["d"]
    Q = r[d]
    fam = DIALECT_OF[d] if d != "Query" else "generic"
    t = r["Table"]("tprobe")
    v = TWO_POS_VALUES[case["value"]]
    stmts = {
        "select": lambda: Q.from_(t).select(t.pcol, r["ValueWrapper"](v) if isinstance(v, str) else v, r["fn.Coalesce"](t.j, v)).where(t.j == v).where(t.k.isin([v])),
        "update": lambda: Q.update(t).set(t.j, v).set(t.k, r["fn.Coalesce"](t.k, v)).where(t.j != v),
        "insert": lambda: Q.into(t).insert(1, v).insert(2, v),
        "upsert": lambda: Q.into(t).insert(1, v).on_conflict("id").do_update("j", v),
    }
    try:
        sql = stmts[case["stmt"]]().get_sql(contexts()[d])
    except Exception as e:
        mon.count("unbuildable")
        mon.add("unbuildable", "two-positions:%s:%s" % (case["stmt"], type(e).__name__))
        return
    lits = [tk.text for tk in tokenize(sql, d) if tk.kind == "STR" and "mk77" in tk.text]
    mon.count("two_position_statements")
    if len(lits) < 2:
        mon.inconc("two-positions: fewer than two literals found in %r" % sql[:200])
        return
    if len(set(lits)) != 1:
        mon.violation("same-value-two-spellings:%s:%s:%s" % (case["value"], case["stmt"], fam), "%s: one value is written in %d different ways in one statement: %r" % (
            d, len(set(lits)), sql[:300]))
        return
    mon.nontrivial(case)


PATH_STATEMENTS = {
    "select": lambda Q, t: Q.from_(t).select(t.pcol, True).where(t.flag == True),  # noqa: E712
    "setop": lambda Q, t: Q.from_(t).select(t.pcol).union(Q.from_(t).select(t.qcol)),
    "insert": lambda Q, t: Q.into(t).insert(1, True),
    "update": lambda Q, t: Q.update(t).set("pcol", True),
    "delete": lambda Q, t: Q.from_(t).delete().where(t.flag == True),  # noqa: E712
    "create": lambda Q, t: Q.create_table(t).columns(R()["Column"]("pcol", "INT", default=True)),
    "create-as-select": lambda Q, t: Q.create_table("nt").as_select(Q.from_(t).select(t.pcol, True)),
    "drop": lambda Q, t: Q.drop_table(t),
    "drop-if-exists": lambda Q, t: Q.drop_table(t).if_exists(),
    "load": lambda Q, t: Q.load("/f.csv").into(t),
    "with": lambda Q, t: Q.with_(Q.from_(t).select(t.pcol, True), "c1").from_(R()["AliasedQuery"]("c1")).select("pcol"),
}
PATH_TABLES = {"name": lambda: "tpath", "table": lambda: R()["Table"]("tpath"), "schema-table": lambda: R()["Table"]("tpath", schema=("db", "sch")),
               "database-chain": lambda: R()["Database"]("db").sch.tpath}


def run_paths(case, mon):
    """Every way of rendering a statement without saying how (str, repr, get_sql(), get_sql(None), get_parameterized_sql()) is the
    rendering through the context of the class the statement was started from."""
    r = R()
    d = case["d"]
    Q = r[d]
    t = PATH_TABLES[case["table"]]()
    if isinstance(t, str) and case["stmt"] not in ("create", "drop", "drop-if-exists", "load", "insert", "update"):
        t = r["Table"](t)
    try:
        o = PATH_STATEMENTS[case["stmt"]](Q, t)
        want = o.get_sql(contexts()[d])
    except Exception as e:
        mon.count("unbuildable")
        mon.add("unbuildable", "paths:%s:%s" % (case["stmt"], type(e).__name__))
        return
    paths = {"str": lambda: str(o), "repr": lambda: repr(o)}
    import inspect
    prm = inspect.signature(type(o).get_sql).parameters.get("ctx")
    if prm is not None and prm.default is None:  # (the context is optional for this class; a set operation has no default)
        paths["get_sql()"] = lambda: o.get_sql()
        paths["get_sql(None)"] = lambda: o.get_sql(None)
    else:
        mon.count("entry_paths_not_offered", 2)
    if isinstance(o, r["QueryBuilder"]):
        paths["get_parameterized_sql()"] = lambda: o.get_parameterized_sql()[0]
        want_p = o.get_parameterized_sql(contexts()[d])[0]
    for name, f in paths.items():
        try:
            got = f()
        except TypeError:
            mon.count("entry_paths_not_offered")  # (a set operation has no default for its context)
            continue
        except Exception as e:
            mon.violation("entry-path:raises:%s:%s" % (case["stmt"], name), "%s of a %s %s statement raised %r" % (name, d, case["stmt"], e))
            return
        if name == "repr" and " object at 0x" in got:
            continue  # (this class has no repr of its own: not a rendering)
        mon.count("entry_paths_compared")
        w = want_p if name == "get_parameterized_sql()" else want
        if got != w:
            mon.violation("entry-path-differs:%s:%s:%s" % (case["stmt"], name, DIALECT_OF[d] if d != "Query" else "generic"),
                          "%s of a %s statement started from %s renders %r; through %s.SQL_CONTEXT it is %r" % (name, case["stmt"], d, got[:200], d, w[:200]))
            return
    mon.nontrivial(case)


def run_literal_forms(case, mon):
    """Absolute expectations for literal forms a depth comparison cannot see (every depth shares the fault): the array literal -
    empty and not - is ARRAY[..] / '{}' for PostgreSQL and [..] / [] elsewhere; a JSON document literal parses as JSON, whatever the
    identifier quote of the dialect."""
    import json as _json
    r = R()
    d = case["d"]
    Q = r[d]
    Qi = r["Query"] if case["inner"] == "generic" else Q
    t = r["Table"]("lt")
    doc = {"k": "v", "n": [1, "x`y", {"deep": "it's"}], "`bt`": "\"dq\""}
    from ..prog import StrEnumU
    g1 = r["fn.Upper"](t.region).as_("gr1")
    g2 = r["fn.Lower"](t.channel).as_("gc2")
    inner = (Qi.from_(t).select(r["JSON"](doc).as_("jd"), r["Array"]().as_("ea"), r["Array"](1, 2).as_("na"), g1, g2)
             .where(t.j.contains({"a": "b`c"})).where(t.arr == []).where(t.j.has_any_keys([])).where(t.arr2 == [3, 4])
             .where(t.s1 == "p\\q").where(t.s2 == StrEnumU.pct).where(t.s3.isin([StrEnumU.pct, "x\\y"]))
             .groupby(g2, g1, g2))
    root = inner
    for lv in range(case["depth"]):
        s_ = root.as_("l%d" % lv)
        root = Q.from_(s_).select(s_.star)
    try:
        sql = root.get_sql(contexts()[d])
    except Exception as e:
        mon.violation("literal-forms:raises:%s" % type(e).__name__, "%s raised %r" % (d, e))
        return
    toks = tokenize(sql, d)
    pg = DIALECT_OF.get(d) == "postgresql"
    fam = DIALECT_OF[d] if d != "Query" else "generic"
    mon.count("literal_form_statements")
    # JSON documents: the two string literals that start with '{' and are not the empty-array literal
    docs = [t_.value for t_ in toks if t_.kind == "STR" and t_.value.startswith("{") and t_.value != "{}"]
    want_docs = [doc, {"a": "b`c"}]
    if len(docs) != 2:
        mon.violation("json-literal:missing:%s" % fam, "expected two JSON document literals, found %r in %r" % (docs, sql[:260]))
        return
    for got, want in zip(docs, want_docs):
        try:
            ok = _json.loads(got) == want
        except ValueError:
            ok = False
        mon.count("json_documents_parsed")
        if not ok:
            mon.violation("json-literal:not-the-document:%s" % fam, "%s (depth %d, inner class %s): the JSON literal %r is not the document %r" % (
                d, case["depth"], case["inner"], got[:120], want))
            return
    text = "".join(t_.text for t_ in toks)
    empties = sum(1 for t_ in toks if t_.kind == "STR" and t_.value == "{}")
    brackets = text.count("[]")
    mon.count("array_literals_checked", 5)
    if pg and not (empties == 3 and "ARRAY[1,2]" in text and "ARRAY[3,4]" in text):
        mon.violation("array-literal:form:%s" % fam, "PostgreSQL array literals are '{}' / ARRAY[..]: %r" % sql[:260])
        return
    if not pg and not (empties == 0 and brackets == 3 and "[1,2]" in text and "[3,4]" in text and "ARRAY" not in text):
        mon.violation("array-literal:form:%s" % fam, "%s (depth %d, inner class %s): array literals are [] / [..] outside PostgreSQL: %r" % (d, case["depth"], case["inner"], sql[:260]))
        return
    # backslashes in string literals - plain strings and enum members alike - are doubled under MySQL and left alone elsewhere
    strs = [t_.text for t_ in toks if t_.kind == "STR" and "\\" in t_.text and not t_.value.startswith("{")]
    per = [x.count("\\") for x in strs]
    want_per = [2, 2, 2, 2] if DIALECT_OF.get(d) == "mysql" else [1, 1, 1, 1]
    mon.count("backslash_literals_checked", len(strs))
    if per != want_per:
        mon.violation("string-escape:backslash:%s" % fam, "%s (depth %d, inner class %s): backslashes per literal %s, expected %s: %r" % (d, case["depth"], case["inner"], per, want_per, strs))
        return
    # GROUP BY keys that the select list names: by alias where the dialect groups by alias, written in full where it does not
    # (SQL Server, Oracle) - every key, in call order, also a repeated one
    gi = max(i for i, t_ in enumerate(toks) if t_.kind == "WORD" and t_.value == "GROUP")
    depth_ = 0
    gtoks = []
    for t_ in toks[gi + 2:]:
        if t_.text == "(":
            depth_ += 1
        elif t_.text == ")":
            depth_ -= 1
            if depth_ < 0:
                break
        gtoks.append(t_)
    gtext = "".join(x.text for x in gtoks)
    by_alias = DIALECT_OF.get(d) not in ("mssql", "oracle")  # (their builders switch the policy off in their own get_sql)
    q_ = contexts()[d].alias_quote_char or contexts()[d].quote_char
    qi_ = contexts()[d].quote_char
    want_g = ",".join("%s%s%s" % (q_, a_, q_) for a_ in ("gc2", "gr1", "gc2")) if by_alias else "LOWER({0}channel{0}),UPPER({0}region{0}),LOWER({0}channel{0})".format(qi_)
    mon.count("groupby_key_lists_checked")
    if case["depth"] == 0 and case["inner"] == "generic" and not by_alias:
        pass  # (a generic-class statement rendered through a SQL Server / Oracle context: the recorded class-bound-conventions finding)
    elif gtext.replace(" ", "") != want_g:
        mon.violation("groupby-alias-policy:keys:%s" % fam, "%s (depth %d, inner class %s): GROUP BY keys are %r, expected %r" % (d, case["depth"], case["inner"], gtext, want_g))
        return
    mon.nontrivial(case)


OPERAND_SHAPES = ["plain", "where", "ordered", "limited", "offset", "sliced", "ordered-limited", "distinct", "grouped", "for-update"]
WRAP_HOSTS = ["top", "from", "in", "join", "cte", "insert-select"]
WRAPS = {"Query": True, "PostgreSQLQuery": True, "OracleQuery": True, "MSSQLQuery": True, "MySQLQuery": False, "SQLLiteQuery": False}


def _operand(Qx, shape, t):
    q = Qx.from_(t).select(t.pcol)
    if shape == "where":
        return q.where(t.qcol > 1)
    if shape == "ordered":
        return q.orderby(t.pcol)
    if shape == "limited":
        return q.limit(3)
    if shape == "offset":
        return q.offset(2)
    if shape == "sliced":
        return q[1:4]
    if shape == "ordered-limited":
        return q.orderby(t.pcol).limit(3).offset(1)
    if shape == "distinct":
        return q.distinct()
    if shape == "grouped":
        return q.groupby(t.pcol)
    if shape == "for-update":
        return q.for_update()
    return q


def run_wrapping(case, mon):
    """Whether the operands of a set operation are bracketed is the dialect's convention: the same for every operand, whatever clauses
    the operand carries and whichever class it was built with."""
    r = R()
    d = case["d"]
    Q = r[d]
    t, u = r["Table"]("wt"), r["Table"]("wu")
    classes = {"own": Q, "generic": r["Query"]}
    try:
        a = _operand(Q, case["a"], t)  # the base query's class decides: always the dialect's own
        b = _operand(classes[case["bcls"]], case["b"], u)
        so = getattr(a, case["op"])(b)
        if case["tail"]:
            so = so.orderby("pcol").limit(5)
        host = case["host"]
        o = r["Table"]("wo")
        if host == "top":
            root = so
        elif host == "from":
            root = Q.from_(so.as_("s1")).select("pcol")
        elif host == "in":
            root = Q.from_(o).select(o.a).where(o.a.isin(so))
        elif host == "join":
            s1 = so.as_("s1")
            root = Q.from_(o).join(s1).on(o.a == s1.pcol).select(o.a)
        elif host == "cte":
            c = r["AliasedQuery"]("c1")
            root = Q.with_(so, "c1").from_(c).select(c.star)
        else:
            s1 = so.as_("s1")
            root = Q.into(r["Table"]("dst")).from_(s1).select(s1.star)
        if case["mode"] == "param" and isinstance(root, r["QueryBuilder"]):
            sql = root.get_parameterized_sql(contexts()[d])[0]
        else:
            sql = root.get_sql(contexts()[d])
    except Exception as e:
        mon.count("unbuildable")
        mon.add("unbuildable", "wrapping:%s:%s" % (case["host"], type(e).__name__))
        return
    toks = tokenize(sql, d)
    # locate the set operator; the tokens right before and right after it tell whether the operands are bracketed
    ops = [i for i, t_ in enumerate(toks) if t_.kind == "WORD" and t_.value.upper() in ("UNION", "INTERSECT", "EXCEPT", "MINUS")]
    if len(ops) != 1:
        mon.inconc("wrapping probe: %d set operators in %r" % (len(ops), sql[:200]))
        return
    i = ops[0]
    j = i + 1
    if j < len(toks) and toks[j].kind == "WORD" and toks[j].value.upper() == "ALL":
        j += 1
    left_wrapped = toks[i - 1].kind == "PUNCT" and toks[i - 1].text == ")"
    right_wrapped = toks[j].kind == "PUNCT" and toks[j].text == "("
    mon.count("set_operands_inspected", 2)
    mon.add("wrapping_cells", "%s/%s/%s" % (DIALECT_OF[d] if d != "Query" else "generic", case["a"], case["b"]))
    want = WRAPS[d]
    for side, got, shape in (("left", left_wrapped, case["a"]), ("right", right_wrapped, case["b"])):
        if got != want:
            mon.violation("set-operand-wrapping:operand-shape:%s:%s" % (shape, DIALECT_OF[d] if d != "Query" else "generic"),
                          "%s: the %s operand (%s, built with the %s class) is %s although this dialect %s the operands of a set operation: %r" % (
                              d, side, shape, "dialect's own" if side == "left" else case["bcls"], "bracketed" if got else "bare",
                              "brackets" if want else "never brackets", sql[:260]))
            return
    mon.nontrivial(case)


def run_case(case, mon):
    if case["k"] == "wrapping":
        return run_wrapping(case, mon)
    if case["k"] == "paths":
        return run_paths(case, mon)
    if case["k"] == "literal-forms":
        return run_literal_forms(case, mon)
    if case["k"] == "two-positions":
        return run_two_positions(case, mon)
    if case["k"] == "shortcut":
        return run_shortcut(case, mon)
    {"probe": run_probe, "neutral": run_neutral, "hook": run_hook, "term": run_term}[case["k"]](case, mon)


def FLOORS(tier):
    return {"nested_renders": 5000, "probe_spans_compared": 3000, "hook_contexts_checked": 100000, "dialect_pairs_compared": 3000, "set_operands_inspected": 1500, "entry_paths_compared": 800}
