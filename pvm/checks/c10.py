"""C10 - a subquery renders the same wherever it is embedded.

For an inner query I, an embedding position p and a dialect class d, the outer statement's token stream must contain,
at p, exactly '(' + tokens(I.get_sql()) + ')' (placeholders renumbered; no parentheses where the position supplies its
own or the dialect does not wrap set operands) followed by the alias only where the position defines one.
"""
from __future__ import annotations

import random

from ..fingerprint import contexts
from ..lex import DIALECT_OF, tokenize
from ..prog import DIALECT_CLASSES, registry

PROP = "C10"
LEVEL = "exploration"
RULE = ("inner queries from a shape grammar (aliased terms in WHERE / GROUP BY / HAVING / ORDER BY / ON / select list, boolean groups, "
        "nested subqueries to depth 3, set operations (with own ORDER BY / LIMIT), limit/offset, joins, scalar subqueries as terms of "
        "SELECT/WHERE/GROUP BY/HAVING/ORDER BY, inner CTEs, USING joins, index hints, PREWHERE, ROLLUP, FOR UPDATE; exhaustive over the single-feature shapes, seeded random "
        "combinations on top) x 12 embedding positions x six dialect classes x {inline, parameterised}. non-trivial = the inner "
        "query carries at least one alias or a nested query; distinct = (shape, position, dialect, mode)"
        " also: correlated inner queries, DML CTE bodies with RETURNING, template-looking constants; an embedding that raises while the query renders alone is a violation. (DESIGN.md 6a)")
ASSUMPTIONS = ["token-level comparison with the dialect's reference lexer; placeholders compare by kind (PostgreSQL numbering is C04's subject)"]
ANCHORS = ["QueryBuilder.get_sql", "QueryBuilder._from_sql", "Join.get_sql", "QueryBuilder._with_sql", "_SetOperation.get_sql",
           "ContainsCriterion.get_sql", "QueryBuilder._select_sql", "QueryBuilder._where_sql", "QueryBuilder._group_sql",
           "QueryBuilder._having_sql", "QueryBuilder._orderby_sql"]
WORKERS = {"quick": 16, "thorough": 16}
# cases the check sets aside instead of judging, as a share of all cases (more than that makes a run inconclusive)
CEILING_RATIOS = {"unbuildable": 0.05, "render_raises": 0.01}

POSITIONS = ["from", "join", "in", "not-in", "negated-in", "comparison", "select-item", "select-item-aliased", "cte", "set-operand",
             "set-operand-right", "insert-select", "nested-from-from", "exists-like-function", "where-in-inside-and",
             "in-aliased-inner", "comparison-aliased-inner", "select-in-aliased-inner", "cte-with-join", "join-left-aliased"]
FEATURES = ["where-alias", "where-complex", "groupby-alias", "groupby-selected-alias", "having-alias", "orderby-alias", "orderby-selected-alias",
            "join-on-alias", "select-alias", "select-expr-alias", "nested-in", "nested-from", "limit", "distinct", "case-alias", "function-alias-arg",
            "setop", "value-alias", "between-alias", "star", "where-criterion-alias", "having-criterion-alias", "orderby-expr-alias",
            "groupby-expr-alias", "on-criterion-alias",
            # clauses and terms beyond aliases: whatever the inner query consists of belongs inside its brackets, unchanged
            "for-update", "for-update-of-nowait", "having-subquery", "orderby-subquery", "select-subquery", "where-subquery-comparison",
            "inner-cte", "join-using", "force-index", "prewhere", "rollup", "setop-orderby", "setop-limit", "groupby-subquery",
            "setop-aliased-branches",
            # a reference to a table of the statement around the query (correlation): the query's own reason to qualify its columns
            "correlated-where", "correlated-prewhere", "correlated-where-only-reason",
            # constants whose text looks like a template to whatever assembles the outer statement
            "braces-string", "braces-json", "empty-array", "percent-string", "backslash-string",
            # data-modifying statements with RETURNING as CTE bodies (PostgreSQL): the body is the statement's stand-alone text
            "dml-insert-returning", "dml-insert-select-returning", "dml-delete-returning", "dml-update-returning", "dml-update-from-returning"]
DML_FEATURES = {f for f in FEATURES if f.startswith("dml-")}


def R():
    return registry()


_IN = [("WORD", "IN")]
_CMP = [("OP", None)]
PREFIX = {"in": _IN, "not-in": _IN, "negated-in": _IN, "in-aliased-inner": _IN, "where-in-inside-and": _IN, "select-in-aliased-inner": _IN,
          "comparison": _CMP, "comparison-aliased-inner": _CMP, "from": [("WORD", "FROM"), ("PUNCT", ",")], "nested-from-from": [("WORD", "FROM")],
          "join": [("WORD", "JOIN")], "join-left-aliased": [("WORD", "JOIN")], "select-item": [("PUNCT", ","), ("WORD", "SELECT")],
          "select-item-aliased": [("PUNCT", ","), ("WORD", "SELECT")], "exists-like-function": [("PUNCT", "(")]}


def build_inner(Q, feats, depth=0):
    """Inner query with the given features."""
    r = R()
    T = r["Table"]
    t = T("ti%d" % depth)
    fn = lambda n: r["fn." + n]  # noqa: E731
    dml = [f for f in feats if f in DML_FEATURES]
    if dml:
        if Q is not r["PostgreSQLQuery"]:
            raise LookupError("RETURNING is PostgreSQL's")
        u = T("tdml")
        kind = dml[0]
        if kind == "dml-insert-returning":
            return Q.into(t).columns("id", "a").insert(1, 2).returning(t.id, t.a + 1)
        if kind == "dml-insert-select-returning":
            return Q.into(t).from_(u).select(u.id, u.a).where(u.a > 1).returning(t.id)
        if kind == "dml-delete-returning":
            return Q.from_(t).delete().where(t.a == 1).returning(t.id, t.a)
        if kind == "dml-update-returning":
            return Q.update(t).set(t.a, 1).where(t.id == 2).returning(t.id, t.a * 2)
        return Q.update(t).set(t.a, u.a).from_(u).where(t.id == u.id).returning(t.id, u.a)
    q = Q.from_(t)
    sel = [t.id]
    if "select-alias" in feats:
        sel.append(t.a.as_("sa"))
    if "select-expr-alias" in feats:
        sel.append((t.b + 1).as_("se"))
    if "value-alias" in feats:
        sel.append(r["ValueWrapper"](5).as_("va"))
    if "case-alias" in feats:
        sel.append(r["Case"]().when(t.a.as_("cw") == 1, t.b.as_("ct")).else_(0).as_("ca"))
    if "function-alias-arg" in feats:
        sel.append(fn("Coalesce")(t.c.as_("fa"), 0))
    if "star" in feats:
        sel = [t.star]
    if "join-on-alias" in feats:
        u = T("tj%d" % depth)
        q = q.join(u).on(t.id.as_("ja") == u.id.as_("jb"))
    if "on-criterion-alias" in feats:
        u2 = T("tk%d" % depth)
        q = q.join(u2).on((t.id == u2.id).as_("oc"))
    q = q.select(*sel)
    if "distinct" in feats:
        q = q.distinct()
    if "where-alias" in feats:
        q = q.where(t.a.as_("wa") == 1)
    # whole clause terms that carry an alias: printed only if the clause inherits "print aliases" from outside
    if "where-criterion-alias" in feats:
        q = q.where((t.a == 1).as_("wc"))
    if "having-criterion-alias" in feats:
        q = q.groupby(t.id).having((fn("Count")(t.id) > 1).as_("hc"))
    if "orderby-expr-alias" in feats:
        q = q.orderby((t.a + 1).as_("oe"))
    if "groupby-expr-alias" in feats:
        q = q.groupby((t.a + 2).as_("ge"))
    if "correlated-where" in feats:
        q = q.where(t.a == T("tout").x)
    if "correlated-where-only-reason" in feats:
        q = q.where(t.b > T("tout").lim).where(t.c == 1)
    if "correlated-prewhere" in feats:
        q = q.prewhere(t.b < T("tout").y)
    if "braces-string" in feats:
        q = q.where(t.s1 == "Hello {{name}} {0} {x} }{").select(r["ValueWrapper"]("{}").as_("br"))
    if "braces-json" in feats:
        q = q.where(t.j1 == {"k": {"n": [1, "{v}"]}})
    if "empty-array" in feats:
        q = q.where(t.arr1 == []).where(t.arr2 == [1, 2])
    if "percent-string" in feats:
        q = q.where(t.s2.like("100%% %s %(x)s %d"))
    if "backslash-string" in feats:
        q = q.where(t.s3 == "a\\b \\1 \\g<0> $1 \\n")
    if "where-complex" in feats:
        q = q.where((t.a > 1) | (t.b < 2)).where((t.c == 3) & ((t.a == 1) | (t.b == 2)))
    if "between-alias" in feats:
        q = q.where(t.b.as_("ba").between(1, 2))
    if "nested-in" in feats and depth < 2:
        q = q.where(t.id.isin(build_inner(Q, [f for f in feats if f != "nested-in"][:2] + ["where-alias"], depth + 1)))
    if "nested-from" in feats and depth < 2:
        sub = build_inner(Q, ["where-alias", "select-alias"], depth + 1).as_("nsq%d" % depth)
        q = Q.from_(sub).select(sub.id).where(sub.id.as_("nwa") > 0)
        t = sub
    if "groupby-alias" in feats:
        q = q.groupby(t.id.as_("ga"))
    if "groupby-selected-alias" in feats:
        e = (t.b + 1).as_("gs")
        q = q.select(e).groupby(e)
    if "having-alias" in feats:
        q = q.groupby(t.id).having(fn("Count")(t.id.as_("hf")).as_("ha") > 1)
    if "orderby-alias" in feats:
        q = q.orderby(t.id.as_("oa"))
    if "orderby-selected-alias" in feats:
        e = (t.id + 2).as_("os")
        q = q.select(e).orderby(e)
    if "limit" in feats:
        q = q.limit(3).offset(1)
    sq = lambda col: Q.from_(T("tsub%d" % depth)).select(fn("Max")(T("tsub%d" % depth).field(col)))  # noqa: E731
    if "having-subquery" in feats:
        q = q.groupby(t.id).having(fn("Count")(t.id) > sq("h"))
    if "groupby-subquery" in feats:
        q = q.groupby(sq("g"))
    if "orderby-subquery" in feats:
        q = q.orderby(sq("o"))
    if "select-subquery" in feats:
        q = q.select(sq("s"))
    if "where-subquery-comparison" in feats:
        q = q.where(t.a >= sq("w"))
    if "inner-cte" in feats:
        q = q.with_(Q.from_(T("tcte%d" % depth)).select("id").where(T("tcte%d" % depth).z == 4), "ic%d" % depth)
    if "join-using" in feats:
        q = q.join(T("tu%d" % depth)).using("id")
    if "force-index" in feats:
        q = q.force_index("ix1")
    if "prewhere" in feats:
        q = q.prewhere(t.p == 1)
    if "rollup" in feats:
        q = q.rollup(t.id)
    if "for-update" in feats:
        q = q.for_update()
    if "for-update-of-nowait" in feats:
        q = q.for_update(nowait=True, of=("ti%d" % depth,))
    if "setop-orderby" in feats or "setop-limit" in feats:
        q = q.union(Q.from_(t).select(*([t.id] * max(1, len(q._selects)))))
        if "setop-orderby" in feats:
            q = q.orderby(t.id)
        if "setop-limit" in feats:
            q = q.limit(4)
    if "setop-aliased-branches" in feats and not isinstance(q, r["_SetOperation"]):
        # the operands carry aliases of their own (as_() or an automatic sq<n> from an earlier use): never printed inside the set operation
        q = q.as_("lft").union(Q.from_(t).select(*([t.id] * max(1, len(q._selects)))).as_("rgt"))
    if "setop" in feats and not isinstance(q, r["_SetOperation"]):
        q = q.union(Q.from_(t).select(*([t.id] * max(1, len(q._selects)))).where(t.id.as_("swa") < 9))
    return q


def embed(pos, Q, inner):
    """(outer statement, expectation) ; expectation = (parenthesised, alias token or None, prefix tokens before the group)"""
    r = R()
    T = r["Table"]
    o = T("to")
    is_setop = isinstance(inner, r["_SetOperation"])
    if pos == "from":
        s = inner.as_("emb")
        return Q.from_(s).select(s.id), (True, "emb")
    if pos == "join":
        s = inner.as_("emb")
        return Q.from_(o).select(o.a).join(s).on(o.id == s.id), (True, "emb")
    if pos == "in":
        return Q.from_(o).select(o.a).where(o.id.isin(inner)), (True, None)
    if pos == "not-in":
        return Q.from_(o).select(o.a).where(o.id.notin(inner)), (True, None)
    if pos == "negated-in":
        return Q.from_(o).select(o.a).where(~o.id.isin(inner)), (True, None)
    if pos == "where-in-inside-and":
        return Q.from_(o).select(o.a).where((o.b == 1) & (o.id.isin(inner) | (o.c == 2))), (True, None)
    if pos == "comparison":
        return Q.from_(o).select(o.a).where(o.id == inner), (True, None)
    # the inner query carries an alias, but these positions define no name: the alias must not be printed
    if pos == "in-aliased-inner":
        return Q.from_(o).select(o.a).where(o.id.isin(inner.as_("ia"))), (True, None)
    if pos == "comparison-aliased-inner":
        return Q.from_(o).select(o.a).where(o.id > inner.as_("ia")), (True, None)
    if pos == "select-in-aliased-inner":
        return Q.from_(o).select(o.id.isin(inner.as_("ia"))), (True, None)
    if pos == "cte-with-join":
        c = r["AliasedQuery"]("cemb")
        return Q.with_(inner, "cemb").from_(o).select(o.id).join(c).on(o.id == c.id), ("cte", None)
    if pos == "join-left-aliased":
        s = inner.as_("emb")
        return Q.from_(o).select(o.a).left_join(s).on(o.id == s.id), (True, "emb")
    if pos == "select-item":
        return Q.from_(o).select(o.a, inner), (True, None)
    if pos == "select-item-aliased":
        return Q.from_(o).select(o.a, inner.as_("emb")), (True, "emb")
    if pos == "exists-like-function":
        return Q.from_(o).select(r["Function"]("EXISTS_", inner)), (True, None)
    if pos == "cte":
        c = r["AliasedQuery"]("cemb")
        return Q.with_(inner, "cemb").from_(c).select(c.id), ("cte", None)
    if pos == "set-operand":
        if is_setop:
            return None, None
        other = Q.from_(o).select(*([o.id] * len(inner._selects)))
        return other.union(inner), ("operand", None)
    if pos == "set-operand-right":
        if is_setop:
            return None, None
        other = Q.from_(o).select(*([o.id] * len(inner._selects)))
        return inner.union_all(other), ("operand", None)
    if pos == "nested-from-from":
        s = inner.as_("emb")
        mid = Q.from_(s).select(s.id).where(s.id > 0).as_("mid")
        return Q.from_(mid).select(mid.id), (True, "emb")
    return None, None


def cases(tier, seed, shard, nshards):
    k = 0
    shapes = [[f] for f in FEATURES] + [["where-alias", "groupby-alias", "having-alias", "orderby-alias", "select-alias"],
                                        ["where-complex", "nested-in"], ["nested-from", "orderby-alias"], ["setop", "where-alias"],
                                        ["join-on-alias", "where-alias", "limit"], ["setop-aliased-branches", "where-alias"], []]
    for feats in shapes:
        for pos in POSITIONS:
            for d in DIALECT_CLASSES:
                for mode in ("inline", "param", "as-keyword") + (("alias-quote",) if d in ("Query", "SQLLiteQuery") else ()):
                    k += 1
                    if k % nshards == shard:
                        yield {"feats": feats, "pos": pos, "d": d, "mode": mode}
    rnd = random.Random("C10:%d:%d" % (seed, shard))
    n = (30000 if tier == "quick" else 480000) // nshards
    for i in range(n):
        yield {"feats": sorted(rnd.sample([f for f in FEATURES if f not in DML_FEATURES], rnd.randint(2, 6))), "pos": rnd.choice(POSITIONS), "d": DIALECT_CLASSES[i % 6],
               "mode": rnd.choice(["inline", "param", "as-keyword"])}


def render(o, d, mode):
    r = R()
    ctx = contexts()[d]
    if mode == "param":
        ctx = ctx.copy(parameterizer=r["Parameterizer"]())
    elif mode == "as-keyword":  # a flag the caller may set on the context: it holds for the whole tree or for none of it
        ctx = ctx.copy(as_keyword=True)
    elif mode == "alias-quote":
        # a caller's own alias quote character, another one than the identifier quote (only for the generic and the SQLite class: their
        # reference lexer reads the backtick as an identifier quote as well; the other lexers know one identifier quote)
        ctx = ctx.copy(alias_quote_char="`")
    return o.get_sql(ctx)


def norm(toks):
    return [(t.kind, "PARAM" if t.kind == "PARAM" else (t.value if t.kind in ("IDENT", "STR", "NUM", "WORD") else t.text)) for t in toks]


def find_sub(hay, needle):
    n = len(needle)
    if n == 0:
        return 0
    for i in range(len(hay) - n + 1):
        if hay[i:i + n] == needle:
            return i
    return -1


def run_case(case, mon):
    r = R()
    d, pos, mode = case["d"], case["pos"], case["mode"]
    Q = r[d]
    fam = DIALECT_OF[d] if d != "Query" else "generic"
    if pos == "insert-select":
        return run_insert_select(case, mon)
    try:
        inner = build_inner(Q, case["feats"])
        # a second, independent instance for the stand-alone rendering (embedding may auto-alias its argument)
        alone = build_inner(Q, case["feats"])
        outer, exp = embed(pos, Q, inner)
    except Exception as e:
        mon.count("unbuildable")
        mon.add("unbuildable", "%s:%s" % (pos, type(e).__name__))
        return
    if outer is None:
        return
    if set(case["feats"]) & DML_FEATURES and pos not in ("cte", "cte-with-join"):
        return  # (a data-modifying statement is embedded as a CTE body only)
    try:
        s_alone = render(alone, d, mode)
    except Exception as e:
        mon.count("render_raises")
        mon.add("render_raises", "%s:%s:%s" % (pos, type(e).__name__, str(e)[:40]))
        return
    try:
        s_outer = render(outer, d, mode)
    except Exception as e:
        # the query renders on its own: embedding it must not make rendering fail
        mon.violation("%s:embedding-raises:%s:%s" % (pos, type(e).__name__, fam), "%s/%s (%s): the query renders alone (%r) but the statement that embeds it raises %r" % (
            pos, d, mode, s_alone[:200], e), {"alone": s_alone})
        return
    mon.count("embeddings_rendered")
    mon.add("cells", "%s|%s" % (pos, fam))
    ta, to = norm(tokenize(s_alone, d)), norm(tokenize(s_outer, d))
    if mode == "alias-quote":
        # which of the two quote characters delimits a name is part of the text under comparison here
        keepq = lambda toks_: [(t_.kind, t_.text if t_.kind == "IDENT" else ("PARAM" if t_.kind == "PARAM" else (t_.value if t_.kind in ("STR", "NUM", "WORD") else t_.text))) for t_ in toks_]  # noqa: E731
        ta, to = keepq(tokenize(s_alone, d)), keepq(tokenize(s_outer, d))
    wrap, alias = exp
    wraps = r[d]._builder().wrap_set_operation_queries if wrap == "operand" else True
    if wrap == "cte":
        needle = [("WORD", "AS"), ("PUNCT", "(")] + ta + [("PUNCT", ")")]
    elif wrap == "operand" and not wraps:
        needle = ta
    else:
        needle = [("PUNCT", "(")] + ta + [("PUNCT", ")")]
    if alias:
        needle = needle + ([("WORD", "AS")] if mode == "as-keyword" else []) + [("IDENT", ("`%s`" % alias) if mode == "alias-quote" else alias)]
    i = find_sub(to, needle)
    nontrivial = bool(case["feats"])
    if i >= 0:
        # the position must not add an alias of its own where none is defined
        after = to[i + len(needle)] if i + len(needle) < len(to) else None
        if not alias and wrap is True and after is not None and (after[0] == "IDENT" or after == ("WORD", "AS")):
            mon.violation("%s:alias-leak-after-subquery:%s" % (pos, fam), "an alias follows the subquery where the position defines none: %r" % s_outer[:240])
            return
        # the bracketed query stands directly at its position: nothing is wrapped around it
        before = to[i - 1] if i > 0 else None
        want_before = PREFIX.get(pos)
        if want_before is not None and wrap is True:
            mon.count("embedding_prefixes_checked")
            if before is None or not any((before[0] == k_ and (v_ is None or before[1] == v_)) for k_, v_ in want_before):
                mon.violation("%s:wrapped-in-something-else:%s" % (pos, fam), "the subquery does not stand directly at its position (token before it: %r): %r" % (
                    before, s_outer[:260]))
                return
        mon.count("containments_confirmed")
        if nontrivial:
            mon.nontrivial(case)
        if mon.evaluations % 307 == 1:
            mon.sample({"case": case, "inner": s_alone[:200], "outer": s_outer[:300]})
        return
    # locate the difference: align the inner tokens against the outer tokens after the first '(' + SELECT that matches best
    clause, what = diagnose(to, ta)
    mon.violation("%s:%s:%s" % (pos, what, clause), "%s/%s (%s): the embedded text differs from the stand-alone rendering in the %s clause: "
                  "stand-alone %r; outer %r" % (pos, d, mode, clause, s_alone[:220], s_outer[:320]), {"alone": s_alone, "outer": s_outer})


def diagnose(to, ta):
    """(clause, kind of difference) of the first divergence between the outer stream and the inner stream."""
    best = (0, 0)
    for i in range(len(to)):
        if to[i] == ta[0]:
            j = 0
            while i + j < len(to) and j < len(ta) and to[i + j] == ta[j]:
                j += 1
            if j > best[1]:
                best = (i, j)
    i, j = best
    clause = "select"
    for t in ta[:j]:
        if t[0] == "WORD" and t[1] in ("FROM", "WHERE", "GROUP", "HAVING", "ORDER", "LIMIT", "OFFSET", "ON", "JOIN", "UNION", "FETCH"):
            clause = {"GROUP": "group-by", "ORDER": "order-by"}.get(t[1], t[1].lower())
    got = to[i + j] if i + j < len(to) else None
    want = ta[j] if j < len(ta) else None
    if got and got[0] == "IDENT" and (want is None or want[0] != "IDENT" or want != got):
        return clause, "alias-leak"
    if got == ("PUNCT", "(") or want == ("PUNCT", "("):
        return clause, "bracket-difference"
    if got and got[0] == "WORD" and got[1] == "AS":
        return clause, "alias-leak"
    return clause, "text-differs"


def run_insert_select(case, mon):
    r = R()
    d, mode = case["d"], case["mode"]
    Q = r[d]
    fam = DIALECT_OF[d] if d != "Query" else "generic"
    T = r["Table"]
    t = T("ti0")
    feats = case["feats"]

    def chain(q):
        sel = [t.id] + ([t.a.as_("sa")] if "select-alias" in feats else [])
        q = q.select(*sel)
        if "where-alias" in feats:
            q = q.where(t.a.as_("wa") == 1)
        if "where-complex" in feats:
            q = q.where((t.a > 1) | (t.b < 2))
        if "orderby-alias" in feats:
            q = q.orderby(t.id.as_("oa"))
        if "groupby-alias" in feats:
            q = q.groupby(t.id.as_("ga"))
        if "limit" in feats:
            q = q.limit(3)
        return q
    try:
        alone = render(chain(Q.from_(t)), d, mode)
        outer = render(chain(Q.into(T("dst")).from_(t)), d, mode)
    except Exception as e:
        mon.count("render_raises")
        return
    mon.count("embeddings_rendered")
    mon.add("cells", "insert-select|%s" % fam)
    ta, to = norm(tokenize(alone, d)), norm(tokenize(outer, d))
    if to[-len(ta):] != ta:
        clause, what = diagnose(to, ta)
        mon.violation("insert-select:%s:%s" % (what, clause), "INSERT .. SELECT (%s) does not end with the stand-alone SELECT: %r vs %r" % (d, outer[:240], alone[:200]))
        return
    mon.count("containments_confirmed")
    # ... and with the clauses that follow the feeding SELECT (upsert handlers, RETURNING): the SELECT still stands there unchanged,
    # directly after the column list and directly before the first of those clauses
    tails = {"on-conflict-do-nothing": lambda q: q.on_conflict("id").do_nothing(), "on-conflict-do-update": lambda q: q.on_conflict("id").do_update("a", 1),
             "on-conflict-do-update-where": lambda q: q.on_conflict("id").do_update("a").where(T("dst").a > 0)}
    if d == "PostgreSQLQuery":
        tails["returning"] = lambda q: q.returning("id")
    for tname, tail in tails.items():
        try:
            full = render(tail(chain(Q.into(T("dst")).columns("id", "a").from_(t))), d, mode)
        except Exception as e:
            mon.violation("insert-select:embedding-raises:%s:%s" % (tname, type(e).__name__), "INSERT .. SELECT with %s raised %r although the SELECT renders alone" % (tname, e))
            return
        tf = norm(tokenize(full, d))
        i = find_sub(tf, ta)
        mon.count("insert_select_tails_checked")
        nxt = tf[i + len(ta)] if 0 <= i and i + len(ta) < len(tf) else None
        at_end = 0 <= i and i + len(ta) == len(tf)  # (MySQL spells DO NOTHING as INSERT IGNORE: nothing follows the SELECT)
        if i < 0 or not (at_end or (nxt is not None and nxt[0] == "WORD" and nxt[1] in ("ON", "RETURNING"))):
            mon.violation("insert-select:select-changed-before:%s:%s" % (tname, fam), "INSERT .. SELECT .. %s (%s): the stand-alone SELECT %r is not what stands before the clause: %r" % (
                tname, d, alone[:160], full[:300]))
            return
    if feats:
        mon.nontrivial(case)


def post(m, tier, inconclusive):
    want = {"%s|%s" % (p, DIALECT_OF[d] if d != "Query" else "generic") for p in POSITIONS for d in DIALECT_CLASSES}
    got = m["sets"].get("cells", set())
    if want - got:
        inconclusive.append("position/dialect cells not covered: %s" % sorted(want - got)[:10])


def FLOORS(tier):
    return {"embeddings_rendered": 3000, "containments_confirmed": 1000}
