"""C17 - equality and hashing of tables, schemas and queries are coherent.

Direct contract monitors over generated pairs/triples of live objects:
  a == b  =>  hash(a) == hash(b)   (unhashable on both sides: vacuous), reflexive / symmetric / transitive,
  unchanged by rendering, `x in set(S)` / `x in dict` <=> any(x == s for s in S);
  fields_() / tables_ of an expression vs the (table, column) references it was built from, for every operand order
  and with column names shared between tables;
  consumer-level differentials: star selection and the foreign-table flag agree with a linear search.
"""
from __future__ import annotations

import itertools
import random

from ..fingerprint import contexts
from ..prog import registry

PROP = "C17"
LEVEL = "exploration"
RULE = ("exhaustive cross product name x schema(None/str/list/tuple/Schema/nested) x alias x temporal(none/for_/for_portion) x "
        "query class for tables, each aliased variant also reached through the object's history (used un-aliased: hashed, in a "
        "set, starred; then as_()): all ordered pairs, sampled triples; tables named like the other field's column (x.y / y.x); all pairs of aliased queries / CTEs / builders over "
        "alias x FROM variants; expressions over fields of 1-3 tables with overlapping column names in every operand order "
        "(exhaustive for 2-3 operands, random deeper). non-trivial pair = the two objects differ in at least one attribute "
        "or are distinct objects that compare equal; distinct = pair of variant indexes / expression shape"
        " also: consumer differentials (star selection, foreign-table flag, join and RETURNING validation incl. non-Table sources and several references, replace_table by equality, identity after rejected calls), schema chains of up to four levels. (DESIGN.md 6a)")
ASSUMPTIONS = ["hash collisions between unequal objects are allowed by the contract and are not flagged"]
ANCHORS = ["Table.__eq__", "Table.__hash__", "Schema.__eq__", "AliasedQuery.__eq__", "AliasedQuery.__hash__",
           "QueryBuilder.__eq__", "QueryBuilder.__hash__", "Term.__hash__", "Term.fields_", "Node.find_"]
WORKERS = {"quick": 16, "thorough": 16}


def table_variants():
    reg = registry()
    T, S = reg["Table"], reg["Schema"]
    schemas = [("none", lambda: None), ("str", lambda: "s"), ("list", lambda: ["d", "s"]), ("tuple", lambda: ("d", "s")),
               ("Schema", lambda: S("s")), ("nested", lambda: S("s", parent=S("d"))), ("str2", lambda: "s2"),
               # chains that differ in an outer level only
               ("list-outer2", lambda: ["d2", "s"]), ("nested-outer2", lambda: S("s", parent=S("d2"))),
               ("three", lambda: ["a", "d", "s"]), ("three-outer2", lambda: S("s", parent=S("d", parent=S("b")))),
               # three and four levels given as list / tuple / nested objects, differing in a middle level only
               ("three-nested", lambda: S("s", parent=S("d", parent=S("a")))), ("three-middle2", lambda: ("a", "d2", "s")),
               ("four", lambda: ["h", "a", "d", "s"]), ("four-middle2", lambda: ["h", "a2", "d", "s"]),
               # chains of different depth that share their outer levels
               ("outer-only", lambda: "d"), ("outer-two", lambda: ["a", "d"]), ("inner-two-of-three", lambda: S("s", parent=S("d")))]
    out = []
    for name in ("t", "u"):
        for sn, sf in schemas:
            for alias in (None, "a", "b", name, ""):  # (also: the table's own name as alias, and the empty alias)
                for temporal in ("none", "for", "for2", "portion"):
                    if alias in (name, "") and temporal in ("for2", "portion"):
                        continue
                    for qc in (None, "MySQLQuery"):
                        def mk(name=name, sf=sf, alias=alias, temporal=temporal, qc=qc):
                            t = T(name, schema=sf(), alias=alias, query_cls=reg[qc] if qc else None)
                            if temporal == "for":
                                t = t.for_(reg["SystemTimeValue"]() == "2020-01-01")
                            elif temporal == "for2":
                                t = t.for_(reg["SystemTimeValue"]() == "1999-09-09")
                            elif temporal == "portion":
                                t = t.for_portion(reg["SystemTimeValue"]().from_to("2020", "2021"))
                            return t
                        out.append(({"name": name, "schema": sn, "alias": alias, "temporal": temporal, "qc": qc}, mk))
                    if alias not in (None, name, ""):
                        # the same table reached through the object's history: built un-aliased, hashed / put in a set / asked for
                        # its star, and only then aliased with the builder method (a copy of the used object)
                        def mk2(name=name, sf=sf, alias=alias, temporal=temporal):
                            t = T(name, schema=sf())
                            hash(t)
                            assert t in {t}
                            t.star
                            if temporal == "for":
                                t = t.for_(reg["SystemTimeValue"]() == "2020-01-01")
                            elif temporal == "for2":
                                t = t.for_(reg["SystemTimeValue"]() == "1999-09-09")
                            elif temporal == "portion":
                                t = t.for_portion(reg["SystemTimeValue"]().from_to("2020", "2021"))
                            hash(t)
                            return t.as_(alias)
                        out.append(({"name": name, "schema": sn, "alias": alias, "temporal": temporal, "qc": None, "via": "used-then-as_"}, mk2))
    return out


def other_variants():
    reg = registry()
    out = []
    T = reg["Table"]
    for alias in (None, "x", "y"):
        for frm in ("t", "u", "tu"):
            for cls in ("Query", "PostgreSQLQuery"):
                def mk(alias=alias, frm=frm, cls=cls):
                    q = reg[cls].from_(T(frm[0]))
                    if len(frm) > 1:
                        q = q.from_(T(frm[1]))
                    q = q.select("a")
                    return q.as_(alias) if alias else q
                out.append(({"kind": "builder", "alias": alias, "from": frm, "cls": cls}, mk))
    # set operations compare by alias too (and never equal a plain builder, whatever the alias)
    for alias in (None, "x", "y"):
        for frm in ("t", "u"):
            for op in ("union", "intersect"):
                def mk(alias=alias, frm=frm, op=op):
                    q = getattr(reg["Query"].from_(T(frm)).select("a"), op)(reg["Query"].from_(T("v")).select("a"))
                    return q.as_(alias) if alias else q
                out.append(({"kind": "_SetOperation", "alias": alias, "from": frm, "op": op}, mk))
    for name in ("c1", "c2", "x"):
        for q in (None, "t", "u"):
            for klass in ("AliasedQuery", "Cte"):
                def mk(name=name, q=q, klass=klass):
                    sub = reg["Query"].from_(T(q)).select("a") if q else None
                    return reg[klass](name, sub)
                out.append(({"kind": klass, "name": name, "query": q}, mk))
    S = reg["Schema"]
    for name in ("s", "s2"):
        for parent in (None, "d", "d2"):
            for klass in ("Schema", "Database"):
                out.append(({"kind": klass, "name": name, "parent": parent},
                            lambda name=name, parent=parent, klass=klass: reg[klass](name, parent=S(parent) if parent else None)))
    return out


def cases(tier, seed, shard, nshards):
    tv = table_variants()
    n = len(tv)
    k = 0
    # pairs are processed in blocks (i fixed) to amortise object construction
    for i in range(n):
        k += 1
        if k % nshards == shard:
            yield {"k": "table-row", "i": i}
    ov = other_variants()
    for i in range(len(ov)):
        k += 1
        if k % nshards == shard:
            yield {"k": "other-row", "i": i}
    rnd = random.Random("C17:%d:%d" % (seed, shard))
    for _ in range((30000 if tier == "quick" else 300000) // nshards):
        yield {"k": "triple", "idx": [rnd.randrange(n) for _ in range(3)]}
    # expressions: exhaustive small shapes
    shapes = []
    tabs = ["c", "a", "b"]
    cols = ["x", "y"]
    for (t1, c1), (t2, c2) in itertools.product(itertools.product(tabs, cols), repeat=2):
        for op in ("==", "+", "and"):
            shapes.append({"k": "expr", "e": [op, ["f", t1, c1], ["f", t2, c2]]})
    for (t1, c1), (t2, c2), (t3, c3) in itertools.product(itertools.product(tabs[:3], cols[:1] + ["y"]), repeat=3):
        shapes.append({"k": "expr", "e": ["and", ["==", ["f", t1, c1], ["f", t2, c2]], ["==", ["f", t3, c3], ["c", 1]]]})
        shapes.append({"k": "expr", "e": ["fn", ["f", t1, c1], ["+", ["f", t2, c2], ["f", t3, c3]]]})
    for kind in ("neg", "all", "extract", "cast", "attz", "values", "not", "isnull"):
        for t1, c1 in itertools.product(tabs, cols):
            shapes.append({"k": "expr", "e": ["==", [kind, ["f", t1, c1]], ["f", "a", "x"]]})
    for kind in ("aggfilter", "over", "anorder", "tuple", "like", "in"):
        for (t1, c1), (t2, c2) in itertools.product(itertools.product(tabs, cols), repeat=2):
            shapes.append({"k": "expr", "e": [kind, ["f", t1, c1], ["f", t2, c2]]})
    # mirrored names: column named like the other field's table, columns named like their own table
    st = ["a", "as1", "as2", "as3"]
    for (t1, t2) in itertools.product(st, repeat=2):
        for op in ("==", "+", "and", "fn", "tuple", "in", "like"):
            shapes.append({"k": "expr", "e": [op, ["f", t1, "x"], ["f", t2, "x"]]})
    for (t1, t2, t3) in itertools.product(st, repeat=3):
        shapes.append({"k": "expr", "e": ["and", ["==", ["f", t1, "x"], ["f", t2, "x"]], ["==", ["f", t3, "x"], ["c", 1]]]})
    mt = ["x", "y"]
    for (t1, c1), (t2, c2) in itertools.product(itertools.product(mt, ["x", "y"]), repeat=2):
        for op in ("==", "+", "and", "fn", "tuple"):
            shapes.append({"k": "expr", "e": [op, ["f", t1, c1], ["f", t2, c2]]})
    for (t1, c1), (t2, c2), (t3, c3) in itertools.product(itertools.product(["x", "y"], ["x", "y"]), repeat=3):
        shapes.append({"k": "expr", "e": ["and", ["==", ["f", t1, c1], ["f", t2, c2]], ["==", ["f", t3, c3], ["c", 1]]]})
    for s in shapes:
        k += 1
        if k % nshards == shard:
            yield s
    for _ in range((30000 if tier == "quick" else 600000) // nshards):
        yield {"k": "expr", "e": random_expr(rnd, rnd.randint(2, 5))}
    for i in range(len(CONSUMERS)):
        k += 1
        if k % nshards == shard:
            yield {"k": "consumer", "i": i}


def random_expr(rnd, depth):
    if depth <= 0 or rnd.random() < 0.25:
        if rnd.random() < 0.85:
            return ["f", rnd.choice(["a", "b", "c", "a2", "x", "y", "as1", "as2"]), rnd.choice(["x", "y", "z"])]
        return ["c", rnd.choice([1, "s", None])]
    op = rnd.choice(["==", "+", "-", "and", "or", "fn", "case", "in", "between", "neg", "not", "isnull", "alias",
                     "all", "extract", "aggfilter", "over", "anorder", "cast", "tuple", "like", "period"])
    if op in ("attz", "values"):
        return [op, ["f", rnd.choice(["a", "b", "c"]), rnd.choice(["x", "y"])]]
    if op in ("neg", "not", "isnull", "alias", "all", "extract", "cast"):
        return [op, random_expr(rnd, depth - 1)]
    if op == "period":
        return [op, random_expr(rnd, depth - 1), random_expr(rnd, depth - 1), random_expr(rnd, depth - 1)]
    if op in ("case", "between"):
        return [op, random_expr(rnd, depth - 1), random_expr(rnd, depth - 1), random_expr(rnd, depth - 1)]
    return [op, random_expr(rnd, depth - 1), random_expr(rnd, depth - 1)]


def build_expr(e, tables, refs):
    reg = registry()
    k = e[0]
    if k == "f":
        refs.add((e[1], e[2]))
        return tables[e[1]].field(e[2])
    if k == "c":
        return reg["ValueWrapper"](e[1]) if e[1] is not None else reg["NullValue"]()
    a = build_expr(e[1], tables, refs)
    if k == "neg":
        return -a
    if k == "not":
        return ~a
    if k == "isnull":
        return a.isnull()
    if k == "alias":
        return a.as_("al")
    if k == "all":
        return a.all_()
    if k == "extract":
        return reg["fn.Extract"](reg["DatePart"].year, a)
    if k == "cast":
        return reg["fn.Cast"](a, "INTEGER")
    if k == "attz":
        return reg["AtTimezone"](a, "UTC")
    if k == "values":
        return reg["Values"](a)
    b = build_expr(e[2], tables, refs)
    if k == "aggfilter":
        return reg["fn.Sum"](a).filter(b if isinstance(b, reg["Criterion"]) else b.isnull())
    if k == "over":
        return reg["an.Sum"](a).over(b)
    if k == "anorder":
        return reg["an.Rank"]().orderby(a, b)
    if k == "tuple":
        return reg["Tuple"](a, b)
    if k == "like":
        return a.like(b)
    if k == "==":
        return reg["BasicCriterion"](reg["Equality"].eq, a, b)
    if k == "+":
        return a + b
    if k == "-":
        return a - b
    if k in ("and", "or"):
        if not isinstance(a, reg["Criterion"]):
            a = a.isnull()
        if not isinstance(b, reg["Criterion"]):
            b = b.isnull()
        return a & b if k == "and" else a | b
    if k == "fn":
        return reg["fn.Coalesce"](a, b)
    if k == "in":
        return a.isin([b, 1])
    c = build_expr(e[3], tables, refs)
    if k == "case":
        if not isinstance(a, reg["Criterion"]):
            a = a.isnull()
        return reg["Case"]().when(a, b).else_(c)
    if k == "between":
        return a.between(b, c)
    if k == "period":
        return a.from_to(b, c)
    raise ValueError(k)


def h(o):
    try:
        return hash(o)
    except TypeError:
        return None


SCHEMA_CHAIN = {"none": (), "str": ("s",), "list": ("d", "s"), "tuple": ("d", "s"), "Schema": ("s",), "nested": ("d", "s"), "str2": ("s2",),
                "list-outer2": ("d2", "s"), "nested-outer2": ("d2", "s"), "three": ("a", "d", "s"), "three-outer2": ("b", "d", "s"),
                "three-nested": ("a", "d", "s"), "three-middle2": ("a", "d2", "s"), "four": ("h", "a", "d", "s"), "four-middle2": ("h", "a2", "d", "s"),
                "outer-only": ("d",), "outer-two": ("a", "d"), "inner-two-of-three": ("d", "s")}


def check_pair(mon, a, b, da, db, klass):
    """Contract checks for one ordered pair. Returns True on violation."""
    e1 = (a == b)
    e2 = (b == a)
    n1 = (a != b)
    mon.count("pair_comparisons")
    if klass == "Table" and isinstance(e1, bool):
        # table equality is equality of (name, schema chain, alias): neither coarser nor finer
        want = (da["name"], SCHEMA_CHAIN[da["schema"]], da["alias"]) == (db["name"], SCHEMA_CHAIN[db["schema"]], db["alias"])
        mon.count("table_identity_checks")
        if e1 != want:
            mon.violation("Table:eq-differs-from-identity:%s" % ("too-coarse" if e1 else "too-fine"),
                          "a == b is %s for %r / %r, whose (name, schema chain, alias) are %s" % (e1, da, db, "equal" if want else "different"))
            return True
    if not isinstance(e1, bool) or not isinstance(e2, bool):
        mon.violation("%s:eq-not-boolean" % klass, "== returned %r" % type(e1).__name__)
        return True
    diff = sorted(k for k in set(da) | set(db) if da.get(k) != db.get(k))
    if e1 != e2:
        mon.violation("%s:symmetry:%s" % (klass, ",".join(diff)), "a==b is %s but b==a is %s for %r / %r" % (e1, e2, da, db))
        return True
    if n1 == e1:
        mon.violation("%s:ne-inconsistent:%s" % (klass, ",".join(diff)), "a==b and a!=b are both %s for %r / %r" % (e1, da, db))
        return True
    if e1:
        ha, hb = h(a), h(b)
        mon.count("equal_pairs")
        if ha is not None and hb is not None:
            mon.count("eq_hash_checks")
            if ha != hb:
                mon.violation("%s:eq-hash:%s" % (klass, ",".join(diff) or "-"),
                              "objects compare equal but hash differently: %r vs %r" % (da, db), {"a": da, "b": db})
                return True
        elif (ha is None) != (hb is None):
            mon.violation("%s:hashability-differs" % klass, "one of two equal objects is unhashable")
            return True
    return False


def render_all(o):
    for ctx in contexts().values():
        try:
            o.get_sql(ctx)
        except Exception:
            pass
    try:
        str(o)
    except Exception:
        pass


def run_table_row(case, mon):
    tv = table_variants()
    da, mka = tv[case["i"]]
    a = mka()
    if a != a or not (a == a):
        mon.violation("Table:reflexive", "a == a is False for %r" % da)
        return
    objs = [(d, mk()) for d, mk in tv]
    h0 = h(a)
    for db, b in objs:
        if check_pair(mon, a, b, da, db, "Table"):
            return
    mon.nontrivial(["table-row", case["i"]])
    # equality/hash unchanged by rendering
    eq_before = [a == b for _, b in objs]
    render_all(a)
    for _, b in objs[::7]:
        render_all(b)
    if [a == b for _, b in objs] != eq_before or h(a) != h0:
        mon.violation("Table:changed-by-render", "equality or hash of %r changed after rendering" % da)
        return
    mon.count("render_stability_checks")
    # membership in sets / dicts vs linear search
    rnd = random.Random(case["i"])
    for _ in range(12):
        S = [b for _, b in rnd.sample(objs, rnd.randint(1, 12))]
        lin = any(a == s for s in S)
        try:
            in_set = a in set(S)
            in_dict = a in {s: 1 for s in S}
        except TypeError:
            continue
        mon.count("membership_checks")
        if in_set != lin or in_dict != lin:
            mon.violation("Table:membership:%s" % da["temporal"], "x in set(S) is %s but linear search with == is %s; x=%r" % (in_set, lin, da),
                          {"x": da})
            return


def run_other_row(case, mon):
    ov = other_variants()
    da, mka = ov[case["i"]]
    a = mka()
    klass = da["kind"] if da["kind"] != "builder" else "QueryBuilder"
    if not (a == a):
        mon.violation("%s:reflexive" % klass, "a == a is False for %r" % da)
        return
    objs = [(d, mk()) for d, mk in ov]
    for db, b in objs:
        if check_pair(mon, a, b, da, db, klass):
            return
    mon.nontrivial(["other-row", case["i"]])
    h0 = h(a)
    eq_before = [a == b for _, b in objs]
    if hasattr(a, "get_sql"):
        render_all(a)
    if [a == b for _, b in objs] != eq_before or h(a) != h0:
        mon.violation("%s:changed-by-render" % klass, "equality or hash of %r changed after rendering" % da)
        return
    same = [b for d, b in objs if d["kind"] == da["kind"]]
    rnd = random.Random(case["i"])
    for rep in range(12):
        if rep == 8:
            same = [b for d, b in objs if d["kind"] not in ("Schema", "Database")]  # mixed kinds: builders, set operations, CTE references
        S = rnd.sample(same, rnd.randint(1, min(6, len(same))))
        lin = any(a == s for s in S)
        try:
            in_set = a in set(S)
        except TypeError:
            mon.count("unhashable_membership_skipped")
            continue
        mon.count("membership_checks")
        if in_set != lin:
            mon.violation("%s:membership" % klass, "x in set(S) is %s but linear search with == is %s; x=%r" % (in_set, lin, da))
            return


def run_triple(case, mon):
    tv = table_variants()
    (da, a), (db, b), (dc, c) = [(tv[i][0], tv[i][1]()) for i in case["idx"]]
    mon.count("transitivity_checks")
    if a == b and b == c and not a == c:
        mon.violation("Table:transitivity", "a==b and b==c but not a==c: %r %r %r" % (da, db, dc))
    if a == b and b == c:
        mon.nontrivial(case)


def run_expr(case, mon):
    reg = registry()
    T = reg["Table"]
    tables = {"a": T("ta"), "b": T("tb"), "c": T("tc"), "a2": T("ta", alias="z"),
              # tables named like the columns: "x"."y" next to "y"."x", and columns named like their table
              # (an alias equal to another table's name is not used: the two sources would carry the same qualified name)
              "x": T("x"), "y": T("y"),
              # same table name and alias, different schema (the namespace of a column reference does not show the schema)
              "as1": T("ta", schema="s1"), "as2": T("ta", schema=["d", "s1"]), "as3": T("ta", schema="s3")}
    refs = set()
    try:
        e = build_expr(case["e"], tables, refs)
    except (AttributeError, TypeError):
        mon.count("expr_unbuildable")
        return
    if not hasattr(e, "fields_"):
        return
    mon.count("expressions")
    got = set()
    for f in e.fields_():
        tn = [k for k, t in tables.items() if f.table is t]
        got.add((tn[0] if tn else "?", f.name))
    if len(refs) >= 2:
        mon.nontrivial(case["e"])
    if got != refs:
        missing = sorted(refs - got)
        shared = any(sum(1 for (t, c) in refs if c == col) > 1 for (_, col) in missing)
        mon.violation("Field:fields_-incomplete:%s" % ("same-column-name-other-table" if shared else "other"),
                      "fields_() returned %s but the expression refers to %s" % (sorted(got), sorted(refs)), {"expr": case["e"]})
        return
    tgot = set()
    for t in e.tables_:
        tn = [k for k, tt in tables.items() if t is tt or (t == tt and t.alias == tt.alias)]
        tgot.add(tn[0] if tn else "?")
    twant = {t for t, _ in refs}
    mon.count("tables_checks")
    if tgot != twant:
        mon.violation("Term:tables_-incomplete", "tables_ returned %s but the expression refers to %s" % (sorted(tgot), sorted(twant)),
                      {"expr": case["e"]})
        return
    # hashing a term is stable across renders and usable for membership
    try:
        h1 = hash(e)
        render_all(e)
        h2 = hash(e)
        mon.count("term_hash_stability_checks")
        if h1 != h2 or e not in {e}:
            mon.violation("Term:hash-unstable", "hash of the expression changed after rendering, or it is not found in a set holding it",
                          {"expr": case["e"]})
            return
    except TypeError:
        mon.count("term_unhashable")
    if mon.evaluations % 301 == 1:
        mon.sample({"expr": case["e"], "fields": sorted(got)})


def _consumer_star_temporal():
    """select(t.star) then a field of an equal table with a temporal clause: star handling does set membership."""
    reg = registry()
    T = reg["Table"]
    t = T("t")
    t2 = T("t").for_(reg["SystemTimeValue"]() == "2020")
    q = reg["Query"].from_(t).select(t.star, t2.x)
    lin = any(t2 == s for s in [t])
    return "star-selection", ('"x"' not in q.get_sql()) == lin, q.get_sql()


def _consumer_foreign_same_column(order):
    reg = registry()
    T = reg["Table"]
    a, c = T("ta"), T("tc")
    crit = (c.x == a.x) if order == 0 else (a.x == c.x)
    q = reg["Query"].from_(a).select(a.x).where(crit)
    sql = q.get_sql()
    # a table outside the statement's sources is referenced -> every reference must be qualified
    return "foreign-table-flag", '"ta"."x"' in sql and '"tc"."x"' in sql, sql


def _consumer_join_same_column(order):
    reg = registry()
    T = reg["Table"]
    a, b, c = T("ta"), T("tb"), T("tc")
    crit = (c.x == b.x) if order == 0 else (b.x == c.x)
    try:
        reg["Query"].from_(a).select(a.x).join(b).on(crit)
        return "join-validation", False, "join on a criterion naming table tc (not in the query) was accepted"
    except reg["JoinException"]:
        return "join-validation", True, ""


def _consumer_returning_temporal():
    reg = registry()
    T = reg["Table"]
    t = T("t")
    t2 = T("t").for_(reg["SystemTimeValue"]() == "2020")
    try:
        reg["PostgreSQLQuery"].into(t).insert(1).returning(t2.id)
        return "returning-validation", True, ""
    except reg["QueryException"]:
        return "returning-validation", False, "RETURNING a column of an equal table (== is True) was rejected"


def _consumer_self_join_alias_after_hash():
    """A self-joined table is hashed during validation and then given its automatic alias in place: afterwards it must hash and
    compare like an independently built table of that name and alias."""
    reg = registry()
    T = reg["Table"]
    base, item = T("t"), T("t")
    hash(item)
    seen = {item}
    q = reg["Query"].from_(base).select(base.a).join(item).on(base.id == item.parent)
    twin = T("t", alias=item.alias)
    ok = item.alias is not None and (item == twin) and hash(item) == hash(twin) and (twin in {item}) == any(twin == s for s in [item])
    return "auto-alias-rehash", ok, "self-joined table alias=%r hash(item)==hash(twin): %s" % (item.alias, hash(item) == hash(twin))


def _consumer_star_after_hashed_alias():
    """base table used (hashed, starred) before .as_(): selecting alias.* then alias.col must drop the column (same table)."""
    reg = registry()
    T = reg["Table"]
    base = T("abc")
    hash(base)
    reg["Query"].from_(base).select(base.star, base.foo).get_sql()
    a = base.as_("a")
    q = reg["Query"].from_(a).select(a.star, T("abc", alias="a").foo)
    sql = q.get_sql()
    return "star-selection", '"foo"' not in sql, sql


def _consumer_join_mirrored_names(order):
    """child.parent = parent.child with only one of the two tables in the query: the join validation must see both tables."""
    reg = registry()
    T = reg["Table"]
    child, parent, other = T("child"), T("parent"), T("other")
    crit = (parent.child == child.parent) if order == 0 else (child.parent == parent.child)
    try:
        reg["Query"].from_(child).select(child.id).join(other).on(crit)
        return "join-validation", False, "join criterion naming table parent (not in the query) was accepted (order %d)" % order
    except reg["JoinException"]:
        return "join-validation", True, ""


def _consumer_select_after_replace_table(star):
    """The star-selection set after replace_table: a column of the new table selected afterwards is kept unless table.* really was selected."""
    reg = registry()
    T = reg["Table"]
    a, b = T("ta"), T("tb")
    q = reg["Query"].from_(a).select(a.star if star else a.x).replace_table(a, b).select(b.y)
    sql = q.get_sql()
    return "star-selection", ('"y"' in sql) != star, sql


def _consumer_select_after_unrelated_replace():
    reg = registry()
    T = reg["Table"]
    a, b, c = T("ta"), T("tb"), T("tc")
    q = reg["Query"].from_(a).select(a.x).replace_table(c, b).select(b.y)
    sql = q.get_sql()
    return "star-selection", '"y"' in sql, sql


def _consumer_join_non_table_source(kind, order, known):
    """Row sources that are not Table objects (derived table, CTE reference, set operation) take part in the membership test too."""
    reg = registry()
    T, Q = reg["Table"], reg["Query"]
    a, b, c = T("ta"), T("tb"), T("tc")
    if kind == "subquery":
        src = Q.from_(c).select(c.x).as_("s")
    elif kind == "cte":
        src = reg["AliasedQuery"]("cq")
    else:
        src = Q.from_(c).select(c.x).union(Q.from_(c).select(c.y)).as_("u")
    crit = (src.x == b.x) if order == 0 else (b.x == src.x)
    crit = (a.x == b.x) & crit
    q = Q.from_(a).select(a.x)
    if known:  # the source is part of the statement (FROM / WITH): a linear search finds it
        q = q.with_(Q.from_(c).select(c.x), "cq") if kind == "cte" else q.from_(src)
    try:
        q.join(b).on(crit)
        accepted = True
    except reg["JoinException"]:
        accepted = False
    if accepted != known:
        return "join-validation", False, "join criterion naming the %s %s, which %s a source of the statement, was %s" % (
            kind, getattr(src, "alias", None) or getattr(src, "name", "?"), "is" if known else "is not", "accepted" if accepted else "rejected")
    return "join-validation", True, ""


def _consumer_returning_mixed(order, stmt):
    """A RETURNING term with several column references: every one of them is looked up, not just one."""
    reg = registry()
    T, Q = reg["Table"], reg["PostgreSQLQuery"]
    own, other = T("town"), T("tother")
    term = (own.a + other.a) if order == 0 else (other.a + own.a)
    if order == 2:
        term = (own.a + own.b) * (own.c - other.a)  # (functions are refused in RETURNING whatever they refer to: arithmetic only)
    q = Q.into(own).insert(1) if stmt == "insert" else (Q.update(own).set(own.a, 1) if stmt == "update" else Q.from_(own).delete())
    try:
        q.returning(term)
        return "returning-validation", False, "RETURNING %s (one column of a table outside the %s statement) was accepted" % (term, stmt)
    except reg["QueryException"]:
        pass
    try:
        q.returning(own.a + own.b, (own.a + 1) * (own.b - own.c))
    except reg["QueryException"]:
        return "returning-validation", False, "RETURNING terms over the statement's own table only were rejected"
    return "returning-validation", True, ""


def _consumer_rejected_join_keeps_identity(kind):
    """A table keeps its identity (==, hash, membership) through calls that were rejected."""
    reg = registry()
    T, Q = reg["Table"], reg["Query"]
    a, t = T("abc"), T("abc")
    held = {t: "v"}
    h0 = hash(t)
    try:
        if kind == "self-join-foreign-criterion":
            Q.from_(a).select(a.x).join(t).on(t.id == T("elsewhere").id)
        elif kind == "join-unknown-cte":
            Q.from_(a).select(a.x).join(t).on(t.id == reg["AliasedQuery"]("nowhere").id)
        else:
            reg["PostgreSQLQuery"].into(a).insert(1).returning(T("other").id, t.id)
        return "identity-after-rejected-call", False, "the %s call was not rejected" % kind
    except (reg["JoinException"], reg["QueryException"]):
        pass
    ok = t == T("abc") and hash(t) == h0 and t in held and any(k_ == t for k_ in held) and T("abc") in held
    return "identity-after-rejected-call", ok, "after a rejected %s the table compares %s to an equal one, hash %s, found in a dict by hash: %s" % (
        kind, t == T("abc"), "unchanged" if hash(t) == h0 else "changed", t in held)


def _consumer_replace_table_equal_object(how):
    """replace_table finds the table to replace by ==, wherever it stands (FROM, join item, criterion), not by object identity."""
    reg = registry()
    T, Q = reg["Table"], reg["Query"]
    a, b, c = T("ta"), T("tb", schema="s"), T("tc")
    q = Q.from_(a).select(a.x, b.y)
    q = {"on": lambda: q.join(b).on(a.id == b.id), "using": lambda: q.join(b).using("id"), "cross": lambda: q.join(b).cross(),
         "from": lambda: q.from_(b).where(a.id == b.id)}[how]()
    same_obj = q.replace_table(b, c).get_sql()
    equal_obj = q.replace_table(T("tb", schema="s"), c).get_sql()
    via_schema = q.replace_table(reg["Schema"]("s").tb, c).get_sql()
    ok = same_obj == equal_obj == via_schema and '"tb"' not in same_obj
    return "replace-table-by-equality", ok, "replace_table(%s) with the very object gives %r, with an equal object %r, with schema.tb %r" % (how, same_obj[:160], equal_obj[:160], via_schema[:160])


def _consumer_render_keeps_inner_identity(route):
    """Rendering a statement changes neither what the builders inside it equal nor how they hash (sets and dicts keep finding them)."""
    reg = registry()
    T, Q = reg["Table"], reg["Query"]
    t, u = T("ta"), T("tb")
    inner = Q.from_(u).select(u.x)                      # a builder without a name
    so = Q.from_(u).select(u.x).union(Q.from_(u).select(u.y))
    probe = so if route.endswith("setop") else inner
    held = {probe: 1}
    h0, e0 = hash(probe), probe == Q.from_(u).select(u.x)
    if route.startswith("replace_table"):
        outer = Q.from_(t).select(t.x).replace_table(t, probe)   # routed into FROM without from_()'s naming
    elif route.startswith("in"):
        outer = Q.from_(t).select(t.x).where(t.x.isin(probe))
    elif route.startswith("cte"):
        outer = Q.with_(probe, "c9").from_(reg["AliasedQuery"]("c9")).select("x")
    else:
        outer = Q.from_(t).select(t.x, probe)
    for ctx_name in ("Query", "MySQLQuery", "PostgreSQLQuery"):
        try:
            outer.get_sql(reg[ctx_name].SQL_CONTEXT)
            str(outer)
        except Exception:
            pass
    ok = hash(probe) == h0 and (probe == Q.from_(u).select(u.x)) == e0 and probe in held and any(k_ is probe for k_ in held)
    return "render-keeps-identity", ok, "after rendering the outer statement (%s) the inner builder hashes %s, is found in a dict: %s, alias %r" % (
        route, "the same" if hash(probe) == h0 else "differently", probe in held, getattr(probe, "alias", None))


CONSUMERS = [
    ("select-after-replace_table", lambda: _consumer_select_after_replace_table(False)),
    ("select-after-replace_table-star", lambda: _consumer_select_after_replace_table(True)),
    ("select-after-unrelated-replace_table", _consumer_select_after_unrelated_replace),
    ("self-join-alias-after-hash", _consumer_self_join_alias_after_hash),
    ("star-after-hashed-alias", _consumer_star_after_hashed_alias),
    ("join-mirrored-names-0", lambda: _consumer_join_mirrored_names(0)),
    ("join-mirrored-names-1", lambda: _consumer_join_mirrored_names(1)),
    ("star-temporal", _consumer_star_temporal),
    ("foreign-same-column-0", lambda: _consumer_foreign_same_column(0)),
    ("foreign-same-column-1", lambda: _consumer_foreign_same_column(1)),
    ("join-same-column-0", lambda: _consumer_join_same_column(0)),
    ("join-same-column-1", lambda: _consumer_join_same_column(1)),
    ("returning-temporal", _consumer_returning_temporal),
    ("replace-table-equal-object-on", lambda: _consumer_replace_table_equal_object("on")),
    ("replace-table-equal-object-using", lambda: _consumer_replace_table_equal_object("using")),
    ("replace-table-equal-object-cross", lambda: _consumer_replace_table_equal_object("cross")),
    ("replace-table-equal-object-from", lambda: _consumer_replace_table_equal_object("from")),
] + [("render-keeps-inner-identity-%s" % r_, (lambda r_=r_: _consumer_render_keeps_inner_identity(r_)))
     for r_ in ("replace_table", "replace_table-setop", "in", "in-setop", "cte", "cte-setop", "select-item")] + [
    ("rejected-self-join-keeps-identity", lambda: _consumer_rejected_join_keeps_identity("self-join-foreign-criterion")),
    ("rejected-cte-join-keeps-identity", lambda: _consumer_rejected_join_keeps_identity("join-unknown-cte")),
    ("rejected-returning-keeps-identity", lambda: _consumer_rejected_join_keeps_identity("returning")),
] + [("join-non-table-source-%s-%d-%s" % (k_, o_, "known" if kn_ else "unknown"), (lambda k_=k_, o_=o_, kn_=kn_: _consumer_join_non_table_source(k_, o_, kn_)))
     for k_ in ("subquery", "cte", "setop") for o_ in (0, 1) for kn_ in (False, True)] + [
    ("returning-mixed-%d-%s" % (o_, st_), (lambda o_=o_, st_=st_: _consumer_returning_mixed(o_, st_))) for o_ in (0, 1, 2) for st_ in ("insert", "update", "delete")
] + [
]


def run_consumer(case, mon):
    name, fn = CONSUMERS[case["i"]]
    what, ok, detail = fn()
    mon.count("consumer_differentials")
    mon.nontrivial(["consumer", name])
    if not ok:
        mon.violation("consumer:%s:%s" % (what, name), "the library's own set-based check disagrees with a linear search with ==: %s" % detail)


def run_case(case, mon):
    {"table-row": run_table_row, "other-row": run_other_row, "triple": run_triple, "expr": run_expr,
     "consumer": run_consumer}[case["k"]](case, mon)


def coverage_extra(m, tier):
    return {"exhaustive": True, "table_variants": len(table_variants()), "other_variants": len(other_variants()),
            "explanation": "all ordered pairs of the table/other variants are compared on both tiers"}


def FLOORS(tier):
    return {"pair_comparisons": 50000, "eq_hash_checks": 500, "membership_checks": 1000, "expressions": 500,
            "consumer_differentials": 6}
