"""C11 - column references are qualified exactly when needed and always by the right name.

Statements are generated from a specification (sources, joins, which source every clause's columns come from).
Every Field gets a unique column name, so its occurrence in the rendered token stream is unambiguous; the qualifier
tokens in front of it are compared with a reference scope model computed from the specification: aliased source =>
always qualified with the alias; more than one row source in scope (joins, several FROM items, subquery in FROM,
UPDATE..FROM, WHERE naming a table outside the statement) => qualified with the source's name; otherwise bare;
INSERT column lists, SET targets, ON CONFLICT targets and USING columns stay bare.  Same-column-name pairs are
checked through Field.get_sql render events.  SQLite prepares the statement against a schema in which every table has
every column, so a missing qualifier is 'ambiguous column name' and a wrong one 'no such column'.
"""
from __future__ import annotations

import random
import sqlite3

from .. import hooks
from ..fingerprint import contexts
from ..lex import DIALECT_OF, tokenize
from ..prog import DIALECT_CLASSES, registry

PROP = "C11"
LEVEL = "exploration"
RULE = ("exhaustive product statement kind x source shapes (plain, aliased, schema-qualified, subquery, set operation, CTE) x number of "
        "sources (1-3: second FROM item / join / UPDATE..FROM / foreign table in WHERE) x clause (select, on, using, where, group by, "
        "having, order by, set, insert columns, returning, on conflict) x operand order for shared column names x six dialect "
        "classes x fields attached to the source object itself or to an equal, independently built twin; the outside source of a "
        "foreign WHERE and the item of a USING join take every source shape; seeded random specifications on top. non-trivial = at least two sources or an aliased source; distinct = the "
        "specification"
        " also: automatic aliases at depth 0 (engine-checked), window partition / order keys, columns given as strings, valueless do_update, the foreign reference anywhere in the criterion. (DESIGN.md 6a)")
ASSUMPTIONS = ["reference scope model as stated in the property; a subquery anywhere in FROM counts as 'subquery in FROM'",
               "SQLite prepare for SQLite-dialect SELECT/UPDATE/DELETE/INSERT statements over plain/aliased/subquery sources"]
ANCHORS = ["QueryBuilder.get_sql", "Field.get_sql", "Star.get_sql", "Table.get_table_name", "Selectable.get_table_name",
           "QueryBuilder._columns_sql", "QueryBuilder._set_sql", "QueryBuilder._on_conflict_action_sql", "JoinUsing.get_sql",
           "QueryBuilder._validate_table"]
WORKERS = {"quick": 16, "thorough": 16}
# cases the check sets aside instead of judging, as a share of all cases (more than that makes a run inconclusive)
CEILING_RATIOS = {"unbuildable": 0.005, "render_raises": 0.005, "sqlite_other_errors": 0.05}

SHAPES = ["plain", "aliased", "schema", "schema-aliased", "subquery", "setop", "cte"]
CLAUSES = ["select", "where", "groupby", "having", "orderby", "function", "case"]


def R():
    return registry()


class Ctr:
    def __init__(self):
        self.n = 0

    def col(self):
        self.n += 1
        return "c%d" % self.n


def make_source(Q, shape, name):
    """(selectable, qualifier name, always_qualified, cte body or None)"""
    r = R()
    T = r["Table"]
    if shape == "plain":
        return T(name), name, False, None
    if shape == "aliased":
        return T(name, alias=name + "_a"), name + "_a", True, None
    if shape == "schema":
        return T(name, schema="sch"), name, False, None
    if shape == "schema-aliased":
        return T(name, schema=["db", "sch"], alias=name + "_sa"), name + "_sa", True, None
    if shape == "subquery":
        inner = T(name + "_base")
        return Q.from_(inner).select(inner.star).as_(name + "_sq"), name + "_sq", True, None
    if shape == "setop":
        i1, i2 = T(name + "_b1"), T(name + "_b2")
        # (its own ORDER BY names a result column: written bare wherever the set operation is embedded)
        return Q.from_(i1).select(i1.star).union(Q.from_(i2).select(i2.star)).orderby(i1.field("so_ord"), "so_str").as_(name + "_so"), name + "_so", True, None
    if shape == "cte":
        inner = T(name + "_base")
        return r["AliasedQuery"](name + "_cte"), name + "_cte", True, Q.from_(inner).select(inner.star)
    raise ValueError(shape)


def cases(tier, seed, shard, nshards):
    k = 0
    for d in DIALECT_CLASSES:
        for kind in ("select", "update", "delete", "insert"):
            for s0 in SHAPES:
                if kind != "select" and s0 in ("subquery", "setop", "cte"):
                    continue
                for second in ("none", "from", "join", "join-using", "foreign-where", "update-from", "join-subquery", "join-aliased-self", "insert-select-join"):
                    if second == "update-from" and kind != "update":
                        continue
                    if second == "insert-select-join" and kind != "insert":
                        continue
                    if kind in ("insert", "delete") and second not in ("none", "foreign-where") and not (kind == "insert" and second == "insert-select-join"):
                        continue
                    for s1 in (SHAPES if second in ("from", "join", "join-using") else ["plain"]):
                        k += 1
                        if k % nshards == shard:
                            yield {"d": d, "kind": kind, "s0": s0, "second": second, "s1": s1, "third": False, "samecol": False, "order": 0}
                            # the fields hang on equal but distinct objects of their sources (update("t") by name, two Table("t"), a copy)
                            yield {"d": d, "kind": kind, "s0": s0, "second": second, "s1": s1, "third": False, "samecol": False, "order": 0, "twin": True}
                            if second == "foreign-where":
                                yield {"d": d, "kind": kind, "s0": s0, "second": second, "s1": s1, "third": False, "samecol": False, "order": 1}
                                # the outside source named by the WHERE clause is itself any shape (derived table, CTE reference, ...)
                                for fs in SHAPES[1:]:
                                    for order in (0, 1):
                                        yield {"d": d, "kind": kind, "s0": s0, "second": second, "s1": s1, "third": False, "samecol": False,
                                               "order": order, "fs": fs}
    for d in DIALECT_CLASSES:
        for second in ("from", "join", "foreign-where", "update-from"):
            for order in (0, 1):
                for s0 in ("plain", "aliased"):
                    for kind in ("select", "update"):
                        if second == "update-from" and kind != "update":
                            continue
                        k += 1
                        if k % nshards == shard:
                            yield {"d": d, "kind": kind, "s0": s0, "second": second, "s1": "plain", "third": False, "samecol": True, "order": order}
    import itertools as _it
    for d in DIALECT_CLASSES:
        for layout in AUTO_LAYOUTS:
            for shapes in _it.product(AUTO_SHAPES, repeat=len(layout)):
                k += 1
                if k % nshards == shard:
                    if tier == "quick" and len(layout) == 4 and (k // nshards) % 4:
                        continue
                    yield {"k": "auto", "d": d, "layout": list(layout), "shapes": list(shapes)}
    rnd = random.Random("C11:%d:%d" % (seed, shard))
    n = (40000 if tier == "quick" else 600000) // nshards
    for i in range(n):
        kind = rnd.choice(["select", "select", "select", "update", "delete", "insert"])
        s0 = rnd.choice(SHAPES if kind == "select" else SHAPES[:4])
        second = rnd.choice(["none", "from", "join", "join-using", "foreign-where", "join-subquery", "join-aliased-self"] +
                            (["update-from"] if kind == "update" else []))
        if kind in ("insert", "delete") and second not in ("none", "foreign-where"):
            second = "none"
        yield {"d": DIALECT_CLASSES[i % 6], "kind": kind, "s0": s0, "second": second, "s1": rnd.choice(SHAPES), "third": rnd.random() < 0.3,
               "samecol": rnd.random() < 0.3, "order": rnd.randint(0, 1), "rnd": rnd.getrandbits(30), "fs": rnd.choice(SHAPES), "twin": rnd.random() < 0.3}


def build(case):
    """Returns (statement, expectations) ; expectations = list of (column name, expected qualifier or None, clause)."""
    r = R()
    d = case["d"]
    Q = r[d]
    T = r["Table"]
    fn = lambda n: r["fn." + n]  # noqa: E731
    c = Ctr()
    rnd = random.Random(case.get("rnd", 0))
    kind, second = case["kind"], case["second"]
    src0, q0, aq0, cte0 = make_source(Q, case["s0"], "t0")
    sources = [(src0, q0, aq0)]
    exp = []
    multi = False
    # ---- statement skeleton
    if kind == "select":
        q = Q.with_(cte0, "t0_cte").from_(src0) if cte0 is not None else Q.from_(src0)
        if case["s0"] in ("subquery",):
            multi = True  # subquery in FROM
    elif kind == "update":
        q = Q.update(src0)
    elif kind == "delete":
        q = Q.from_(src0).delete()
    else:
        q = Q.into(src0)
    src1 = None
    using_col = None
    if second in ("from", "join", "update-from", "join-using", "join-subquery", "join-aliased-self"):
        shape1 = case["s1"] if second in ("from", "join", "join-using") else ("subquery" if second == "join-subquery" else "plain")
        if second == "join-aliased-self":
            src1, q1, aq1, cte1 = T("t0", alias="self2"), "self2", True, None
        else:
            src1, q1, aq1, cte1 = make_source(Q, shape1, "t1")
        if cte1 is not None:
            q = q.with_(cte1, "t1_cte")
        sources.append((src1, q1, aq1))
        multi = True
        if second in ("from", "update-from"):
            q = q.from_(src1)
        elif second == "join-using":
            using_col = c.col()
            q = q.join(src1).using(using_col)
            exp.append((using_col, None, "using"))
        else:
            a, b = c.col(), c.col()
            f0, f1 = r["Field"](a, table=src0), r["Field"](b, table=src1)
            q = q.join(src1).on(f0 == f1 if case["order"] == 0 else f1 == f0)
            exp.append((a, "S0", "on"))
            exp.append((b, "S1", "on"))
    if case.get("third") and kind == "select":
        src2, q2, aq2, _ = make_source(Q, "aliased", "t2")
        sources.append((src2, q2, aq2))
        a, b = c.col(), c.col()
        q = q.join(src2).on(r["Field"](a, table=src0) == r["Field"](b, table=src2))
        exp += [(a, "S0", "on"), (b, "S%d" % (len(sources) - 1), "on")]
        multi = True
    foreign = None
    if second == "foreign-where" and kind != "insert":
        foreign, fq, faq, _ = make_source(Q, case.get("fs", "plain"), "outer_t")
        multi = True

    twins = {}
    extra = {}
    case["_extra"] = extra

    def tbl(i):
        """The source object a field is attached to: the source itself, or (twin) an equal object built independently."""
        if not case.get("twin"):
            return sources[i][0]
        if i not in twins:
            shape = case["s0"] if i == 0 else (getattr(sources[i][0], "_pvm_shape", None))
            twins[i] = sources[i][0]
            if isinstance(sources[i][0], r["Table"]):
                import copy as _copy
                twins[i] = _copy.copy(sources[i][0])
        return twins[i]

    def F(i, clause):
        name = c.col()
        exp.append((name, "S%d" % i, clause))
        return r["Field"](name, table=tbl(i))

    import zlib as _z
    ff = case.get("ff") or ["eq", "in-list", "in-list-second", "between-bound", "fn-arg", "arith", "tuple", "case-result", "notin-list"][
        _z.crc32(repr(sorted((k_, repr(v_)) for k_, v_ in case.items() if not k_.startswith("_"))).encode()) % 9]

    def foreign_crit(fa, fb, swapped=False):
        """The criterion that names the foreign table: the reference sits wherever a term may sit (the only one naming that table)."""
        if ff == "in-list":
            return fb.isin([fa, 5])
        if ff == "in-list-second":
            return fb.isin([1, 2, fa])
        if ff == "notin-list":
            return fb.notin((fa, 7))
        if ff == "between-bound":
            return fb.between(0, fa)
        if ff == "fn-arg":
            return fb == fn("Coalesce")(fa, 0)
        if ff == "arith":
            return fb > fa + 1
        if ff == "tuple":
            return r["Tuple"](fb, 1) == r["Tuple"](fa, 1)
        if ff == "case-result":
            return fb == r["Case"]().when(fb > 1, fa).else_(0)
        return (fb == fa) if swapped else (fa == fb)

    def pick():
        return rnd.randrange(len(sources)) if case.get("rnd") is not None and len(sources) > 1 else 0
    # ---- clauses
    if kind == "select":
        q = q.select(F(0, "select"), F(pick(), "select") + 1, fn("Coalesce")(F(pick(), "function"), 0),
                     r["Case"]().when(F(pick(), "case") > 1, F(0, "case")).else_(0))
        if src1 is not None:
            q = q.select(F(1, "select"))
        # the criterion naming the foreign table comes first or last among the where() calls (case["order"])
        if foreign is not None and case["order"] == 1:
            a = c.col()
            q = q.where(foreign_crit(r["Field"](a, table=foreign), F(0, "where")))
            exp.append((a, "FOREIGN", "where"))
        q = q.where(F(0, "where") > 1).where(F(pick(), "where").isin([1, 2]))
        if foreign is not None and case["order"] == 0:
            a = c.col()
            fa, fb = r["Field"](a, table=foreign), F(0, "where")
            q = q.where(foreign_crit(fa, fb, swapped=True))
            exp.append((a, "FOREIGN", "where"))
        q = q.groupby(F(0, "groupby"), F(pick(), "groupby")).having(fn("Count")(F(pick(), "having")) > 1).orderby(F(0, "orderby"), F(pick(), "orderby"))
        # a select alias that is also the name of a column of a source: ORDER BY <source>.<name> means the column
        same = c.col()
        sp = pick()
        q = q.select(fn("Sum")(F(0, "function")).as_(same)).orderby(r["Field"](same, table=tbl(sp)))
        extra["orderby_same_name"] = (same, "S%d" % sp)
        # window functions: partition and order keys (with and without an explicit direction) follow the statement's decision
        an = lambda n: r["an." + n]  # noqa: E731
        q = q.select(an("Rank")().over(F(pick(), "window-partition")).orderby(F(pick(), "window-order-desc"), order=r["Order"].desc).as_("rk"),
                     an("Sum")(F(0, "window-arg")).over(F(0, "window-partition")).orderby(F(pick(), "window-order")).as_("rs"),
                     an("RowNumber")().orderby(F(pick(), "window-order-asc"), order=r["Order"].asc).as_("rn"))
        # columns given as strings belong to the first FROM source
        s1_, s2_ = c.col(), c.col()
        q = q.groupby(s1_).orderby(s2_)
        exp += [(s1_, "S0", "groupby-str"), (s2_, "S0", "orderby-str")]
        # COUNT(<source>.*) keeps its source
        cs = pick()
        q = q.select(fn("Count")(r["Star"](tbl(cs))).as_("cnt_star"))
        extra["count_star"] = "S%d" % cs
    elif kind == "update":
        tgt, tgt2 = c.col(), c.col()
        q = q.set(r["Field"](tgt, table=tbl(0)), F(pick(), "set-value")).set(tgt2, 5)
        # (a Field attached to an *aliased* table is always written with the alias, SET targets included; a name given as a
        #  string has no table and stays bare)
        exp += [(tgt, "ALIASED-ONLY-S0", "set-target"), (tgt2, None, "set-target")]
        q = q.where(F(0, "where") == 1)
        if src1 is not None and second == "update-from":
            q = q.where(F(0, "where") == F(1, "where"))
        if foreign is not None:
            a = c.col()
            q = q.where(r["Field"](a, table=foreign) == F(0, "where"))
            exp.append((a, "FOREIGN", "where"))
    elif kind == "delete":
        q = q.where(F(0, "where") == 1)
        if foreign is not None:
            a = c.col()
            q = q.where(r["Field"](a, table=foreign) == F(0, "where"))
            exp.append((a, "FOREIGN", "where"))
    else:
        a, b = c.col(), c.col()
        q = q.columns(r["Field"](a, table=tbl(0)), b)
        if second == "insert-select-join":
            # fed by a SELECT over two sources: its columns are qualified, the insert/upsert clauses are not
            fu, fv = T("feed_u"), T("feed_v")
            x1, x2, x3, x4 = c.col(), c.col(), c.col(), c.col()
            q = q.from_(fu).join(fv).on(r["Field"](x1, table=fu) == r["Field"](x2, table=fv)).select(r["Field"](x3, table=fu), r["Field"](x4, table=fv))
            exp += [(x1, "FEED_U", "on"), (x2, "FEED_V", "on"), (x3, "FEED_U", "select"), (x4, "FEED_V", "select")]
            # columns given as strings to the feeding SELECT belong to its first source, not to the insert target
            x5, x6 = c.col(), c.col()
            q = q.groupby(x5).orderby(x6)
            exp += [(x5, "FEED_U", "groupby-str"), (x6, "FEED_U", "orderby-str")]
            multi = True  # (RETURNING follows the statement's decision; the column list and the upsert clauses stay bare)
        else:
            q = q.insert(1, 2)
        # (columns() attaches names given as strings to the insert table, so they behave like its Fields)
        exp += [(a, "ALIASED-ONLY-S0", "insert-columns"), (b, "ALIASED-ONLY-S0", "insert-columns")]
        oc, ou = c.col(), c.col()
        q = q.on_conflict(r["Field"](oc, table=tbl(0))).do_update(r["Field"](ou, table=tbl(0)), 7)
        if DIALECT_OF[d] != "mysql":  # ON DUPLICATE KEY UPDATE has no conflict target
            exp.append((oc, "ALIASED-ONLY-S0", "on-conflict-target"))
        exp.append((ou, "ALIASED-ONLY-S0", "on-conflict-update"))
        # an assignment without a value takes the proposed row's column (EXCLUDED.col / VALUES(col)): target and source column
        # are the insert table's, whatever the feeding SELECT looks like
        ou2 = c.col()
        q = q.do_update(r["Field"](ou2, table=tbl(0)))
        exp.append((ou2, "ALIASED-ONLY-S0", "on-conflict-update-proposed"))
        if d == "PostgreSQLQuery":
            q = q.returning(F(0, "returning"))
    if kind in ("update", "delete") and d == "PostgreSQLQuery":
        q = q.returning(F(0, "returning"))
    if kind == "update" and second == "update-from":
        multi = True
    names = {"S%d" % i: s[1] for i, s in enumerate(sources)}
    names["FOREIGN"] = fq if foreign is not None else "outer_t"
    names["FEED_U"], names["FEED_V"] = "feed_u", "feed_v"
    always = {"S%d" % i: s[2] for i, s in enumerate(sources)}
    always["FOREIGN"] = faq if foreign is not None else False
    always["FEED_U"] = always["FEED_V"] = True  # (two sources in the feeding SELECT: always qualified there)
    return q, exp, multi, names, always


def qualifier_of(toks, i):
    """Qualifier name in front of token i ('<ident> .' ), or None."""
    if i >= 2 and toks[i - 1].kind == "PUNCT" and toks[i - 1].text == "." and toks[i - 2].kind == "IDENT":
        return toks[i - 2].value
    return None


AUTO_SHAPES = ["sub", "nested", "nested3", "setop", "setop-of-nested"]
AUTO_LAYOUTS = [("from", "from"), ("from", "join"), ("from", "from", "from"), ("from", "from", "join"), ("from", "join", "join"),
                ("from", "join", "from"), ("from", "join", "join", "join")]


def auto_source(Q, shape, i):
    """An un-aliased derived source whose marker column is m<i> (its innermost table is base<i>)."""
    T = R()["Table"]
    b = T("base%d" % i)
    flat = Q.from_(b).select(b.field("m%d" % i), b.id)
    if shape == "sub":
        return flat
    if shape == "nested":
        return Q.from_(flat).select(flat.field("m%d" % i), flat.id)
    if shape == "nested3":
        mid = Q.from_(flat).select(flat.field("m%d" % i), flat.id)
        return Q.from_(mid).select(mid.field("m%d" % i), mid.id)
    b2 = T("base%d" % i)
    if shape == "setop":
        return flat.union(Q.from_(b2).select(b2.field("m%d" % i), b2.id))
    inner = Q.from_(b2).select(b2.field("m%d" % i), b2.id)
    return Q.from_(inner).select(inner.field("m%d" % i), inner.id).union(flat)


def run_auto(case, mon):
    """Several un-named derived sources in one statement: the automatic names sq<n> must be pairwise different and every
    reference must carry the name of the source it was attached to (checked lexically and by SQLite's name resolution)."""
    r = R()
    d = case["d"]
    Q = r[d]
    fam = DIALECT_OF[d] if d != "Query" else "generic"
    try:
        srcs = [auto_source(Q, sh, i) for i, sh in enumerate(case["shapes"])]
        q = None
        for i, (src, how) in enumerate(zip(srcs, case["layout"])):
            if i == 0:
                q = Q.from_(src)
            elif how == "from":
                q = q.from_(src)
            else:
                q = q.join(src).on(src.id == srcs[0].id)
        q = q.select(*[s_.field("m%d" % i) for i, s_ in enumerate(srcs)])
        for i, s_ in enumerate(srcs[1:], 1):
            if case["layout"][i] == "from":
                q = q.where(s_.id == srcs[0].id)
        sql = q.get_sql(contexts()[d])
    except Exception as e:
        mon.count("auto_alias_unbuildable")
        mon.add("unbuildable", "auto:%s" % type(e).__name__)
        return
    mon.count("auto_alias_statements")
    aliases = [getattr(s_, "alias", None) for s_ in srcs]
    key = "%s:%s" % ("+".join(case["layout"]), fam)
    if None in aliases or len(set(aliases)) != len(aliases):
        mon.violation("auto-alias:duplicate-name:%s" % "+".join(sorted(set(case["shapes"]))), "the un-named sources of one statement were named %s: %r" % (aliases, sql[:300]), {"case": case})
        return
    toks = tokenize(sql, d)
    depth, depths = 0, []
    for tk in toks:
        if tk.kind == "PUNCT" and tk.text == "(":
            depth += 1
        elif tk.kind == "PUNCT" and tk.text == ")":
            depth -= 1
        depths.append(depth)
    for i, al in enumerate(aliases):
        col = "m%d" % i
        for k_, tk in enumerate(toks):
            # references of the outer statement itself (depth 0): nested levels have name scopes of their own
            if depths[k_] == 0 and tk.kind == "IDENT" and tk.value == col and k_ >= 2 and toks[k_ - 1].text == "." and toks[k_ - 2].kind == "IDENT":
                qual = toks[k_ - 2].value
                if qual in aliases and qual != al:
                    mon.violation("auto-alias:reference-to-other-source:%s" % key, "column %s of source %d (%s) is written %s.%s: %r" % (col, i, al, qual, col, sql[:300]))
                    return
                mon.count("references_checked")
    if d in ("SQLLiteQuery", "Query"):
        con = sqlite3.connect(":memory:")
        try:
            con.setconfig(sqlite3.SQLITE_DBCONFIG_DQS_DML, False)
            for i in range(len(srcs)):
                con.execute('CREATE TABLE base%d(id, m%d)' % (i, i))
            con.execute("EXPLAIN " + sql)
            mon.count("sqlite_prepares")
        except sqlite3.Error as e:
            msg = str(e)
            if "ambiguous" in msg or "no such column" in msg:
                mon.violation("auto-alias:engine:%s:%s" % ("ambiguous" if "ambiguous" in msg else "unresolved", key), "SQLite: %s for %r" % (msg, sql[:300]))
                return
            mon.count("sqlite_other_errors")
            mon.add("sqlite_other_errors", msg[:60])
        finally:
            con.close()
    mon.nontrivial(case)


def run_case(case, mon):
    if case.get("k") == "auto":
        return run_auto(case, mon)
    r = R()
    d = case["d"]
    fam = DIALECT_OF[d] if d != "Query" else "generic"
    try:
        q, exp, multi, names, always = build(case)
    except Exception as e:
        mon.count("unbuildable")
        mon.add("unbuildable", "%s:%s:%s" % (case["kind"], case["second"], type(e).__name__))
        return
    try:
        sql = q.get_sql(contexts()[d])
    except Exception as e:
        mon.count("render_raises")
        mon.add("render_raises", "%s:%s" % (type(e).__name__, str(e)[:50]))
        return
    toks = tokenize(sql, d)
    mon.count("statements_rendered")
    mon.add("cells", "%s|%s|%s" % (case["kind"], case["second"], case["s0"]))
    pos = {}
    for i, t in enumerate(toks):
        if t.kind == "IDENT":
            pos.setdefault(t.value, []).append(i)
    ex = case.get("_extra") or {}
    if "orderby_same_name" in ex:
        name, who = ex["orderby_same_name"]
        ob = [i for i, t in enumerate(toks) if t.kind == "WORD" and t.value == "ORDER"]
        occ = [i for i in pos.get(name, []) if ob and i > ob[-1]]
        want = names[who] if (multi or always[who]) else None
        mon.count("references_checked")
        if not occ or qualifier_of(toks, occ[-1]) != want:
            mon.violation("alias-instead-of-column:orderby:%s" % case["second"], "ORDER BY names column %r of source %s (a select item has the same alias): written with qualifier %r, expected %r: %r" % (
                name, who, qualifier_of(toks, occ[-1]) if occ else "<missing>", want, sql[:300]))
            return
        pos.pop(name, None)
    if "count_star" in ex:
        who = ex["count_star"]
        want = names[who] if (multi or always[who]) else None
        got = "<missing>"
        for i, t in enumerate(toks):
            if t.kind == "WORD" and t.value == "COUNT" and i + 2 < len(toks) and toks[i + 1].text == "(":
                j = i + 2
                if toks[j].text == "*":
                    got = None
                elif toks[j].kind == "IDENT" and j + 2 < len(toks) and toks[j + 1].text == "." and toks[j + 2].text == "*":
                    got = toks[j].value
                else:
                    continue
                break
        mon.count("references_checked")
        if got != want:
            mon.violation("star-source:count:%s" % case["second"], "COUNT(<source %s>.*) is written with qualifier %r, expected %r: %r" % (who, got, want, sql[:300]))
            return
    for inner_col in ("so_ord", "so_str"):
        for i in pos.get(inner_col, []):
            mon.count("references_checked")
            if qualifier_of(toks, i) is not None:
                mon.violation("qualified-needlessly:setop-orderby:%s" % case["second"], "the ORDER BY of an embedded set operation is written %s.%s: %r" % (
                    qualifier_of(toks, i), inner_col, sql[:300]))
                return
    for col, who, clause in exp:
        occ = pos.get(col, [])
        if not occ:
            if clause in ("returning",) and case["kind"] == "insert":
                continue
            mon.violation("missing:%s:%s" % (clause, fam), "column %r of clause %s does not occur in %r" % (col, clause, sql[:240]))
            return
        for i in occ:
            got = qualifier_of(toks, i)
            mon.count("references_checked")
            if who is None:
                want = None
            elif who == "BARE-OR-S0":
                want = got if got in (None, names["S0"]) else None
            elif who == "ALIASED-ONLY-S0":
                want = names["S0"] if always["S0"] else None
            else:
                want = names[who] if (multi or always[who]) else None
            if got != want:
                if want is None:
                    fault = "qualified-needlessly"
                elif got is None:
                    fault = "unqualified"
                else:
                    fault = "wrong-qualifier"
                trigger = case["second"] if case["second"] != "none" else ("aliased" if any(v_ for k_, v_ in always.items() if not k_.startswith("FEED")) else "single")
                if case["s0"] == "setop" or (case["s1"] == "setop" and case["second"] in ("from", "join")):
                    trigger += "+setop-source"
                mon.violation("%s:%s:%s:%s" % (fault, clause, trigger, case["kind"]),
                              "column %r (%s, source %s) is written %s, expected %s: %r" % (
                                  col, clause, who, ('"%s".' % got if got else "bare"), ('"%s".' % want if want else "bare"), sql[:300]),
                              {"case": case, "sql": sql})
                return
    if case["kind"] == "update" and case["second"] == "update-from":
        # on_field(): the column of the first FROM item against the joined item's - also in an UPDATE that has a FROM item
        T_ = r["Table"]
        ua, ub, uc = T_("ua"), T_("ub", alias="ubx" if case["order"] else None), T_("uc")
        try:
            q2 = r[d].update(ua).set(ua.x, 1).from_(ub).join(uc).on_field("jf", "jg")
            toks2 = tokenize(q2.get_sql(contexts()[d]), d)
            quals = [(t_.value, qualifier_of(toks2, i_)) for i_, t_ in enumerate(toks2) if t_.kind == "IDENT" and t_.value in ("jf", "jg")]
            mon.count("references_checked", len(quals))
            first = "ubx" if case["order"] else "ub"
            if quals != [("jf", first), ("jf", "uc"), ("jg", first), ("jg", "uc")]:
                mon.violation("wrong-qualifier:on-field:update-from:%s" % fam, "on_field() in UPDATE .. FROM .. JOIN compares %s, expected the first FROM item %r against the joined item: %r" % (
                    quals, first, q2.get_sql(contexts()[d])[:260]))
                return
        except Exception as e:
            mon.count("on_field_update_from_raises")
    if multi or any(always.values()):
        mon.nontrivial(case)
    # same column name on both sides: through Field.get_sql render events
    if case.get("samecol") and case["second"] in ("from", "join", "foreign-where", "update-from"):
        if samecol_check(case, mon, fam):
            return
    if d == "SQLLiteQuery" and case["s0"] in ("plain", "aliased", "subquery") and case["kind"] in ("select", "delete") \
            and case["second"] in ("none", "from", "join", "join-subquery", "join-aliased-self", "join-using") and case["s1"] in ("plain", "aliased", "subquery"):
        engine(sql, exp, mon, case)
    if mon.evaluations % 401 == 1:
        mon.sample({"case": case, "sql": sql[:300]})


def samecol_check(case, mon, fam):
    """c.x == a.x in both operand orders: both references must appear, each with its own qualifier."""
    r = R()
    d = case["d"]
    Q = r[d]
    T = r["Table"]
    a = T("ta") if case["s0"] == "plain" else T("ta", alias="ta_al")
    c = T("tc")
    qa = "ta" if case["s0"] == "plain" else "ta_al"
    fa, fc = r["Field"]("x", table=a), r["Field"]("x", table=c)
    crit = (fc == fa) if case["order"] == 0 else (fa == fc)
    try:
        if case["kind"] == "update":
            q = Q.update(a).set(a.v, 1)
            if case["second"] == "update-from":
                q = q.from_(c)
            q = q.where(crit)
        elif case["second"] == "from":
            q = Q.from_(a).from_(c).select(a.v).where(crit)
        elif case["second"] == "join":
            q = Q.from_(a).select(a.v).join(c).on(crit)
        else:
            q = Q.from_(a).select(a.v).where(crit)
        with hooks.collect() as tree:
            sql = q.get_sql(contexts()[d])
    except Exception as e:
        mon.count("render_raises")
        return False
    emitted = [ev[5] for ev in tree.events if ev and ev[1] == "Field" and isinstance(ev[5], str) and ev[6] in (fa, ) or (ev and ev[6] is fc and isinstance(ev[5], str))]
    toks = tokenize(sql, d)
    quals = [qualifier_of(toks, i) for i, t in enumerate(toks) if t.kind == "IDENT" and t.value == "x"]
    mon.count("same_column_pairs")
    want = sorted([qa, "tc"])
    if sorted(str(x) for x in quals) != want:
        mon.violation("unqualified:where:foreign-table-same-column-name:%s" % case["kind"] if case["second"] == "foreign-where" else
                      "unqualified:%s:same-column-name:%s" % (case["second"], case["kind"]),
                      "columns named alike in two sources (%s order %d) are written with qualifiers %s, expected %s: %r" % (
                          case["second"], case["order"], quals, want, sql[:240]), {"field_events": emitted})
        return True
    return False


def engine(sql, exp, mon, case):
    cols = sorted({c for c, _, _ in exp})
    con = sqlite3.connect(":memory:")
    try:
        con.setconfig(sqlite3.SQLITE_DBCONFIG_DQS_DML, False)
        coldef = ",".join('"%s"' % c for c in cols) or "x"
        for t in ("t0", "t1", "t2", "t0_base", "t1_base", "outer_t"):
            con.execute('CREATE TABLE %s(%s)' % (t, coldef))
        con.execute("EXPLAIN " + sql)
        mon.count("sqlite_prepares")
    except sqlite3.Error as e:
        msg = str(e)
        if "ambiguous column" in msg or "no such column" in msg:
            mon.violation("engine:%s:%s:%s" % ("ambiguous" if "ambiguous" in msg else "unresolved", case["second"], case["kind"]),
                          "SQLite: %s for %r" % (msg, sql[:300]))
        else:
            mon.count("sqlite_other_errors")
            mon.add("sqlite_other_errors", msg[:60])
    finally:
        con.close()


def FLOORS(tier):
    return {"statements_rendered": 3000, "references_checked": 20000, "same_column_pairs": 40, "sqlite_prepares": 100}
