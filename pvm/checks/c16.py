"""C16 - replace_table replaces every reference and nothing else.

For every Term subclass (the zoo, taken from the live modules) at every operand slot, directly and nested, and for
every clause slot of every statement kind: the object is built twice from the same recipe - once over T_old, once
over T_new - replace_table(T_old, T_new) is applied to the first, and the namespace-forced renderings must be equal;
the receiver must render as before, and references to a third table must be untouched.
"""
from __future__ import annotations

import random

from ..fingerprint import contexts
from ..prog import registry
from ..zoo import zoo

PROP = "C16"
LEVEL = "exploration"
RULE = ("complete product zoo entry (one per Term subclass/variant, from the live modules) x operand slot x table pair (plain, "
        "aliased, schema-qualified, None -> plain/aliased/None), directly and nested under every other entry (sampled on the quick "
        "tier); every clause slot of SELECT/INSERT/UPDATE/DELETE/upsert/CTE/subquery statements per dialect class; seeded random "
        "compositions (a mismatch there is a violation of its own); the old table inside a scalar-subquery operand with fields or "
        "plain constants in the other slots; statements holding same-shaped terms over the same column names on two tables, "
        "subqueries in IN lists / tuples / arrays / BETWEEN. non-trivial = the old table occurs in the object; distinct = (recipe, slot, pair)"
        " also: subquery operand forms, twin terms, COLLATE joins, set-operation ORDER BY keys, several FROM sources over the replaced table, continuations of the result, temporal namesakes as old / new pair. (DESIGN.md 6a)")
ASSUMPTIONS = ["renderings are compared under namespace-forced contexts of two dialect classes (generic and MySQL)"]
ANCHORS = ["Term.replace_table", "Field.replace_table", "Tuple.replace_table", "BasicCriterion.replace_table",
           "ContainsCriterion.replace_table", "BetweenCriterion.replace_table", "BitwiseAndCriterion.replace_table",
           "NullCriterion.replace_table", "ArithmeticExpression.replace_table", "Case.replace_table", "Not.replace_table",
           "Function.replace_table", "NestedCriterion.replace_table", "QueryBuilder.replace_table", "Join.replace_table",
           "JoinOn.replace_table", "JoinUsing.replace_table"]
WORKERS = {"quick": 16, "thorough": 16}
# cases the check sets aside instead of judging, as a share of all cases (more than that makes a run inconclusive)
CEILING_RATIOS = {"unbuildable": 0.01, "random_raises": 0.02}

PAIRS = [("plain", "plain"), ("plain", "aliased"), ("aliased", "plain"), ("aliased", "aliased"), ("schema", "plain"),
         ("plain", "schema"), ("none", "plain"), ("plain", "none")]


def mk_table(kind, name):
    reg = registry()
    if kind == "none":
        return None
    if kind == "plain":
        return reg["Table"](name)
    if kind == "aliased":
        return reg["Table"](name, alias=name + "_a")
    if kind == "schema":
        return reg["Table"](name, schema="sc")
    # two tables that compare equal (name, schema, alias) but are different row sources: a temporal table and its plain namesake
    if kind == "temporal-same":
        return reg["Table"]("same").for_(reg["SystemTimeValue"]() == "2020-01-01")
    if kind == "plain-same":
        return reg["Table"]("same")
    if kind == "temporal-same-2":
        return reg["Table"]("same").for_(reg["SystemTimeValue"]() == "1999-09-09")
    raise ValueError(kind)


def fld(table, name):
    reg = registry()
    return reg["Field"](name, table=table)


def rendering(o):
    reg = registry()
    out = []
    for d in ("Query", "MySQLQuery"):
        ctx = contexts()[d].copy(with_namespace=True)
        try:
            out.append(o.get_sql(ctx))
        except Exception as e:
            out.append("<exc:%s>" % type(e).__name__)
    return out


def cases(tier, seed, shard, nshards):
    entries, missing = zoo()
    k = 0
    for ei, e in enumerate(entries):
        for slot in range(e["arity"]):
            for pair in PAIRS:
                k += 1
                if k % nshards == shard:
                    yield {"k": "term", "e": e["label"], "slot": slot, "pair": list(pair), "inner": None}
    # the reference to the old table sits inside a scalar subquery operand; the other operands are fields or plain constants
    for ei, e in enumerate(entries):
        for slot in range(e["arity"]):
            if e["cls"] in ("AtTimezone", "Values"):
                continue  # these constructors take a column (Field or name) only
            for oform in ("field", "const"):
                for pair in PAIRS[:3]:
                    k += 1
                    if k % nshards == shard:
                        yield {"k": "term", "e": e["label"], "slot": slot, "pair": list(pair), "inner": None, "tform": "subquery", "oform": oform}
    # nested: the old table sits one level deeper
    rnd = random.Random("C16:%d:%d" % (seed, shard))
    for ei, e in enumerate(entries):
        for slot in range(e["arity"]):
            for ii, inner in enumerate(entries):
                if e["cls"] in ("AtTimezone", "Values"):
                    continue  # these constructors take a column (Field or name) only, not an expression
                if slot in e["crit_slots"] and not inner["label"].split(":")[0].endswith("Criterion") and inner["cls"] not in ("Not",):
                    continue
                k += 1
                if k % nshards != shard:
                    continue
                if tier == "quick" and (ei * 131 + ii * 17 + slot) % 2:
                    continue
                yield {"k": "term", "e": e["label"], "slot": slot, "pair": list(PAIRS[(ei + ii) % 4]), "inner": inner["label"],
                       "islot": (ei + ii) % max(1, inner["arity"])}
    for d in ("Query", "MySQLQuery", "PostgreSQLQuery", "SQLLiteQuery", "MSSQLQuery", "OracleQuery"):
        for name in STATEMENTS:
            for pair in PAIRS[:6] + [("temporal-same", "plain-same"), ("plain-same", "temporal-same"), ("temporal-same", "temporal-same-2")]:
                k += 1
                if k % nshards == shard:
                    yield {"k": "stmt", "d": d, "s": name, "pair": list(pair)}
                    if not pair[0].endswith("same"):
                        yield {"k": "stmt", "d": d, "s": name, "pair": list(pair), "twin": True}
    n = (16000 if tier == "quick" else 300000) // nshards
    for _ in range(n):
        yield {"k": "random", "seed": rnd.getrandbits(40), "pair": list(rnd.choice(PAIRS[:6]))}


_entries = None


def entry(label):
    global _entries
    if _entries is None:
        _entries = {e["label"]: e for e in zoo()[0]}
    return _entries[label]


def build_term(case, t_target, t_other):
    """The term of the case with t_target at the designated position and t_other everywhere else."""
    reg = registry()
    e = entry(case["e"])
    ops = []
    for i in range(e["arity"]):
        crit = i in e["crit_slots"]
        if i == case["slot"]:
            if case.get("inner"):
                ie = entry(case["inner"])
                iops = [fld(t_target if j == case["islot"] else t_other, "q%d" % j) for j in range(ie["arity"])]
                op = ie["make"](iops)
            elif case.get("tform") == "subquery":
                op = reg["Query"].from_(t_target).select(reg["fn.Max"](fld(t_target, "p%d" % i))).where(fld(t_target, "w") > 0)
            else:
                op = fld(t_target, "p%d" % i)
        elif case.get("oform") == "const":
            op = reg["ValueWrapper"](7 + i)
        else:
            op = fld(t_other, "p%d" % i)
        ops.append(op)
    return e["make"](ops)


def check(mon, key, built_old, built_new, t_old, t_new, desc):
    before = rendering(built_old)
    try:
        replaced = built_old.replace_table(t_old, t_new)
    except Exception as ex:
        mon.violation(key + ":raises:" + type(ex).__name__, "%s: replace_table raised %r" % (desc, ex))
        return False
    mon.count("replace_table_calls")
    after_recv = rendering(built_old)
    if after_recv != before:
        mon.violation(key + ":receiver-changed", "%s: the receiver renders %r after the call, %r before" % (desc, after_recv[0][:160], before[0][:160]))
        return False
    got, want = rendering(replaced), rendering(built_new)
    mon.count("renderings_compared")
    if got != want:
        mon.violation(key, "%s: replace_table gives %r, the same construction over the new table gives %r" % (desc, got[0][:200], want[0][:200]),
                      {"replaced": got, "rebuilt": want})
        return False
    return True


def run_term(case, mon):
    reg = registry()
    t_old = mk_table(case["pair"][0], "old")
    t_new = mk_table(case["pair"][1], "new")
    t_other = reg["Table"]("third")
    try:
        a = build_term(case, t_old, t_other)
        b = build_term(case, t_new, t_other)
    except Exception as ex:
        mon.count("unbuildable")
        mon.add("unbuildable", "%s:%s" % (case["e"], type(ex).__name__))
        return
    mon.add("entries_slots", "%s#%d" % (case["e"], case["slot"]))
    pair = "%s->%s" % tuple(case["pair"])
    if case.get("inner"):
        # attribute nested failures to the level that drops the replacement: only report when both direct cases hold
        direct_outer = dict(case, inner=None)
        direct_inner = {"k": "term", "e": case["inner"], "slot": case["islot"], "pair": case["pair"], "inner": None}
        for dc in (direct_outer, direct_inner):
            try:
                x = build_term(dc, t_old, t_other)
                y = build_term(dc, t_new, t_other)
                if rendering(x.replace_table(t_old, t_new)) != rendering(y):
                    mon.count("nested_cases_attributed_to_direct_failure")
                    return
            except Exception:
                return
        key = "nested:%s#%d:%s#%d" % (case["e"], case["slot"], case["inner"], case["islot"])
    else:
        key = "%s#%d" % (case["e"], case["slot"])
        if case.get("tform"):
            key = "subquery-operand:" + key + (":constants-elsewhere" if case.get("oform") == "const" else "")
        if "none" in case["pair"]:
            key += ":" + pair
    if check(mon, key, a, b, t_old, t_new, "%s slot %d%s, %s" % (case["e"], case["slot"], (" nested in " + case["inner"]) if case.get("inner") else "", pair)):
        mon.nontrivial(case)
        if mon.evaluations % 701 == 1:
            mon.sample({"case": case, "before": rendering(a)[0], "after": rendering(a.replace_table(t_old, t_new))[0]})


# ------------------------------------------------------------------------------------------------------ statements
def _stmts():
    reg = registry()
    T = reg["Table"]
    fn = lambda n: reg["fn." + n]  # noqa: E731

    def S(f):
        return f

    def sel_from(Q, t, o):
        return Q.from_(t).select(t.a, o.b).where(t.c > 1)

    def sel_all_clauses(Q, t, o):
        return (Q.from_(t).select(t.a, fn("Sum")(t.b).as_("s")).where((t.c > 1) & (o.x == t.x)).groupby(t.a).having(fn("Count")(t.b) > 1)
                .orderby(t.a).from_(o))

    def sel_join_item(Q, t, o):
        return Q.from_(o).select(o.a).join(t).on(o.id == t.id)

    def sel_join_criterion(Q, t, o):
        return Q.from_(t).select(t.a).join(o).on((o.id == t.id) & (t.flag == 1))

    def sel_join_using(Q, t, o):
        return Q.from_(o).select(o.a).join(t).using("id")

    def sel_cross(Q, t, o):
        return Q.from_(o).select(o.a, t.b).join(t).cross()

    def sel_star(Q, t, o):
        return Q.from_(t).select(t.star).join(o).on(o.id == t.id)

    def sel_subquery_where(Q, t, o):
        return Q.from_(o).select(o.a).where(o.id.isin(Q.from_(t).select(t.id).where(t.z == 1)))

    def sel_subquery_from(Q, t, o):
        sub = Q.from_(t).select(t.id, t.a).as_("sq")
        return Q.from_(sub).select(sub.a)

    def sel_cte(Q, t, o):
        c = reg["AliasedQuery"]("c1")
        return Q.with_(Q.from_(t).select(t.id), "c1").from_(c).select(c.id)

    def sel_function_args(Q, t, o):
        return Q.from_(t).select(fn("Coalesce")(t.a, o.a), reg["Case"]().when(t.b == 1, t.c).else_(o.c), -t.d, t.e.between(t.f, o.f))

    def sel_analytic(Q, t, o):
        return Q.from_(t).select(reg["an.Sum"](t.a).over(t.b).orderby(t.c), fn("Sum")(t.d).filter(t.e > 0))

    def sel_orderby_groupby_terms(Q, t, o):
        return Q.from_(t).select(t.a).groupby(t.a + o.a).orderby(fn("Abs")(t.b))

    def sel_for_update(Q, t, o):
        return Q.from_(t).select(t.a).where(t.b.isin([1, 2])).limit(3)

    def insert_values(Q, t, o):
        return Q.into(t).columns(t.a, t.b).insert(1, o.dflt)

    def insert_select(Q, t, o):
        return Q.into(o).from_(t).select(t.a, t.b).where(t.c == 1)

    def insert_into_target(Q, t, o):
        return Q.into(t).from_(o).select(o.a)

    def upsert(Q, t, o):
        return Q.into(t).insert(1, 2).on_conflict(t.id).do_update(t.a, t.a + 1).where(t.b > 0)

    def upsert_conflict_where(Q, t, o):
        return Q.into(t).insert(1, 2).on_conflict(t.id).where(t.c == 1).do_nothing()

    def update_set(Q, t, o):
        return Q.update(t).set(t.a, t.b + 1).where(t.c == 2)

    def update_set_value_other(Q, t, o):
        return Q.update(o).set(o.a, t.b).from_(t).where(o.id == t.id)

    def update_join(Q, t, o):
        return Q.update(o).join(t).on(o.id == t.id).set(o.a, t.a)

    def delete(Q, t, o):
        return Q.from_(t).delete().where(t.a == 1)

    def returning(Q, t, o):
        return reg["PostgreSQLQuery"].into(t).insert(1).returning(t.id, t.a + 1)

    def join_collate(Q, t, o):
        return Q.from_(t).select(t.a).join(o).on(t.name == o.name, collate="utf8_bin").where(t.b > 1)

    def join_collate_other(Q, t, o):
        # the join does not mention the replaced table at all
        v = T("fourth")
        return Q.from_(t).select(t.a).join(o).on(o.id == t.id).join(v).on(v.k == o.k, collate="nocase")

    def update_join_collate(Q, t, o):
        return Q.update(o).join(t).on(o.id == t.id, collate="binary").set(o.a, t.a)

    def returning_delete(Q, t, o):
        PG = reg["PostgreSQLQuery"]
        return PG.from_(t).delete().where(t.a == 1).returning(t.id, t.a + 1)

    def returning_delete_join(Q, t, o):
        PG = reg["PostgreSQLQuery"]
        return PG.from_(o).delete().join(t).on(o.id == t.id).returning(t.id, o.a)

    def returning_update(Q, t, o):
        PG = reg["PostgreSQLQuery"]
        return PG.update(t).set(t.a, 1).from_(o).where(t.id == o.id).returning(t.id, o.b, t.a * 2)

    def returning_insert_select(Q, t, o):
        PG = reg["PostgreSQLQuery"]
        return PG.into(t).from_(o).select(o.a).returning(t.id)

    def distinct_on_expr(Q, t, o):
        return reg["PostgreSQLQuery"].from_(t).join(o).on(t.id == o.id).select(t.a).distinct_on(t.b + o.b, fn("Upper")(t.c))

    def analytic_expr_keys(Q, t, o):
        an = lambda n: reg["an." + n]  # noqa: E731
        return Q.from_(t).join(o).on(t.id == o.id).select(
            an("Sum")(t.x).over(t.g + 1, fn("Coalesce")(t.h, o.h)).orderby(t.amount - t.fee, fn("Coalesce")(t.a, o.b)),
            an("Rank")().orderby(reg["Case"]().when(t.k > 1, t.k).else_(o.k)),
            an("RowNumber")().over(t.p).orderby(t.ts, order=reg["Order"].desc))

    def distinct_on(Q, t, o):
        return reg["PostgreSQLQuery"].from_(t).select(t.a).distinct_on(t.b)

    def prewhere(Q, t, o):
        return Q.from_(t).select(t.a).prewhere(t.b == 1)

    def rollup(Q, t, o):
        return Q.from_(t).select(t.a).rollup(t.a, t.b)

    def setop(Q, t, o):
        return Q.from_(t).select(t.a).union(Q.from_(o).select(o.a))

    def sel_join_chain(Q, t, o):
        # the replaced table is a joined table, and a later join's criterion refers to it
        f4 = T("fourth")
        return Q.from_(o).select(o.a, t.b, f4.c).join(t).on(o.id == t.oid).join(f4).on(t.id == f4.tid).where(t.z > 1)

    def sel_join_chain_using(Q, t, o):
        f4 = T("fourth")
        return Q.from_(o).select(o.a).left_join(t).using("id").join(f4).on((f4.tid == t.id) & (f4.k == o.k))

    def update_join_chain(Q, t, o):
        f4 = T("fourth")
        return Q.update(o).join(t).on(o.id == t.oid).join(f4).on(t.id == f4.tid).set(o.a, f4.c)

    def sel_mixed_connective_chain(Q, t, o):
        # left-deep chains of three and more links with mixed connectives (successive where() calls over an OR group)
        return (Q.from_(t).select(t.a).where((t.x == 1) | (t.y == 2)).where(t.z == 3).where(t.w == 4).where((t.p == 5) | (o.q == t.q))
                .having(((t.h == 1) | (t.i == 2)) & (t.j == 3) & (t.k == 4)))

    def setop_orderby_field(Q, t, o):
        # plain column keys (Field objects and strings) in the set operation's own ORDER BY, plus an expression key
        return Q.from_(t).select(t.a, t.name).union(Q.from_(o).select(o.a, o.name)).orderby(t.name).orderby("a").orderby(t.a + 1)

    def setop_three_branches(Q, t, o):
        return Q.from_(o).select(o.a).union_all(Q.from_(t).select(t.a)).intersect(Q.from_(t).select(t.b).where(t.c == 1)).orderby(t.a).limit(5)

    def from_two_sources_then_subquery(Q, t, o):
        # the replaced table is a FROM source itself and is referenced again by a later derived source and a later set operation
        sub = Q.from_(t).select(t.k, fn("Sum")(t.v).as_("tot")).groupby(t.k).as_("tot")
        so = Q.from_(t).select(t.k).union(Q.from_(o).select(o.k)).as_("uq")
        return Q.from_(t).from_(sub).from_(so).select(t.a, sub.tot, so.k).where(t.k == sub.k)

    def from_subquery_then_table(Q, t, o):
        sub = Q.from_(t).select(t.k).as_("s1")
        return Q.from_(sub).from_(o).from_(t).select(sub.k, t.a)

    def update_from_two_sources(Q, t, o):
        sub = Q.from_(t).select(t.k, t.v).as_("s1")
        return Q.update(o).from_(t).from_(sub).set(o.a, t.a).where(o.id == sub.k)

    def from_same_table_twice(Q, t, o):
        return Q.from_(t).from_(o).from_(t).select(t.a, o.b)

    def sel_twin_terms(Q, t, o):
        # same-shaped terms over the same column names on two tables (equal hashes without namespaces)
        return (Q.from_(t).join(o).on(t.id == o.id).select(fn("Count")(t.id), fn("Count")(o.id), t.rank + 1, o.rank + 1, t.name, o.name)
                .groupby(fn("Upper")(t.name), fn("Upper")(o.name)).orderby(t.rank + 1, o.rank + 1).having(fn("Max")(t.v) > fn("Max")(o.v)))

    def sel_twin_terms_where(Q, t, o):
        return (Q.from_(o).from_(t).select(fn("Coalesce")(o.a, 0), fn("Coalesce")(t.a, 0))
                .where((fn("Abs")(o.x) > 1) & (fn("Abs")(t.x) > 1)).where(o.k.isin([1, 2])).where(t.k.isin([1, 2])))

    def sel_subquery_list(Q, t, o):
        lo, hi = Q.from_(t).select(fn("Min")(t.x)), Q.from_(t).select(fn("Max")(t.x))
        return Q.from_(o).select(o.a).where(o.x.isin([lo, hi, 0]))

    def sel_subquery_operands(Q, t, o):
        sub = lambda c: Q.from_(t).select(fn("Max")(c))  # noqa: E731
        return (Q.from_(o).select(o.a, reg["Array"](sub(t.z), 1)).where(o.b > sub(t.b)).where(o.c.between(sub(t.c), 9))
                .where(reg["Tuple"](o.x, o.y) == reg["Tuple"](sub(t.x), sub(t.y))).where(fn("Coalesce")(sub(t.d), 0) < 5))

    return {k: v for k, v in locals().items() if callable(v) and k not in ("S", "fn", "T")}


STATEMENTS = ["sel_from", "sel_all_clauses", "sel_join_item", "sel_join_criterion", "sel_join_using", "sel_cross", "sel_star",
              "sel_subquery_where", "sel_subquery_from", "sel_cte", "sel_function_args", "sel_analytic", "sel_orderby_groupby_terms",
              "sel_for_update", "insert_values", "insert_select", "insert_into_target", "upsert", "upsert_conflict_where", "update_set",
              "update_set_value_other", "update_join", "delete", "returning", "distinct_on", "prewhere", "rollup", "setop",
              "sel_twin_terms", "sel_twin_terms_where", "sel_subquery_list", "sel_subquery_operands",
              "sel_join_chain", "sel_join_chain_using", "update_join_chain", "sel_mixed_connective_chain", "setop_orderby_field", "setop_three_branches", "from_two_sources_then_subquery", "from_subquery_then_table", "update_from_two_sources",
              "from_same_table_twice", "join_collate", "join_collate_other", "update_join_collate", "returning_delete", "returning_delete_join", "returning_update", "returning_insert_select", "distinct_on_expr", "analytic_expr_keys"]


def run_stmt(case, mon):
    reg = registry()
    Q = reg[case["d"]]
    t_old = mk_table(case["pair"][0], "old")
    t_new = mk_table(case["pair"][1], "new")
    t_other = reg["Table"]("third")
    f = _stmts()[case["s"]]
    try:
        a = f(Q, t_old, t_other)
        b = f(Q, t_new, t_other)
    except Exception as ex:
        mon.count("unbuildable")
        mon.add("unbuildable", "%s:%s" % (case["s"], type(ex).__name__))
        return
    mon.add("statement_slots", case["s"])
    key = "stmt:%s" % case["s"]

    def R(o):
        # rendered twice, and a third time after a further builder call: what replace_table returns is an ordinary statement
        out = []
        for k_ in range(3):
            try:
                o2 = o if k_ < 2 or not hasattr(o, "limit") else o.limit(3)
                s_ = o2.get_sql(contexts()[case["d"]])
                out.append(s_ if k_ < 2 else s_.replace(" LIMIT 3", "").replace(" FETCH NEXT 3 ROWS ONLY", ""))
            except Exception as e:
                out.append("<exc:%s>" % type(e).__name__)
        # ... and continued with further select() calls naming the new and the old table (the bookkeeping behind star selection
        # and de-duplication belongs to the result as well)
        for tbl_ in (t_new, t_old):
            try:
                o3 = o.select(fld(tbl_, "zz9"), fld(tbl_, "a")) if isinstance(o, reg["QueryBuilder"]) and tbl_ is not None else None
                out.append(o3.get_sql(contexts()[case["d"]]) if o3 is not None else "-")
            except Exception as e:
                out.append("<exc:%s>" % type(e).__name__)
        return out
    before = R(a)
    # the table to replace is named by an equal, separately constructed object (tables compare by value)
    t_old_twin = mk_table(case["pair"][0], "old")
    try:
        r = a.replace_table(t_old_twin if case.get("twin") else t_old, t_new)
    except Exception as ex:
        mon.violation(key + ":raises:" + type(ex).__name__, "%s (%s): replace_table raised %r" % (case["s"], case["d"], ex))
        return
    mon.count("replace_table_calls")
    if R(a) != before:
        mon.violation(key + ":receiver-changed", "%s: receiver changed to %r" % (case["s"], R(a)[0][:200]))
        return
    got, want = R(r), R(b)
    mon.count("renderings_compared")
    if got != want:
        mon.violation(key, "%s (%s, %s->%s): replace_table gives %r, construction over the new table gives %r" % (
            case["s"], case["d"], case["pair"][0], case["pair"][1], got[0][:220], want[0][:220]))
        return
    mon.nontrivial(case)


def run_random(case, mon):
    reg = registry()
    rnd = random.Random(case["seed"])
    entries = zoo()[0]
    t_old = mk_table(case["pair"][0], "old")
    t_new = mk_table(case["pair"][1], "new")
    t_other = reg["Table"]("third")

    def gen(depth, tt, want_crit=False):
        if depth <= 0 or rnd.random() < 0.3:
            return fld(tt if rnd.random() < 0.6 else t_other, rnd.choice("abcd"))
        while True:
            e = rnd.choice(entries)
            if e["cls"] in ("AtTimezone", "Values"):
                continue  # these take a column (Field or name) only
            if want_crit and "Criterion" not in e["cls"] and e["cls"] != "Not":
                continue
            break
        return e["make"]([gen(depth - 1, tt, i in e["crit_slots"]) for i in range(e["arity"])])

    st = rnd.getstate()
    try:
        a = gen(3, t_old)
        rnd.setstate(st)
        b = gen(3, t_new)
    except Exception:
        mon.count("unbuildable")
        return
    ra = rendering(a)
    if ra == rendering(b):
        return  # the old table does not occur
    try:
        got = rendering(a.replace_table(t_old, t_new))
    except Exception as ex:
        mon.count("random_raises")
        mon.violation("random:raises:%s:%s" % (type(a).__name__, type(ex).__name__), "replace_table raised %r on %r" % (ex, ra[0][:200]))
        return
    mon.count("renderings_compared")
    rb = rendering(b)
    if got != rb:
        mon.violation("random:%s" % type(a).__name__, "random depth-3 term: replace_table gives %r, the same construction over the new table gives %r "
                      "(receiver %r)" % (got[0][:260], rb[0][:260], ra[0][:260]), {"replaced": got, "rebuilt": rb})
        return
    mon.nontrivial(case)


def run_case(case, mon):
    {"term": run_term, "stmt": run_stmt, "random": run_random}[case["k"]](case, mon)


def post(m, tier, inconclusive):
    entries, missing = zoo()
    want = {"%s#%d" % (e["label"], s) for e in entries for s in range(e["arity"])}
    got = m["sets"].get("entries_slots", set())
    if want - got:
        inconclusive.append("zoo slots not covered: %s" % sorted(want - got)[:10])
    if missing:
        inconclusive.append("Term subclasses that could not be constructed: %s" % missing)
    if set(STATEMENTS) - m["sets"].get("statement_slots", set()):
        inconclusive.append("statement shapes not covered: %s" % sorted(set(STATEMENTS) - m["sets"].get("statement_slots", set())))


def coverage_extra(m, tier):
    return {"zoo_entries": len(zoo()[0]), "exhaustive": True,
            "explanation": "entry x slot x pair and statement shape x dialect x pair are enumerated completely on both tiers; nested pairs "
                           "are sampled 1/9 on the quick tier"}


def FLOORS(tier):
    return {"replace_table_calls": 3000, "renderings_compared": 2000}
