"""C13 - statements are well-formed and independent of the order of commuting calls.

For every subset of clause-setting calls of every statement kind and dialect class the rendering must lex without
errors, balance its brackets, show each top-level clause keyword at most once and in the dialect's order, render ""
while the builder is incomplete, and (SQLite dialect) be accepted by the engine's parser.  For groups of calls that
address different clauses, every order that succeeds must render the same SQL; repeated calls to one clause
accumulate in call order.
"""
from __future__ import annotations

import itertools
import random
import sqlite3

from ..fingerprint import contexts
from ..lex import DIALECT_OF, balanced, tokenize
from ..prog import DIALECT_CLASSES, registry

PROP = "C13"
LEVEL = "exploration"
RULE = ("all subsets of the clause-setting calls per statement kind (set operation 2^4, SELECT 2^13, UPDATE 2^6, DELETE 2^4, INSERT 2^7, CREATE 2^8, "
        "DROP 2^1) x six dialect classes, rendered in canonical order; permutation groups: every subset of size 2..5 of "
        "the commuting calls in all k! orders (sampled orders for larger groups on the thorough tier); seeded groups of 2..5 calls "
        "in which every call takes one of its alternative argument forms (names given as strings, strings that equal a select "
        "alias, aliased terms, USING/LEFT/subquery joins, foreign WHERE, RETURNING forms ...), all orders, plus well-formedness "
        "and incomplete-builder checks on the result. non-trivial = at "
        "least two calls; distinct = (kind, dialect, call set)"
        " also: second render identical and derived builder well-formed, refused call orders are violations, split column lists, recursive CTE after a plain one, select-list accumulation around stars, names of several un-named derived sources, table-shortcut statements on SQLite. (DESIGN.md 6a)")
ASSUMPTIONS = [
    "clause-order tables per dialect and statement kind are the reference (pvm/checks/c13.py ORDER); acceptance by an engine "
    "parser is available for SQLite only",
    "orders in which the library raises produce no SQL and are skipped; where() keeps its position relative to the "
    "on_conflict chain (routing is positional by documented design); calls addressing the same clause keep their order",
]
ANCHORS = ["QueryBuilder.get_sql", "CreateQueryBuilder.get_sql", "CreateQueryBuilder._body_sql", "DropQueryBuilder.get_sql",
           "QueryBuilder.into", "QueryBuilder.where", "QueryBuilder._select_field", "QueryBuilder.do_join",
           "MySQLQueryBuilder.get_sql", "PostgreSQLQueryBuilder.get_sql", "SQLLiteQueryBuilder.get_sql",
           "MSSQLQueryBuilder.get_sql", "OracleQueryBuilder.get_sql"]
WORKERS = {"quick": 16, "thorough": 16}
# cases the check sets aside instead of judging, as a share of all cases (more than that makes a run inconclusive)
CEILING_RATIOS = {"renders_rejected": 0.01, "call_sequences_rejected": 0.06, "sqlite_semantic_errors_not_judged": 0.02}


def R():
    return registry()


def tabs():
    r = R()
    return r["Table"]("t"), r["Table"]("u")


# ------------------------------------------------------------------------------------------------ call tables
def _returning(q, *terms):
    """RETURNING exists on the PostgreSQL builder only (elsewhere the attribute lookup would be answered with a Field)."""
    if callable(getattr(type(q), "returning", None)):
        return q.returning(*terms)
    return q


def variants(kind):
    """call name -> alternative argument forms of the same call (index 1.. ; index 0 is the canonical form of the call table)."""
    r = R()
    t, u = tabs()
    Sum, Count = r["fn.Sum"], r["fn.Count"]
    sq = lambda Q: Q.from_(u).select(r["fn.Max"](u.b))  # noqa: E731  (a scalar subquery used as a term)
    if kind == "select":
        return {
            "select": [lambda q, Q: q.select(t.a, Sum(t.b).as_("total")), lambda q, Q: q.select("a", "b"), lambda q, Q: q.select(t.star),
                       lambda q, Q: q.select(t.a.as_("b"), t.b.as_("a")),
                       # clause keywords inside terms: a window's own ORDER BY, a string that quotes clause keywords
                       lambda q, Q: q.select(t.a, r["an.RowNumber"]().over(t.b).orderby(t.a).as_("rn")),
                       lambda q, Q: q.select(t.a, r["ValueWrapper"](" ORDER BY x LIMIT 1 OFFSET 2 GROUP BY WHERE ").as_("txt"))],
            "orderby": [lambda q, Q: q.orderby("total"), lambda q, Q: q.orderby("b"), lambda q, Q: q.orderby(Sum(t.b).as_("total")),
                        lambda q, Q: q.orderby(t.a, order=r["Order"].desc), lambda q, Q: q.orderby(sq(Q))],
            "groupby": [lambda q, Q: q.groupby("a"), lambda q, Q: q.groupby("total"), lambda q, Q: q.groupby(t.a.as_("total")), lambda q, Q: q.groupby(1), lambda q, Q: q.groupby(sq(Q))],
            "where": [lambda q, Q: q.where(u.a > 1), lambda q, Q: q.where(t.id.isin(Q.from_(u).select(u.id))),
                      lambda q, Q: q.where(t.c == "see ORDER BY clause; FETCH NEXT 1 ROWS ONLY"), lambda q, Q: q.where(t.id.isin(Q.from_(u).select(u.id).orderby(u.id).limit(3)))],
            "join": [lambda q, Q: q.join(u).using("id"), lambda q, Q: q.left_join(u).on(t.id == u.id),
                     lambda q, Q: q.join(Q.from_(u).select(u.id).as_("s")).on_field("id")],
            "having": [lambda q, Q: q.having(Sum(t.b) > 3), lambda q, Q: q.having(Count(t.a) > sq(Q))],
            "limit": [lambda q, Q: q.limit(0)],
            "offset": [lambda q, Q: q.offset(0)],
            "with": [lambda q, Q: q.with_(Q.from_(u).select(u.a), "c2")],
            "for_update": [lambda q, Q: q.for_update(of=("t",)), lambda q, Q: q.for_update(nowait=True)],
            "force_index": [lambda q, Q: q.use_index("ix2")],
        }
    if kind == "update":
        return {
            "set": [lambda q, Q: q.set("a", 1), lambda q, Q: q.set(t.a, u.b), lambda q, Q: q.set(t.a, sq(Q))],
            "where": [lambda q, Q: q.where(t.id == u.id)],
            "returning": [lambda q, Q: _returning(q, t.a), lambda q, Q: _returning(q, "*"), lambda q, Q: _returning(q, t.a, "b")],
        }
    if kind == "delete":
        return {
            "where": [lambda q, Q: q.where(t.id == u.id)],
            "returning": [lambda q, Q: _returning(q, t.a), lambda q, Q: _returning(q, "*")],
        }
    if kind == "insert":
        return {
            "columns": [lambda q, Q: q.columns(t.id, t.a)],
            "insert": [lambda q, Q: q.insert((1, 2), (3, 4))],
            "on_conflict": [lambda q, Q: q.on_conflict(t.id), lambda q, Q: q.on_conflict()],
            "do_update": [lambda q, Q: q.do_update("a"), lambda q, Q: q.do_update("a", sq(Q)), lambda q, Q: q.do_update(t.a, t.a + 1).do_update("id")],
            # the feeding SELECT has several sources, so *its* columns are qualified (the upsert clauses must not be)
            "select": [lambda q, Q: q.from_(u).join(R()["Table"]("v")).on(u.id == R()["Table"]("v").id).select(u.id, u.a),
                       lambda q, Q: q.from_(u).from_(R()["Table"]("v")).select(u.id, R()["Table"]("v").a),
                       lambda q, Q: q.from_(Q.from_(u).select(u.id, u.a).as_("s")).select("id", "a")],
            "returning": [lambda q, Q: _returning(q, t.a), lambda q, Q: _returning(q, "*"), lambda q, Q: _returning(q, "id", "a")],
        }
    if kind == "setop":
        return {
            "orderby": [lambda q, Q: q.orderby(t.a.as_("x")), lambda q, Q: q.orderby(t.a, t.b), lambda q, Q: q.orderby(sq(Q))],
            "limit": [lambda q, Q: q.limit(0)],
            "offset": [lambda q, Q: q.offset(0)],
            # (an ordered, limited operand only where the dialect brackets operands)
            "union2": [lambda q, Q: q.intersect(Q.from_(u).select(u.b).orderby(u.b).limit(9) if Q.__name__ not in ("MySQLQuery", "SQLLiteQuery")
                                                 else Q.from_(u).select(u.b))],
        }
    if kind == "create":
        return {
            "columns": [lambda q, Q: q.columns(r["Column"]("id", "INT"), r["Column"]("a", "INT"))],
            "unique": [lambda q, Q: q.unique("a")],
            "primary_key": [lambda q, Q: q.primary_key("id", "a")],
        }
    return {}


def select_calls():
    r = R()
    t, u = tabs()
    sub = lambda Q: Q.from_(u).select(u.id).where(u.a > 0)  # noqa: E731
    return {
        "select": lambda q, Q: q.select(t.a, t.b),
        "distinct": lambda q, Q: q.distinct(),
        "join": lambda q, Q: q.join(u).on(t.id == u.id),
        "where": lambda q, Q: q.where(t.a > 1),
        "groupby": lambda q, Q: q.groupby(t.a),
        "having": lambda q, Q: q.having(r["fn.Count"]("*") > 1),
        "orderby": lambda q, Q: q.orderby(t.b, t.a),
        "limit": lambda q, Q: q.limit(5),
        "offset": lambda q, Q: q.offset(2),
        # open-ended slices name one bound only: the other bound is another clause
        "slice-from": lambda q, Q: q[4:],
        "slice-to": lambda q, Q: q[:9],
        "with": lambda q, Q: q.with_(sub(Q), "c1"),
        # a second CTE whose body is a set operation (the library's notion of a recursive CTE), defined after a plain one
        "with-recursive": lambda q, Q: q.with_(Q.from_(u).select(u.id).union_all(Q.from_(u).select(u.id + 1).where(u.id < 5)), "r1"),
        "force_index": lambda q, Q: q.force_index("ix"),
        "for_update": lambda q, Q: q.for_update(),
        "into": lambda q, Q: q.into(r["Table"]("dst")),
    }


SQLITE_OK = {"select", "distinct", "join", "where", "groupby", "having", "orderby", "limit", "offset", "with", "with-recursive", "slice-from", "slice-to"}


def update_calls():
    t, u = tabs()
    v = R()["Table"]("v")
    return {
        "set": lambda q, Q: q.set(t.a, 1),
        "set2": lambda q, Q: q.set(t.b, t.a + 1),
        "where": lambda q, Q: q.where(t.id == 3),
        # (FROM and JOIN name different tables: joining a table that is already in FROM triggers the permitted,
        #  order-dependent auto-alias of the argument)
        "from": lambda q, Q: q.from_(v),
        "join": lambda q, Q: q.join(u).on(t.id == u.id),
        "with": lambda q, Q: q.with_(Q.from_(u).select(u.id), "c1"),
        "returning": lambda q, Q: _returning(q, "id"),
    }


def delete_calls():
    t, u = tabs()
    return {
        "where": lambda q, Q: q.where(t.id == 3),
        "orderby": lambda q, Q: q.orderby(t.id),
        "limit": lambda q, Q: q.limit(2),
        "with": lambda q, Q: q.with_(Q.from_(u).select(u.id), "c1"),
        "returning": lambda q, Q: _returning(q, "id"),
    }


def insert_calls():
    t, u = tabs()
    return {
        "columns": lambda q, Q: q.columns("id", "a"),
        # the same column list given in two calls (with rows added before, between or after them)
        "columns-id": lambda q, Q: q.columns("id"),
        "columns-a": lambda q, Q: q.columns("a"),
        "insert": lambda q, Q: q.insert(1, 2),
        "insert2": lambda q, Q: q.insert(3, 4),
        "select": lambda q, Q: q.from_(u).select(u.id, u.a),
        "on_conflict": lambda q, Q: q.on_conflict("id"),
        "do_update": lambda q, Q: q.do_update("a", 9),
        "do_nothing": lambda q, Q: q.do_nothing(),
        "returning": lambda q, Q: _returning(q, "id"),
    }


def create_calls():
    r = R()
    t, u = tabs()
    return {
        "columns": lambda q, Q: q.columns(("id", "INT"), r["Column"]("a", "TEXT", nullable=False, default="x")),
        "columns2": lambda q, Q: q.columns("b"),
        "unique": lambda q, Q: q.unique("id", "a"),
        "primary_key": lambda q, Q: q.primary_key("id"),
        "if_not_exists": lambda q, Q: q.if_not_exists(),
        "temporary": lambda q, Q: q.temporary(),
        "unlogged": lambda q, Q: q.unlogged(),
        "system_versioning": lambda q, Q: q.with_system_versioning(),
        "period_for": lambda q, Q: q.period_for("p", "id", "a"),
        "as_select": lambda q, Q: q.as_select(Q.from_(u).select(u.id)),
    }


def setop_calls():
    t, u = tabs()
    v = R()["Table"]("v")
    return {
        "orderby": lambda q, Q: q.orderby(t.a),
        "limit": lambda q, Q: q.limit(5),
        "offset": lambda q, Q: q.offset(2),
        "union2": lambda q, Q: q.union_all(Q.from_(v).select(v.a).where(v.b > 1)),
    }


def setop_base(Q):
    t, u = tabs()
    return Q.from_(t).select(t.a).where(t.b > 0).union(Q.from_(u).select(u.a))


KINDS = {
    "setop": (setop_base, setop_calls),
    "select": (lambda Q: Q.from_(tabs()[0]), select_calls),
    "update": (lambda Q: Q.update(tabs()[0]), update_calls),
    "delete": (lambda Q: Q.from_(tabs()[0]).delete(), delete_calls),
    "insert": (lambda Q: Q.into(tabs()[0]), insert_calls),
    "create": (lambda Q: Q.create_table(tabs()[0]), create_calls),
    "drop": (lambda Q: Q.drop_table(tabs()[0]), lambda: {"if_exists": lambda q, Q: q.if_exists()}),
}
# calls that address the same clause (their relative order is part of the meaning)
SAME_CLAUSE = [{"limit", "slice-to"}, {"offset", "slice-from"}, {"with", "with-recursive"}, {"set", "set2"}, {"insert", "insert2", "select"}, {"columns", "columns2", "as_select"}, {"columns", "columns-id", "columns-a"},
               {"on_conflict", "do_update", "do_nothing", "where"}, {"limit", "offset"} - {"offset"}]
# completeness: which call sets make the builder complete
def complete(kind, calls):
    s = set(calls)
    if kind == "select":
        return "select" in s
    if kind == "update":
        return bool(s & {"set", "set2"})
    if kind == "delete":
        return True
    if kind == "insert":
        return bool(s & {"insert", "insert2", "select"})
    if kind == "create":
        return bool(s & {"columns", "columns2", "as_select"})
    return True


def cases(tier, seed, shard, nshards):
    k = 0
    for kind, (_, mk) in KINDS.items():
        names = list(mk())
        for d in DIALECT_CLASSES:
            for mask in range(1 << len(names)):
                k += 1
                if k % nshards != shard:
                    continue
                calls = [n for i, n in enumerate(names) if mask >> i & 1]
                yield {"k": "subset", "kind": kind, "d": d, "calls": calls}
    # permutation groups
    rnd = random.Random("C13:%d:%d" % (seed, shard))
    for kind, (_, mk) in KINDS.items():
        names = list(mk())
        for d in DIALECT_CLASSES:
            for size in (2, 3, 4, 5):
                combos = list(itertools.combinations(names, size))
                if tier == "quick" and size >= 4:
                    combos = [c for c in combos if hash_stable(c) % (4 if size == 4 else 12) == 0]
                for c in combos:
                    k += 1
                    if k % nshards != shard:
                        continue
                    yield {"k": "perm", "kind": kind, "d": d, "calls": list(c)}
            if tier == "thorough":
                for _ in range(40):
                    if len(names) < 6:
                        break
                    size = rnd.randint(6, min(9, len(names)))
                    yield {"k": "perm", "kind": kind, "d": d, "calls": rnd.sample(names, size), "sample": rnd.getrandbits(30)}
    # argument-form variants: random call groups of 2..5 calls, each call in a randomly chosen argument form, all orders
    for kind, (_, mk) in KINDS.items():
        names = list(mk())
        alt = variants(kind)
        if not alt:
            continue
        per = {"select": 2400, "insert": 900, "update": 600, "delete": 300, "create": 300, "setop": 600}[kind] * (1 if tier == "quick" else 12)
        for d in DIALECT_CLASSES:
            for _ in range(per // nshards // 6 + 1):
                size = rnd.randint(2, min(5, len(names)))
                calls = rnd.sample(names, size)
                calls.sort(key=names.index)
                var = {c: rnd.randint(0, len(alt[c])) for c in calls if c in alt}
                if not any(var.values()):
                    continue
                yield {"k": "perm", "kind": kind, "d": d, "calls": calls, "var": var}
    for stmt in SHORTCUT_STATEMENTS:
        for maker in ("Table", "Tables-name", "Tables-pair", "Tables-mixed"):
            k += 1
            if k % nshards == shard:
                yield {"k": "shortcut", "stmt": stmt, "maker": maker}
    # accumulation in call order
    for d in DIALECT_CLASSES:
        k += 1
        if k % nshards == shard:
            yield {"k": "accumulate", "d": d}


def hash_stable(t):
    import zlib
    return zlib.crc32(",".join(t).encode())


def apply(kind, d, calls, var=None):
    r = R()
    Q = r[d]
    base, mk = KINDS[kind]
    table = mk()
    if var:
        alt = variants(kind)
        for name, i in var.items():
            if i:
                table[name] = alt[name][i - 1]
    q = base(Q)
    for c in calls:
        q = table[c](q, Q)
    return q


def render(q, d):
    return q.get_sql(contexts()[d])


# ------------------------------------------------------------------------------------------------ clause order
def clause_keywords(toks):
    """Depth-0 clause keywords in order (JOIN modifiers folded)."""
    out = []
    depth = 0
    prev = None
    for i, t in enumerate(toks):
        if t.kind == "PUNCT" and t.text in "([":
            depth += 1
        elif t.kind == "PUNCT" and t.text in ")]":
            depth -= 1
        elif depth == 0 and t.kind == "WORD":
            w = t.value
            nxt = toks[i + 1].value if i + 1 < len(toks) and toks[i + 1].kind == "WORD" else None
            if w in ("WITH",) and nxt in ("ROLLUP", "TOTALS", "SYSTEM"):
                out.append("WITH-" + nxt)
            elif w == "WITH":
                out.append("WITH")
            elif w == "UPDATE" and prev in ("FOR", "DO", "KEY"):
                pass
            elif w in ("SELECT", "FROM", "WHERE", "PREWHERE", "HAVING", "LIMIT", "FETCH", "VALUES", "SET", "RETURNING", "INTO",
                       "DELETE", "UPDATE", "INSERT", "REPLACE", "CREATE", "DROP", "JOIN", "USING"):
                if w == "FROM" and prev in ("DELETE",):
                    pass
                if w == "INTO" and out and out[-1] in ("INSERT", "REPLACE"):
                    continue
                if w == "USING" and out and out[-1] == "JOIN":
                    continue  # JOIN x USING (..) is part of the join
                if w == "VALUES" and i > 0 and toks[i - 1].text == "=":
                    continue  # col=VALUES(col): MySQL's function for the proposed value, not the VALUES clause
                if w == "SET" and prev in ("UPDATE", "DO") and out and out[-1] == "DO-UPDATE":
                    continue
                out.append(w)
            elif w == "OFFSET":
                out.append("OFFSET")
            elif w in ("GROUP", "ORDER") and nxt == "BY":
                out.append(w + "-BY")
            elif w == "FOR" and nxt == "UPDATE":
                out.append("FOR-UPDATE")
            elif w == "ON" and nxt in ("CONFLICT", "DUPLICATE"):
                out.append("ON-CONFLICT")
            elif w == "DO":
                out.append("DO-" + (nxt or ""))
            elif w in ("FORCE", "USE") and nxt == "INDEX":
                out.append("INDEX-HINT")
            prev = w
    return out


def order_table(kind, fam):
    """clause -> rank; clauses with equal rank may repeat only if listed in REPEATABLE."""
    if kind == "select":
        o = ["WITH", "INSERT", "SELECT", "INTO", "FROM", "INDEX-HINT", "JOIN", "PREWHERE", "WHERE", "GROUP-BY", "WITH-ROLLUP", "WITH-TOTALS",
             "HAVING", "ORDER-BY"]
        o += ["OFFSET", "FETCH"] if fam in ("mssql", "oracle") else ["LIMIT", "OFFSET"]
        o += ["FOR-UPDATE"]
    elif kind == "setop":
        # one operand (or, behind the last set operator, the last operand and the set operation's own tail): which row-limiting
        # idiom the tail uses is C09's subject, here only "each clause once, in order"
        o = ["WITH", "SELECT", "FROM", "JOIN", "WHERE", "GROUP-BY", "HAVING", "ORDER-BY", "LIMIT", "OFFSET", "FETCH", "FOR-UPDATE"]
    elif kind == "update":
        if fam in ("postgresql", "sqlite"):
            o = ["WITH", "UPDATE", "SET", "FROM", "JOIN", "WHERE", "ORDER-BY", "LIMIT", "RETURNING"]
        else:
            o = ["WITH", "UPDATE", "JOIN", "SET", "FROM", "WHERE", "ORDER-BY", "LIMIT", "RETURNING"]
    elif kind == "delete":
        o = ["WITH", "DELETE", "FROM", "JOIN", "WHERE", "ORDER-BY"]
        o += ["OFFSET", "FETCH"] if fam in ("mssql", "oracle") else ["LIMIT", "OFFSET"]
        o += ["RETURNING"]
    elif kind == "insert":
        o = ["WITH", "INSERT", "REPLACE", "VALUES", "SELECT", "FROM", "JOIN", "WHERE", "GROUP-BY", "HAVING", "ORDER-BY", "LIMIT", "OFFSET",
             "ON-CONFLICT", "WHERE2", "DO-NOTHING", "DO-UPDATE", "SET", "WHERE3", "RETURNING"]
    elif kind == "create":
        o = ["CREATE", "WITH-SYSTEM"]
    else:
        o = ["DROP"]
    return {c: i for i, c in enumerate(o)}


REPEATABLE = {"JOIN"}


def check_order(kind, fam, kws):
    ranks = order_table(kind, fam)
    last = -1
    seen = set()
    if kind == "create":
        kws = [k for k in kws if k in ("CREATE", "WITH-SYSTEM")]
    for kw in kws:
        name = kw
        if kind == "insert" and kw == "WHERE":
            name = "WHERE" if "ON-CONFLICT" not in seen else ("WHERE2" if not (seen & {"DO-UPDATE", "DO-NOTHING"}) else "WHERE3")
        if name not in ranks:
            return "unexpected top-level clause %s" % kw
        if name in seen and name not in REPEATABLE:
            return "clause %s appears twice" % kw
        if ranks[name] < last:
            return "clause %s out of order (%s)" % (kw, " ".join(kws))
        last = ranks[name]
        seen.add(name)
    return None


_con = None


def sqlite_prepare(sql):
    global _con
    if _con is None:
        _con = sqlite3.connect(":memory:")
        _con.setconfig(sqlite3.SQLITE_DBCONFIG_DQS_DML, False)
        _con.setconfig(sqlite3.SQLITE_DBCONFIG_DQS_DDL, False)
        for tn in ("t", "u", "v"):
            _con.execute("CREATE TABLE %s(id INTEGER PRIMARY KEY, a INT, b INT, c TEXT)" % tn)
    if sql.startswith("CREATE"):
        con = sqlite3.connect(":memory:")
        con.execute("CREATE TABLE u(id INTEGER PRIMARY KEY, a INT, b INT, c TEXT)")
        try:
            con.execute("EXPLAIN " + sql)
        finally:
            con.close()
        return
    _con.execute("EXPLAIN " + sql)


def wellformed(kind, d, calls, sql, mon):
    """Checks (a)(b)(d) on one rendering; returns True if a violation was reported."""
    fam = DIALECT_OF[d] if d != "Query" else "generic"
    toks = tokenize(sql, d)
    mon.count("statements_lexed")
    bad = [t for t in toks if t.kind in ("ERR", "COMMENT")]
    if bad:
        mon.violation("%s:lexical:%s" % (kind, fam), "%s token %r in %r" % (bad[0].kind, bad[0].text[:30], sql[:200]))
        return True
    for i_, tk in enumerate(toks):
        if tk.kind == "IDENT" and tk.value == "None" and i_ + 1 < len(toks) and toks[i_ + 1].text == ".":
            mon.violation("%s:none-as-qualifier:%s" % (kind, fam), "a column is qualified with the name \"None\" (a missing alias written out): %r (calls %s)" % (sql[:240], calls))
            return True
    for i_, tk in enumerate(toks):
        # WITH [RECURSIVE] name AS (..) [, name AS (..)]*: the keyword belongs to the clause, not to one of its members
        if tk.kind == "WORD" and tk.value == "RECURSIVE":
            mon.count("recursive_keywords_checked")
            if not (i_ > 0 and toks[i_ - 1].kind == "WORD" and toks[i_ - 1].value == "WITH"):
                mon.violation("%s:recursive-not-after-with:%s" % (kind, fam), "RECURSIVE does not directly follow WITH: %r (calls %s)" % (sql[:240], calls))
                return True
    if fam == "mssql" and kind == "select":
        depth_ = 0
        seen_order = False
        for i_, tk in enumerate(toks):
            if tk.kind == "PUNCT" and tk.text == "(":
                depth_ += 1
            elif tk.kind == "PUNCT" and tk.text == ")":
                depth_ -= 1
            elif depth_ == 0 and tk.kind == "WORD" and tk.value == "ORDER":
                seen_order = True
            elif depth_ == 0 and tk.kind == "WORD" and tk.value == "OFFSET":
                mon.count("mssql_offsets_checked")
                if not seen_order:
                    mon.violation("%s:offset-without-order-by:%s" % (kind, fam), "OFFSET .. ROWS without an ORDER BY of the statement itself: %r (calls %s)" % (sql[:260], calls))
                    return True
    b = balanced(toks)
    if b:
        mon.violation("%s:unbalanced:%s" % (kind, fam), "%s in %r" % (b, sql[:200]))
        return True
    if kind == "setop":
        # depth-0 segments between the set operators
        segs, cur, depth = [], [], 0
        for tk in toks:
            if tk.kind == "PUNCT" and tk.text in "([":
                depth += 1
            elif tk.kind == "PUNCT" and tk.text in ")]":
                depth -= 1
            if depth == 0 and tk.kind == "WORD" and tk.value in ("UNION", "INTERSECT", "EXCEPT", "MINUS"):
                segs.append(cur)
                cur = []
            else:
                cur.append(tk)
        segs.append(cur)
        why = None
        for seg in segs:
            why = why or check_order(kind, fam, clause_keywords(seg))
        kws = []
    else:
        kws = clause_keywords(toks)
        why = check_order(kind, fam, kws)
    mon.count("clause_sequences_checked")
    if why:
        mon.violation("%s:clause-order:%s:%s" % (kind, why.split(" (")[0].replace(" ", "-"), fam), "%s: %r (calls %s)" % (why, sql[:260], calls))
        return True
    if kind == "create":
        # CREATE [TEMPORARY | UNLOGGED] TABLE [IF NOT EXISTS] name: at most one table-kind keyword
        words = [tk.value for tk in toks if tk.kind == "WORD"]
        if "TABLE" in words:
            between = words[words.index("CREATE") + 1:words.index("TABLE")] if "CREATE" in words else ["?"]
            mon.count("create_headers_checked")
            if between not in ([], ["TEMPORARY"], ["UNLOGGED"]):
                mon.violation("create:header:%s" % "-".join(between).lower(), "CREATE %s TABLE is not a table-kind the grammar knows: %r (calls %s)" % (" ".join(between), sql[:200], calls))
                return True
    if kind == "insert":
        # the conflict target is a list of bare column names
        for i, tk in enumerate(toks):
            if tk.kind == "WORD" and tk.value == "CONFLICT" and i + 1 < len(toks) and toks[i + 1].text == "(":
                j = i + 2
                inside = []
                while j < len(toks) and toks[j].text != ")":
                    inside.append(toks[j])
                    j += 1
                mon.count("conflict_targets_checked")
                if not all((x.kind == "IDENT") if k_ % 2 == 0 else (x.text == ",") for k_, x in enumerate(inside)):
                    mon.violation("insert:conflict-target-not-bare-columns:%s" % fam, "ON CONFLICT (...) is not a list of bare column names: %r (calls %s)" % (sql[:300], calls))
                    return True
        # the assignment targets of DO UPDATE SET / ON DUPLICATE KEY UPDATE are bare column names
        for i, tk in enumerate(toks):
            if tk.kind == "WORD" and tk.value == "UPDATE" and i > 0 and toks[i - 1].kind == "WORD" and toks[i - 1].value in ("DO", "KEY"):
                j = i + 1
                if j < len(toks) and toks[j].kind == "WORD" and toks[j].value == "SET":
                    j += 1
                depth = 0
                start = True
                while j < len(toks) and not (depth == 0 and toks[j].kind == "WORD" and toks[j].value in ("WHERE", "RETURNING")):
                    tj = toks[j]
                    if tj.kind == "PUNCT" and tj.text in "([":
                        depth += 1
                    elif tj.kind == "PUNCT" and tj.text in ")]":
                        depth -= 1
                    if start and depth == 0:
                        mon.count("upsert_targets_checked")
                        if not (tj.kind == "IDENT" and j + 1 < len(toks) and toks[j + 1].text == "="):
                            mon.violation("insert:upsert-target-not-a-bare-column:%s" % fam, "the assignment target after %s is not a bare column name: %r (calls %s)" % (
                                "DO UPDATE SET" if toks[i - 1].value == "DO" else "ON DUPLICATE KEY UPDATE", sql[:300], calls))
                            return True
                        start = False
                    elif depth == 0 and tj.kind == "PUNCT" and tj.text == ",":
                        start = True
                    j += 1
    if d == "SQLLiteQuery" and (kind != "select" or set(calls) <= SQLITE_OK) and not ({"period_for", "unlogged", "system_versioning"} & set(calls)):  # (features SQLite does not have)
        try:
            sqlite_prepare(sql)
            mon.count("sqlite_prepares")
        except sqlite3.Error as e:
            msg = str(e)
            if not ("syntax error" in msg or "unrecognized token" in msg or "incomplete input" in msg):
                # name resolution / arity / aggregate-use errors are not parser rejections (C03/C11 look at those)
                mon.count("sqlite_semantic_errors_not_judged")
                mon.add("sqlite_semantic_errors", msg.split(":")[0][:50])
                return False
            mon.violation("%s:engine-rejects:%s:sqlite" % (kind, sig_of_error(str(e), calls)), "SQLite rejects %r: %s (calls %s)" % (sql[:260], e, calls))
            return True
    return False


def sig_of_error(msg, calls):
    cs = set(calls)
    if "as_select" in cs:
        return "create-as-parenthesised-select"
    if "near \"DO\"" in msg or ("on_conflict" in cs and "select" in cs):
        return "insert-select-on-conflict"
    if "JOIN" in msg or ("join" in cs and "near" in msg):
        return "update-join"
    if "OFFSET" in msg:
        return "offset"
    return msg.split(":")[0][:40].replace(" ", "-")


def run_subset(case, mon):
    kind, d, calls = case["kind"], case["d"], case["calls"]
    fam = DIALECT_OF[d] if d != "Query" else "generic"
    r = R()
    try:
        q = apply(kind, d, calls)
    except Exception as e:
        mon.count("call_sequences_rejected")
        mon.add("rejections", "%s:%s" % (kind, type(e).__name__))
        return
    try:
        sql = render(q, d)
    except Exception as e:
        mon.count("renders_rejected")
        mon.add("render_rejections", "%s:%s:%s" % (kind, type(e).__name__, str(e)[:40]))
        return
    if len(calls) >= 2:
        mon.nontrivial([kind, d, calls])
    mon.add("kinds", "%s|%s" % (kind, fam))
    if not complete(kind, calls):
        mon.count("incomplete_builders")
        if sql != "":
            mon.violation("%s:incomplete-renders-fragment:%s" % (kind, fam), "incomplete builder (calls %s) rendered %r instead of ''" % (calls, sql[:200]))
        return
    if sql == "":
        mon.violation("%s:complete-renders-empty:%s" % (kind, fam), "complete builder (calls %s) rendered the empty string" % calls)
        return
    if wellformed(kind, d, calls, sql, mon):
        return
    # "every rendered statement": the statement a caller gets when it renders the same builder once more (an application renders
    # for logging and again for execution) and the one a builder derived from the rendered one yields are statements too
    try:
        again = render(q, d)
        mon.count("second_renders")
        if again != sql:
            # the same calls, the same builder, another text
            mon.violation("%s:second-render-differs:%s" % (kind, fam), "the builder (calls %s) renders %r first and %r the second time" % (calls, sql[:220], again[:220]))
            return
        q2 = getattr(q, "if_not_exists", None) if kind == "create" else None
        if callable(q2):
            derived = render(q2(), d)
            mon.count("derived_builder_renders")
            if wellformed(kind, d, calls + ["<derived after render>"], derived, mon):
                return
    except Exception as e:
        mon.violation("%s:second-render-raises:%s" % (kind, type(e).__name__), "rendering the same builder once more raised %r (calls %s)" % (e, calls))
        return
    if mon.evaluations % 397 == 1:
        mon.sample({"kind": kind, "dialect": d, "calls": calls, "sql": sql[:260]})


def groups_ok(order, canonical):
    """Calls addressing the same clause must keep their canonical relative order."""
    for g in SAME_CLAUSE:
        a = [c for c in order if c in g]
        b = [c for c in canonical if c in g]
        if a != b:
            return False
    return True


def run_perm(case, mon):
    kind, d, calls = case["kind"], case["d"], case["calls"]
    var = case.get("var")
    fam = DIALECT_OF[d] if d != "Query" else "generic"
    if len(calls) <= 5:
        orders = list(itertools.permutations(calls))
    else:
        rnd = random.Random(case.get("sample", 0))
        orders = [tuple(rnd.sample(calls, len(calls))) for _ in range(60)]
    outs = {}
    rejected = []
    for order in orders:
        if not groups_ok(order, calls):
            continue
        try:
            sql = render(apply(kind, d, list(order), var), d)
        except Exception as e:
            mon.count("orders_rejected_by_library")
            rejected.append((order, e))
            continue
        outs.setdefault(sql, []).append(order)
        mon.count("orders_rendered")
    if outs and rejected:
        # the same calls build a statement in one order and are refused in another: the calls do not commute
        o_ok = list(outs.values())[0][0]
        o_bad, exc = rejected[0]
        mon.violation("%s:order-dependent-rejection:%s:%s" % (kind, type(exc).__name__, fam), "order %s of the calls builds %r but order %s is refused with %r%s" % (
            list(o_ok), list(outs)[0][:160], list(o_bad), exc, " (argument forms %s)" % var if var else ""), {"calls": calls, "var": var})
        return
    if len(outs) > 1:
        (s1, o1), (s2, o2) = list(outs.items())[:2]
        # name the pair of calls whose swap matters: find two orders differing by an adjacent transposition
        key = "%s:order-dependent:%s:%s" % (kind, blame(kind, d, calls, var), fam)
        mon.violation(key, "orders %s and %s of the same calls%s render differently: %r vs %r" % (
            list(o1[0]), list(o2[0]), " (argument forms %s)" % var if var else "", s1[:200], s2[:200]), {"calls": calls, "var": var})
        return
    if outs:
        mon.nontrivial(["perm", kind, d, sorted(calls), sorted((var or {}).items())])
        mon.count("permutation_groups_agreeing")
        if var:
            mon.count("variant_groups_agreeing")
            sql = next(iter(outs))
            if not complete(kind, calls):
                mon.count("incomplete_builders")
                if sql != "":
                    mon.violation("%s:incomplete-renders-fragment:%s" % (kind, fam), "incomplete builder (calls %s, argument forms %s) rendered %r instead of ''" % (
                        calls, var, sql[:200]))
                return
            if sql != "":
                wellformed(kind, d, calls, sql, mon)


def blame(kind, d, calls, var=None):
    """Smallest pair of calls whose two orders differ."""
    for a, b in itertools.combinations(calls, 2):
        if not groups_ok((b, a), (a, b)):
            continue
        try:
            s1 = render(apply(kind, d, [a, b], var), d)
            s2 = render(apply(kind, d, [b, a], var), d)
        except Exception:
            continue
        if s1 != s2:
            return "%s+%s" % tuple(sorted((a, b)))
    return "+".join(sorted(calls))


def run_accumulate(case, mon):
    r = R()
    d = case["d"]
    Q = r[d]
    t, u = tabs()
    fam = DIALECT_OF[d] if d != "Query" else "generic"
    checks = [
        ("where", Q.from_(t).select(t.a).where(t.a > 1).where(t.b < 2).where(t.c == 3), ["a", "a", "b", "c"]),
        ("select", Q.from_(t).select(t.c).select(t.a).select(t.b), ["c", "a", "b"]),
        ("groupby", Q.from_(t).select(t.a).groupby(t.c).groupby(t.a, t.b), ["a", "c", "a", "b"]),
        ("orderby", Q.from_(t).select(t.a).orderby(t.c).orderby(t.b), ["a", "c", "b"]),
        ("having", Q.from_(t).select(t.a).groupby(t.a).having(t.c > 1).having(t.b > 2), ["a", "a", "c", "b"]),
        ("set", Q.update(t).set(t.c, 1).set(t.a, 2).set(t.b, 3), ["c", "a", "b"]),
        ("insert", Q.into(t).insert(3, 3).insert(1, 1).insert(2, 2), None),
        ("join", Q.from_(t).select(t.a).join(u).on(t.id == u.id).join(r["Table"]("v")).on(t.id == r["Table"]("v").id), None),
    ]
    for name, q, cols in checks:
        sql = render(q, d)
        toks = tokenize(sql, d)
        mon.count("accumulation_checks")
        if cols is not None:
            got = [x.value for x in toks if x.kind == "IDENT" and x.value in ("a", "b", "c")]
            if got != cols:
                mon.violation("accumulate:%s:%s" % (name, fam), "repeated %s() calls do not accumulate in call order: %r" % (name, sql[:200]))
                return
        elif name == "insert":
            nums = [int(x.value) for x in toks if x.kind == "NUM"]
            if nums != [3, 3, 1, 1, 2, 2]:
                mon.violation("accumulate:insert:%s" % fam, "rows not in call order: %r" % sql[:200])
                return
        else:
            ids = [x.value for x in toks if x.kind == "IDENT" and x.value in ("u", "v")]
            if ids[:1] != ["u"] or "v" not in ids or ids.index("v") < ids.index("u"):
                mon.violation("accumulate:join:%s" % fam, "joins not in call order: %r" % sql[:200])
                return
    # several un-named derived sources in one statement: every one gets a name of its own, whatever the mix of from_() and join()
    def subs(n):
        return [Q.from_(r["Table"]("s%d" % i)).select("id", "v") for i in range(n)]
    layouts = {"from-from-from": lambda a, b, c: Q.from_(a).from_(b).from_(c).select(a.v, b.v, c.v),
               "from-from-join": lambda a, b, c: Q.from_(a).from_(b).join(c).on(c.id == a.id).select(a.v, b.v, c.v),
               "from-join-from": lambda a, b, c: Q.from_(a).join(c).on(c.id == a.id).from_(b).select(a.v, b.v, c.v),
               "table-join-from-join": lambda a, b, c: Q.from_(t).join(a).on(a.id == t.id).from_(b).join(c).on(c.id == t.id).select(a.v, b.v, c.v),
               "update-from-from-from": lambda a, b, c: Q.update(t).from_(a).from_(b).from_(c).set(t.a, a.v).where(b.id == c.id),
               "nested-first": lambda a, b, c: Q.from_(Q.from_(a).select("id", "v")).from_(b).from_(c).select(b.v, c.v)}
    for lname, mk in layouts.items():
        a_, b_, c_ = subs(3)
        try:
            q = mk(a_, b_, c_)
            sql = render(q, d)
        except Exception as e:
            mon.violation("accumulate:unnamed-sources:raises:%s" % type(e).__name__, "%s raised %r" % (lname, e))
            return
        mon.count("accumulation_checks")
        names_ = [x_.alias for x_ in (a_, b_, c_) if x_.alias is not None] + [s_.alias for s_ in getattr(q, "_from", []) if getattr(s_, "alias", None) and s_ not in (a_, b_, c_)]
        if len(set(names_)) != len(names_) or len(names_) < 3:
            mon.violation("accumulate:unnamed-sources:%s:%s" % (lname, fam), "three un-named derived sources (%s) were named %s: %r" % (lname, names_, sql[:240]))
            return
        if d == "SQLLiteQuery" and not lname.startswith("update"):
            try:
                sqlite_prepare(sql.replace('"s0"', '"t1"').replace('"s1"', '"t1"').replace('"s2"', '"t1"'))
            except sqlite3.Error as e:
                if "ambiguous" in str(e) or "syntax" in str(e):
                    mon.violation("accumulate:unnamed-sources:engine:%s" % lname, "SQLite rejects %r: %s" % (sql[:240], e))
                    return
    # terms that are no plain columns (functions, constants, expressions) are never subsumed by a star: selected before or after a
    # Star() object or a table's star they all stay, in call order
    fn = lambda n: r["fn." + n]  # noqa: E731
    star_forms = {"Star()": lambda: r["Star"](), "t.star": lambda: t.star, "u.star": lambda: u.star}
    for sname, mk in star_forms.items():
        for where in ("between", "first", "last", "same-call"):
            q = Q.from_(t).join(u).on(t.id == u.id)
            pre = [fn("Count")(t.id), r["ValueWrapper"](777001)]
            post = [fn("Abs")(r["ValueWrapper"](777002)), t.a + 777003]
            if where == "between":
                q = q.select(*pre).select(mk()).select(*post)
            elif where == "first":
                q = q.select(mk()).select(*pre).select(*post)
            elif where == "last":
                q = q.select(*pre).select(*post).select(mk())
            else:
                q = q.select(*(pre + [mk()] + post))
            sql = render(q, d)
            toks = tokenize(sql, d)
            mon.count("accumulation_checks")
            sel_end = next((i for i, x in enumerate(toks) if x.kind == "WORD" and x.value == "FROM"), len(toks))
            marks = []
            for x in toks[:sel_end]:
                if x.kind == "WORD" and x.value == "COUNT":
                    marks.append("count")
                elif x.kind == "NUM" and str(x.text).startswith("77700"):
                    marks.append(str(x.text))
                elif x.text == "*":
                    marks.append("*")
            want = {"between": ["count", "777001", "*", "777002", "777003"], "first": ["*", "count", "777001", "777002", "777003"],
                    "last": ["count", "777001", "777002", "777003", "*"], "same-call": ["count", "777001", "*", "777002", "777003"]}[where]
            if marks != want:
                mon.violation("accumulate:select-with-star:%s:%s" % (sname, fam), "select list items around %s (%s) are %s, expected %s: %r" % (sname, where, marks, want, sql[:220]))
                return
    mon.nontrivial(["accumulate", d])


SHORTCUT_STATEMENTS = {
    "offset-only": lambda t, u: t.select(t.a).offset(2),
    "union": lambda t, u: t.select(t.a).union(u.select(u.a)).orderby(t.a).limit(3),
    "union-offset-only": lambda t, u: t.select(t.a).union_all(u.select(u.a)).offset(1),
    "update-join": lambda t, u: t.update().join(u).on(t.id == u.id).set(t.a, u.b).where(u.c == "x"),
    "update-from": lambda t, u: t.update().from_(u).set(t.a, u.b).where(t.id == u.id),
    "boolean": lambda t, u: t.select(t.a, True).where(t.b == False),  # noqa: E712
    "insert-upsert": lambda t, u: t.insert(1, 2, 3, "x").on_conflict("id").do_update("a"),
    "select-subquery": lambda t, u: t.select(t.a).where(t.id.isin(u.select(u.id).offset(1))),
}


def run_shortcut(case, mon):
    """SQLite statements started from tables of the dialect's own factories and their shortcuts: accepted by SQLite's parser."""
    r = R()
    Q = r["SQLLiteQuery"]
    makers = {"Table": lambda n, a: Q.Table(n), "Tables-name": lambda n, a: Q.Tables(n)[0], "Tables-pair": lambda n, a: Q.Tables((n, a))[0],
              "Tables-mixed": lambda n, a: Q.Tables("zz", (n, a))[1]}
    mk = makers[case["maker"]]
    if case["stmt"] in ("update-join", "update-from", "insert-upsert") and case["maker"].startswith("Tables-") and case["maker"] != "Tables-name":
        return  # (an aliased UPDATE/INSERT target is outside what SQLite's grammar and this property cover)
    t, u = mk("t", "ta"), mk("u", "ua")
    try:
        q = SHORTCUT_STATEMENTS[case["stmt"]](t, u)
        sql = str(q)
    except Exception as e:
        mon.violation("shortcut:raises:%s:%s" % (type(e).__name__, case["stmt"]), "%s via %s raised %r" % (case["stmt"], case["maker"], e))
        return
    mon.count("shortcut_statements")
    try:
        sqlite_prepare(sql)
        mon.count("sqlite_prepares")
    except sqlite3.Error as e:
        msg = str(e)
        if "syntax error" in msg or "unrecognized token" in msg or "incomplete input" in msg:
            mon.violation("shortcut:engine-rejects:%s:%s" % (case["stmt"], case["maker"]), "SQLite rejects %r (started from %s(..) and the table's shortcut): %s" % (sql[:260], case["maker"], e))
            return
        mon.count("sqlite_semantic_errors_not_judged")
    mon.nontrivial(["shortcut", case["stmt"], case["maker"]])


def run_case(case, mon):
    {"subset": run_subset, "perm": run_perm, "accumulate": run_accumulate, "shortcut": run_shortcut}[case["k"]](case, mon)


def coverage_extra(m, tier):
    return {"exhaustive": True, "explanation": "all call subsets per statement kind and dialect; all orders of every 2..3-call group "
                                               "(quick: a fixed quarter/twelfth of the 4/5-call groups; thorough: all, plus sampled orders of 6..9-call groups)"}


def FLOORS(tier):
    return {"statements_lexed": 10000, "clause_sequences_checked": 10000, "sqlite_prepares": 300, "orders_rendered": 20000,
            "accumulation_checks": 40}
