"""C01 - builder calls never alter the receiver or earlier-derived objects.

Oracle (history + rebuild): a program is a forest of builder calls in which every object stays live.  After the whole
history has run, every live object must fingerprint (six dialect contexts x {inline, parameterised}, str, alias,
is_aggregate, tables, fields) exactly like a *fresh rebuild of its own sub-program* in a clean interpreter - objects are
values determined by their construction.  The same program is re-run under a random dependency-respecting reordering
of its steps (sibling continuations permuted): every variable must fingerprint the same in both orders.  Builder
calls must return a new object.  A failing variable is localised to the first later step after which it stops
matching its rebuild; the mechanism key names that step's method, the role of the damaged object and the attribute
that moved.
"""
from __future__ import annotations

import random

from ..catalogue import builder_methods, defining_class, is_builder_method, scenarios
from ..fingerprint import F, S_parts, fdiff
from ..gen import Forest
from ..prog import DIALECT_CLASSES, Failed, Interp, phash, run, show, slice_program, step_refs
from ..siblings import pair_program, pair_specs

PROP = "C01"
LEVEL = "exploration"
RULE = ("(1) deterministic prime/branch-A/branch-B scenario for every builder-decorated method discovered in the live "
        "modules, under each of the six dialect classes; (2) seeded random call forests of 8-25 top-level actions per "
        "dialect class in which receivers are re-used (branching) and live objects are passed as arguments (sharing); "
        "subquery/self-join arguments carry explicit aliases so that no auto-alias exemption is needed; (3) the sibling-"
        "interference matrix (pvm/siblings.py): for SELECT/INSERT/UPDATE/DELETE/CREATE receivers in 1-4 primed states, every "
        "ordered pair (A, B) of ~20-60 continuations that share one tiny vocabulary (alias x, tables t1..t3, index i1, CTE c1): "
        "r=prime; x=A(r); y=B(r) (and the chain y=B(x); z=B(r)); each object must equal the rebuild of its own sub-program, "
        "including whether the call raises (quick: each pair under one dialect class, rotating with the seed; thorough: all six). A program is "
        "non-trivial when at least one receiver got two or more continuations; distinct = distinct program hash"
        " also: named-argument monitor (10 kinds of already named row sources x 14 consuming calls), a set-operation family and a retry-after-rejected-on() action in the sibling matrix, as_/replace_table/negate/slices on every zoo class. (DESIGN.md 6a)")
ASSUMPTIONS = [
    "effects invisible to every render under the six contexts and to alias/is_aggregate/tables/fields are not observed",
    "auto-alias side effects (sq<n>, <table>2) are exercised only by the dedicated exemption scenarios",
]
ANCHORS = ["builder.<locals>._copy", "QueryBuilder.__copy__", "PostgreSQLQueryBuilder.__copy__", "QueryBuilder.where",
           "QueryBuilder.rollup", "Case.when", "AnalyticFunction.over", "_SetOperation.union", "CreateQueryBuilder.columns"]
WORKERS = {"quick": 16, "thorough": 16}
WATCHDOG = {"quick": 900, "thorough": 5000}


def cases(tier, seed, shard, nshards):
    k = 0
    for d in DIALECT_CLASSES:
        for cls, method, prog, roles in scenarios(d):
            k += 1
            if k % nshards == shard:
                yield {"k": "scenario", "cls": cls, "m": method, "prog": prog, "roles": roles}
    if shard == 0:
        for d in DIALECT_CLASSES:
            for c in exemption_cases(d):
                yield c
    # sibling-interference matrix: every ordered pair of continuations of one primed receiver, shared vocabulary
    k = 0
    for di, d in enumerate(DIALECT_CLASSES):
        for j, spec in enumerate(pair_specs(d)):
            # quick: each pair under one dialect class (rotating with the seed) and under the class that overrides one of the
            # two calls (PostgreSQL: distinct_on/returning/replace_table/__copy__; MySQL: modifier; SQL Server: top); thorough: all six
            own = pair_home(spec) == d
            if tier == "quick" and (j + seed) % 6 != di and not own:
                continue
            k += 1
            if k % nshards == shard:
                yield {"k": "pair", "d": d, "spec": spec, "chain": False}
                rewriter = spec[3].startswith(("replace-", "copy", "as-q"))
                if ((tier != "quick" and k % 2 == 0) or k % 7 == 0 or (rewriter and own)) and spec[2] not in ("render", "str", "hash"):
                    # (A's result is the receiver of B here, so A must return a builder: str.join(Table) would iterate forever)
                    yield {"k": "pair", "d": d, "spec": spec, "chain": True}
    # the builder calls every term class inherits (as_, replace_table, negate ...) on one object per class of the zoo, on leaf
    # classes and on the module-level constants (pseudo columns)
    from .c15 import zoo_subjects
    from ..prog import registry
    names = sorted(zoo_subjects()) + ["const:" + k_ for k_, v_ in sorted(registry().items()) if isinstance(v_, registry()["Term"])]
    for lab in names:
        k += 1
        if k % nshards == shard:
            yield {"k": "term-builders", "label": lab}
    for d in DIALECT_CLASSES:
        for lab in DELEGATED:
            k += 1
            if k % nshards == shard:
                yield {"k": "delegated", "d": d, "label": lab}
    for di, d in enumerate(DIALECT_CLASSES):
        for hi, how in enumerate(NAMED_CONSUMERS):
            for ai, a in enumerate(NAMED_SOURCES):
                for bi, b in enumerate(NAMED_SOURCES):
                    if tier == "quick" and (hi + ai + bi + seed) % 6 != di:
                        continue
                    k += 1
                    if k % nshards == shard:
                        yield {"k": "named", "d": d, "how": how, "a": a, "b": b}
    n = (2400 if tier == "quick" else 160000) // nshards
    rnd = random.Random("C01:%d:%d" % (seed, shard))
    for i in range(n):
        d = DIALECT_CLASSES[i % 6]
        f = Forest(rnd, d)
        prog = f.grow(rnd.randint(8, 25))
        yield {"k": "forest", "prog": prog, "perm": rnd.getrandbits(32) if i % 2 == 0 else None}


def pair_home(spec):
    """The dialect class whose builder overrides one of the two calls of a sibling pair (None: no override involved)."""
    a, b = spec[2], spec[3]
    for x in (a, b):
        if x.startswith(("distinct-on", "returning")):
            return "PostgreSQLQuery"
        if x.startswith("modifier"):
            return "MySQLQuery"
        if x.startswith("top-"):
            return "MSSQLQuery"
    for x in (a, b):
        if x.startswith(("replace-", "copy")):
            return "PostgreSQLQuery"
    return None


def topo_shuffle(prog, seed):
    """Random reordering of the steps that respects data dependencies. Returns (program, old->new index)."""
    rnd = random.Random(seed)
    steps = prog["steps"]
    n = len(steps)
    deps = [step_refs(s) for s in steps]
    placed = []
    done = set()
    ready = [i for i in range(n) if not deps[i]]
    remaining = set(range(n)) - set(ready)
    while ready:
        i = ready.pop(rnd.randrange(len(ready)))
        placed.append(i)
        done.add(i)
        newly = [j for j in remaining if deps[j] <= done]
        for j in newly:
            remaining.discard(j)
        ready.extend(sorted(newly))
    m = {old: new for new, old in enumerate(placed)}
    from ..prog import _renum
    new_steps = [{k: (_renum(v, m) if k not in ("op", "cls", "m", "n", "o", "how") else v) for k, v in steps[old].items()}
                 for old in placed]
    out = {"steps": new_steps}
    if "meta" in prog:
        out["meta"] = prog["meta"]
    return out, m


def renderable(v):
    return not isinstance(v, Failed) and hasattr(v, "get_sql") and not isinstance(v, type)


class History:
    """Runs a program, observing call/return events at the client boundary."""

    def __init__(self, prog, mon, label="C01"):
        self.prog = prog
        self.mon = mon
        self.uses = {}
        self.builder_calls = []  # (step, defining class, method, receiver var)
        self.it = Interp(prog.get("meta", {}).get("dialect", "Query"), self.on_event)
        self.same_object = []

    def on_event(self, kind, i, s, v, it):
        if s["op"] != "call":
            return
        r = s["r"]
        if not (isinstance(r, dict) and r.get("$") == "r"):
            return
        recv = it.env[r["i"]]
        if isinstance(recv, Failed):
            return
        if kind == "call":
            self._isb = is_builder_method(recv, s["m"])
            return
        if self._isb and not isinstance(v, Failed):
            dc = defining_class(recv, s["m"])
            self.builder_calls.append((i, dc.__name__, s["m"], r["i"]))
            self.mon.count("builder_calls_observed")
            if v is recv and getattr(recv, "immutable", True):
                self.same_object.append((i, dc.__name__, s["m"]))

    def run(self):
        self.env = self.it.run(self.prog)
        for s in self.prog["steps"]:
            for j in step_refs(s):
                self.uses[j] = self.uses.get(j, 0) + 1
        return self.env


def localise(prog, i, ref_f):
    """First step k > i after which var i no longer fingerprints like ref_f; (k, moved attributes)."""
    it = Interp(prog.get("meta", {}).get("dialect", "Query"))
    it.run(prog, upto=i + 1)
    if isinstance(it.env[i], Failed):
        return None, []
    parts = S_parts(it.env[i])
    if F(it.env[i]) != ref_f:
        return i, []
    for k in range(i + 1, len(prog["steps"])):
        it.run(prog, upto=k + 1)
        now = S_parts(it.env[i])
        if now != parts or k == len(prog["steps"]) - 1:
            if F(it.env[i]) != ref_f:
                moved = sorted(a for a in set(parts) | set(now) if parts.get(a) != now.get(a))
                return k, moved
            parts = now
    return None, []


def key_for(prog, i, k, moved, env):
    s = prog["steps"][k]
    recv = s.get("r")
    role = "other"
    if isinstance(recv, dict) and recv.get("$") == "r" and recv["i"] == i:
        role = "receiver"
    elif i in step_refs(s):
        role = "argument"
    m = s.get("m") or s.get("o") or s.get("cls") or s["op"]
    cls = "?"
    if s["op"] == "call" and isinstance(recv, dict) and recv.get("$") == "r" and not isinstance(env[recv["i"]], Failed):
        dc = defining_class(env[recv["i"]], s["m"])
        cls = dc.__name__ if dc else type(env[recv["i"]]).__name__
    elif s["op"] == "call":
        cls = "Query"
    return "%s.%s:%s:%s" % (cls, m, role, ",".join(moved) or "-")


def check_history(prog, mon, want=None, prefix=""):
    """Run prog; every live var must equal its rebuild. Returns {var: F} of the run (None on violation)."""
    h = History(prog, mon)
    env = h.run()
    for (i, cls, m) in h.same_object:
        mon.violation(prefix + "%s.%s:returns-receiver" % (cls, m), "builder call at step %d returned the receiver itself" % i)
    fs = {}
    n_checked = 0
    for i, v in enumerate(env):
        if want is not None and i not in want:
            continue
        sub, m = slice_program(prog, [i])
        if "meta" in prog:
            sub["meta"] = prog["meta"]
        twin_env = run(sub, prog.get("meta", {}).get("dialect", "Query"))
        twin = twin_env[m[i]]
        if isinstance(v, Failed) != isinstance(twin, Failed) or (
                isinstance(v, Failed) and type(v.exc) is not type(twin.exc)):
            mon.count("outcome_comparisons")
            mon.violation(prefix + "outcome-differs:%s" % (prog["steps"][i].get("m") or prog["steps"][i]["op"]),
                          "step %d %s in the full history but %s when its own sub-program is rebuilt from scratch" % (
                              i, _st(v), _st(twin)), {"var": i, "program": show(prog)})
            return None
        if not renderable(v):
            continue
        fa, fb = F(v), F(twin)
        fs[i] = fa
        n_checked += 1
        mon.count("rebuild_comparisons")
        if fa != fb:
            k, moved = localise(prog, i, fb)
            d = fdiff(fa, fb)
            if k is None:
                key = prefix + "unlocalised:%s" % type(v).__name__
                what = "v%d differs from its rebuild in %s but no single later step explains it" % (i, d[:3])
            else:
                key = prefix + key_for(prog, i, k, moved, env)
                what = "v%d (%s) renders differently after step %d [%s]: %s now %r, rebuilt from its own construction %r" % (
                    i, type(v).__name__, k, show(prog)[k], d[0], _short(fa.get(d[0])), _short(fb.get(d[0])))
            mon.violation(key, what, {"var": i, "step": k, "moved": moved, "keys": d[:6], "program": show(prog)})
            return None
    for (step, cls, m, r) in h.builder_calls:
        mon.add("methods_called", "%s.%s" % (cls, m))
        if h.uses.get(r, 0) >= 2:
            mon.add("methods_branching", "%s.%s" % (cls, m))
            mon.count("branching_observations")
    return fs


def _st(v):
    return "raised %s" % type(v.exc).__name__ if isinstance(v, Failed) else "succeeded"


def _short(x, n=260):
    s = repr(x)
    return s if len(s) <= n else s[:n] + "..."


def exemption_cases(d):
    """Auto-alias side effects: permitted, but nothing else about the argument may change."""
    from ..prog import P, Cls
    out = []
    p = P()
    t1 = p.new("Table", "t1")
    sub = p.call(p.call(Cls(d), "from_", t1), "select", p.call(t1, "field", "a"))
    outer = p.call(p.call(Cls(d), "from_", sub), "select", p.call(sub, "field", "a"))
    out.append({"k": "exempt", "prog": p.prog(dialect=d), "arg": sub.i, "alias": "sq0", "outer": outer.i})
    p = P()
    t1 = p.new("Table", "t1")
    t1b = p.new("Table", "t1")
    q = p.call(p.call(Cls(d), "from_", t1), "select", p.call(t1, "field", "a"))
    j = p.call(p.call(q, "join", t1b), "on", p.bin("==", p.call(t1, "field", "id"), p.call(t1b, "field", "id")))
    out.append({"k": "exempt", "prog": p.prog(dialect=d), "arg": t1b.i, "alias": "t12", "outer": j.i})
    p = P()
    t1 = p.new("Table", "t1")
    t2 = p.new("Table", "t2")
    sub = p.call(p.call(Cls(d), "from_", t2), "select", p.call(t2, "field", "id"))
    q = p.call(p.call(Cls(d), "from_", t1), "select", p.call(t1, "field", "a"))
    j = p.call(p.call(q, "join", sub), "on", p.bin("==", p.call(t1, "field", "id"), p.call(sub, "field", "id")))
    out.append({"k": "exempt", "prog": p.prog(dialect=d), "arg": sub.i, "alias": "sq0", "outer": j.i})
    return out


def run_exempt(case, mon):
    prog = case["prog"]
    d = prog["meta"]["dialect"]
    env = run(prog, d)
    arg = env[case["arg"]]
    sub, m = slice_program(prog, [case["arg"]])
    twin = run(sub, d)[m[case["arg"]]]
    mon.count("exemption_checks")
    if getattr(arg, "alias", None) != case["alias"]:
        mon.violation("auto-alias:unexpected-alias", "argument alias is %r, expected the automatic alias %r" % (
            getattr(arg, "alias", None), case["alias"]))
        return
    twin.alias = case["alias"]
    fa, fb = F(arg), F(twin)
    if fa != fb:
        d_ = fdiff(fa, fb)
        mon.violation("auto-alias:argument-changed-beyond-alias",
                      "the argument differs from its rebuild with only the alias set, in %s" % d_[:4],
                      {"keys": d_, "program": show(prog)})
    # all other variables are untouched
    for i, v in enumerate(env):
        if i in (case["arg"], case["outer"]) or not renderable(v):
            continue
        from ..fingerprint import reaches
        if reaches(v, arg):
            continue
        s2, m2 = slice_program(prog, [i])
        t2 = run(s2, d)[m2[i]]
        mon.count("rebuild_comparisons")
        if F(v) != F(t2):
            mon.violation("auto-alias:bystander-changed", "v%d changed although it does not reach the aliased argument" % i)
    mon.nontrivial(phash(prog))


# ---------------------------------------------------------------- arguments that carry a name already
NAMED_SOURCES = ["auto-sub", "auto-sub-2", "explicit-sub-sq0", "explicit-sub-x", "auto-setop", "explicit-setop-sq0", "table-alias-sq0",
                 "table-alias-x", "table-auto-renamed", "cte-sq0"]
NAMED_CONSUMERS = ["from-from", "from-join-on", "from-cross", "join-join", "where-in", "select-term", "insert-from", "update-from",
                   "with", "union", "from-union", "from-join-using", "update-join", "delete-where-in"]


def named_source(reg, Q, kind, k):
    """(argument carrying a name already, an earlier statement built around it)."""
    t = reg["Table"]("n%d" % k)
    sub = Q.from_(t).select(t.id, t.a).where(t.a > k)
    if kind in ("auto-sub", "auto-sub-2"):
        holder = Q.from_(sub).select(sub.a)  # the first un-aliased subquery of its own statement: sq0
        return sub, holder
    if kind.startswith("explicit-sub-"):
        sub = sub.as_(kind[13:])
        return sub, Q.from_(sub).select(sub.a)
    if kind == "auto-setop":
        so = sub.union(Q.from_(t).select(t.id, t.b))
        return so, Q.from_(so).select(so.a)
    if kind == "explicit-setop-sq0":
        so = sub.union(Q.from_(t).select(t.id, t.b)).as_("sq0")
        return so, Q.from_(so).select(so.a)
    if kind.startswith("table-alias-"):
        ta = reg["Table"]("n%d" % k).as_(kind[12:])
        return ta, Q.from_(ta).select(ta.a)
    if kind == "table-auto-renamed":
        tb = reg["Table"]("n%d" % k)
        holder = Q.from_(t).join(tb).on(t.id == tb.id).select(tb.a)  # tb becomes n<k>2
        return tb, holder
    if kind == "cte-sq0":
        cte = reg["Cte"]("sq0", sub) if "Cte" in reg else None
        if cte is None:
            raise LookupError("no Cte")
        return cte, Q.with_(sub, "sq0").from_(cte).select(cte.a)
    raise KeyError(kind)


def named_consume(reg, Q, how, a, b):
    t = reg["Table"]("host")
    if how == "from-from":
        return Q.from_(a).from_(b).select(a.a, b.a)
    if how == "from-join-on":
        return Q.from_(a).join(b).on(a.id == b.id).select(a.a, b.a)
    if how == "from-cross":
        return Q.from_(a).join(b).cross().select(a.a, b.a)
    if how == "join-join":
        return Q.from_(t).join(a).on(t.id == a.id).join(b).on(t.id == b.id).select(t.id)
    if how == "from-join-using":
        return Q.from_(a).join(b).using("id").select(a.a)
    if how == "where-in":
        return Q.from_(a).select(a.a).where(a.id.isin(b) if isinstance(b, reg["Term"]) else a.id == 1)
    if how == "select-term":
        return Q.from_(a).select(a.a, b) if isinstance(b, reg["Term"]) else Q.from_(a).select(a.a)
    if how == "insert-from":
        return Q.into(t).columns("id", "a").from_(a).from_(b).select(a.id, b.a)
    if how == "update-from":
        return Q.update(t).from_(a).from_(b).set(t.a, a.a).where(t.id == b.id)
    if how == "update-join":
        return Q.update(t).join(a).on(t.id == a.id).join(b).on(t.id == b.id).set(t.a, a.a)
    if how == "delete-where-in":
        return Q.from_(t).delete().where(t.id.isin(a)).where(t.a.isin(b)) if isinstance(a, reg["Term"]) and isinstance(b, reg["Term"]) else Q.from_(t).delete()
    if how == "with":
        qa = a if isinstance(a, reg["QueryBuilder"]) else Q.from_(a).select(a.a)
        return Q.with_(qa, "w1").from_(b).select(b.a)
    if how == "union":
        qa = a if isinstance(a, (reg["QueryBuilder"], reg["_SetOperation"])) else Q.from_(a).select(a.id, a.a)
        qb = b if isinstance(b, (reg["QueryBuilder"], reg["_SetOperation"])) else Q.from_(b).select(b.id, b.a)
        return qa.union(qb)
    if how == "from-union":
        qa = a if isinstance(a, reg["QueryBuilder"]) else Q.from_(a).select(a.id, a.a)
        qb = b if isinstance(b, reg["QueryBuilder"]) else Q.from_(b).select(b.id, b.a)
        u = qa.union_all(qb)
        return Q.from_(u).select(u.a)
    raise KeyError(how)


def run_named(case, mon):
    """Arguments that already carry a name (automatic or explicit) are never renamed or otherwise changed, whatever the collision."""
    from ..prog import registry
    reg = registry()
    Q = reg[case["d"]]
    try:
        a, ha = named_source(reg, Q, case["a"], 1)
        b, hb = named_source(reg, Q, case["b"], 2)
    except LookupError:
        return
    before = [(x.alias, F(x)) for x in (a, b)]
    held = [F(ha), F(hb)]
    try:
        out = named_consume(reg, Q, case["how"], a, b)
        str(out)
        F(out)
    except Exception as e:
        mon.count("named_argument_calls_rejected")
        mon.add("named_argument_rejections", "%s:%s" % (case["how"], type(e).__name__))
    else:
        mon.count("named_argument_calls")
    mon.add("named_argument_cells", "%s/%s/%s" % (case["how"], case["a"], case["b"]))
    for lab, x, (al, f0), h, hf in (("first", a, before[0], ha, held[0]), ("second", b, before[1], hb, held[1])):
        kind = case["a"] if lab == "first" else case["b"]
        if x.alias != al:
            mon.violation("named-argument:renamed:%s:%s" % (case["how"], kind), "%s argument (%s) carried the name %r when it was passed to %s and is called %r afterwards" % (
                lab, kind, al, case["how"], x.alias), {"case": case})
            return
        if F(x) != f0:
            mon.violation("named-argument:changed:%s:%s" % (case["how"], kind), "%s argument (%s) renders differently after %s: %s" % (
                lab, kind, case["how"], fdiff(F(x), f0)[:3]), {"case": case})
            return
        if F(h) != hf:
            mon.violation("named-argument:earlier-statement:%s:%s" % (case["how"], kind), "the statement built earlier around the %s argument (%s) renders differently after %s: %s" % (
                lab, kind, case["how"], fdiff(F(h), hf)[:3]), {"case": case})
            return
    mon.count("named_argument_checks")
    mon.nontrivial(["named", case["d"], case["how"], case["a"], case["b"]])


DELEGATED = {
    # NOT wrapper around ...: calls that Not does not define itself and hands on to the wrapped term (re-wrapping the result)
    "not-field": (lambda reg, t: reg["Not"](t.field("data")), [("has_key", ("k",)), ("get_text_value", ("k2",)), ("contains", ({"a": 1},)), ("has_keys", (["x", "y"],))]),
    "not-case": (lambda reg, t: reg["Not"](reg["Case"]().when(t.a > 1, 1)), [("when", (None, 2)), ("else_", (0,))]),
    "not-aggregate": (lambda reg, t: reg["Not"](reg["AggregateFunction"]("AGG", t.a)), [("filter", ("CRIT",)), ("distinct", ())]),
    "not-analytic": (lambda reg, t: reg["Not"](reg["an.Sum"](t.a)), [("over", ("FIELD",)), ("orderby", ("FIELD",)), ("rows", ("PRECEDING",))]),
    "negated-field": (lambda reg, t: t.field("data").negate(), [("has_key", ("k",)), ("get_path_text_value", ("{a,b}",))]),
}


def run_delegated(case, mon):
    """Calls reached through a delegating wrapper: each returns a new object, the wrapper and earlier results stay as they were."""
    from ..prog import registry
    reg = registry()
    t = reg["Table"]("tz")
    mk, calls = DELEGATED[case["label"]]
    w = mk(reg, t)
    q = reg[case["d"]].from_(t).select(t.a).where(w) if isinstance(w, reg["Criterion"]) else None
    f0, fq0 = F(w), (F(q) if q is not None else None)
    earlier = []
    for name, args in calls:
        args = tuple({"CRIT": t.b > 2, "FIELD": t.c, "PRECEDING": reg["an.Preceding"](2)}.get(a_, a_) if isinstance(a_, str) else a_ for a_ in args)
        if name == "when":
            args = (t.b < 0, 2)
        try:
            x = getattr(w, name)(*args)
        except Exception:
            mon.count("delegated_calls_rejected")
            continue
        mon.count("delegated_calls")
        mon.add("delegated_cells", "%s.%s" % (case["label"], name))
        if x is w:
            mon.violation("delegated:%s:returns-wrapper" % name, "%s on %s returned the wrapper itself" % (name, case["label"]))
            return
        if F(w) != f0 or (q is not None and F(q) != fq0):
            mon.violation("delegated:%s:wrapper-changed" % name, "%s(%r) on %s changed the wrapper (or the statement built with it) in %s" % (
                name, args, case["label"], fdiff(F(w), f0)[:3]))
            return
        for (n2, x2, fx2) in earlier:
            if hasattr(x2, "get_sql") and F(x2) != fx2:
                mon.violation("delegated:%s:earlier-result" % name, "%s on %s changed the result of the earlier %s call" % (name, case["label"], n2))
                return
        earlier.append((name, x, F(x) if hasattr(x, "get_sql") else None))
    mon.nontrivial(["delegated", case["label"], case["d"]])


def run_pair(case, mon):
    prog, want = pair_program(case["d"], *case["spec"], chain=case["chain"])
    case["prog"] = prog
    env = run(prog, case["d"])
    mon.count("pair_programs")
    if any(isinstance(env[i], Failed) for i in want[:2]):
        mon.count("pair_programs_prime_or_A_not_applicable")
        return
    fs = check_history(prog, mon, want=set(want), prefix="siblings:")
    if fs is None:
        return
    mon.add("pair_actions", "%s/%s" % (case["spec"][0], case["spec"][2]))
    if not isinstance(env[want[2]], Failed):
        mon.count("pair_programs_both_continuations_built")
        mon.nontrivial(phash(prog))


_subjects = None


def run_term_builders(case, mon):
    """as_ / replace_table / negate / slicing on one object: a new object each time, the receiver and the first result unchanged."""
    global _subjects
    from ..prog import registry
    reg = registry()
    if _subjects is None:
        from .c15 import zoo_subjects
        _subjects = zoo_subjects()
    t, t9 = reg["Table"]("tz"), reg["Table"]("tz9")
    lab = case["label"]
    try:
        o = reg[lab[6:]] if lab.startswith("const:") else _subjects[lab](t)
    except Exception:
        mon.count("term_builders_unbuildable")
        return
    f0 = F(o)
    calls = [("as_", ("zz1",), ("zz2",)), ("replace_table", (t, t9), (t, reg["Table"]("tz8"))), ("negate", (), ()), ("__getitem__", (slice(None, None),), (slice(1, 5),))]
    for name, a1, a2 in calls:
        m = getattr(type(o), name, None)
        if m is None or not callable(m):
            continue
        if name == "__getitem__" and not isinstance(o, reg["QueryBuilder"]):
            continue
        try:
            x = getattr(o, name)(*a1)
            fx = F(x) if hasattr(x, "get_sql") else None
            y = getattr(o, name)(*a2)
        except Exception:
            mon.count("term_builder_calls_rejected")
            continue
        mon.count("term_builder_calls")
        mon.add("term_builder_cells", "%s.%s" % (type(o).__name__, name))
        key = "%s.%s" % (defining_class(o, name).__name__ if defining_class(o, name) else type(o).__name__, name)
        # (Term.replace_table is a documented no-op that hands back terms without tables; slicing wraps the builder method slice())
        if (x is o or y is o) and getattr(o, "immutable", True) and (is_builder_method(o, name) or name == "__getitem__"):
            mon.violation("term-builders:%s:returns-receiver" % key, "%s on %s returned the receiver itself" % (name, lab))
            return
        if F(o) != f0:
            d = fdiff(F(o), f0)
            mon.violation("term-builders:%s:receiver:%s" % (key, ",".join(d[:2])), "%s(%r) on %s changed the receiver in %s" % (name, a1, lab, d[:3]))
            return
        if fx is not None and F(x) != fx:
            mon.violation("term-builders:%s:earlier-result" % key, "the second %s call on %s changed the result of the first" % (name, lab))
            return
    mon.nontrivial(["term-builders", lab])


def run_case(case, mon):
    if case["k"] == "exempt":
        return run_exempt(case, mon)
    if case["k"] == "term-builders":
        return run_term_builders(case, mon)
    if case["k"] == "pair":
        return run_pair(case, mon)
    if case["k"] == "named":
        return run_named(case, mon)
    if case["k"] == "delegated":
        return run_delegated(case, mon)
    prog = case["prog"]
    fs = check_history(prog, mon)
    if fs is None:
        return
    if case["k"] == "scenario":
        mon.add("scenarios", "%s.%s" % (case["cls"], case["m"]))
        env = run(prog, prog["meta"]["dialect"])
        roles = case["roles"]
        ok = [r for r in ("r1", "a", "b") if not isinstance(env[roles[r]], Failed)]
        if len(ok) == 3:
            mon.add("scenarios_all_calls_succeeded", "%s.%s" % (case["cls"], case["m"]))
            mon.nontrivial(phash(prog))
        mon.count("scenario_programs")
    else:
        mon.count("forest_programs")
        if case.get("perm") is not None:
            perm, m = topo_shuffle(prog, case["perm"])
            fs2 = check_history(perm, mon, prefix="reordered:")
            if fs2 is None:
                return
            mon.count("twin_runs")
            for i, fa in fs.items():
                fb = fs2.get(m[i])
                mon.count("twin_comparisons")
                if fb is not None and fa != fb:
                    d = fdiff(fa, fb)
                    mon.violation("order-dependence:%s" % type(run(prog, prog["meta"]["dialect"])[i]).__name__,
                                  "v%d fingerprints differently when sibling continuations run in another order (%s)" % (i, d[:3]),
                                  {"var": i, "keys": d[:6], "program": show(prog), "reordered": show(perm)})
                    return
        uses = {}
        for s in prog["steps"]:
            if s["op"] == "call" and isinstance(s["r"], dict) and s["r"].get("$") == "r":
                uses[s["r"]["i"]] = uses.get(s["r"]["i"], 0) + 1
        if any(v >= 2 for v in uses.values()):
            mon.nontrivial(phash(prog))
    if mon.evaluations % 53 == 1:
        mon.sample({"kind": case["k"], "program": show(prog)[:40]})


def post(m, tier, inconclusive):
    found = {"%s.%s" % (c.split(".")[-1], n) for (_, c, n) in builder_methods()}
    called = m["sets"].get("methods_called", set())
    branching = m["sets"].get("methods_branching", set())
    missing = sorted(found - branching)
    m["_discovered"] = sorted(found)
    m["_missing_branching"] = missing
    if missing:
        inconclusive.append("builder methods without a branching observation: %s" % missing)


def coverage_extra(m, tier):
    return {"builder_methods_discovered": len(m.get("_discovered", [])),
            "builder_methods_without_branching_observation": m.get("_missing_branching", [])}


def FLOORS(tier):
    return {"rebuild_comparisons": 5000, "branching_observations": 1000, "twin_comparisons": 1000, "exemption_checks": 6,
            "pair_programs_both_continuations_built": 5000, "named_argument_checks": 1000}


def describe(case):
    return show(case["prog"]) if "prog" in case else str(case)
