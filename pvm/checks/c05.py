"""C05 - inlined values are single literal tokens that decode to the original value.

Differential tokenisation: a statement is rendered twice by the real library - with the value v and with a benign
marker of the same Python kind at the same position - and both renderings are tokenised with the reference lexer of
the target dialect.  The two token streams must agree everywhere except at one position, where the v-stream shows
exactly one literal token that decodes to v.  For the SQLite dialect the engine additionally evaluates the emitted
literal text (SELECT <literal>) and must return v.
"""
from __future__ import annotations

import datetime as dt
import decimal
import enum
import json
import random
import sqlite3
import uuid

from .. import hooks
from ..lex import DIALECT_OF, sig, tokenize
from ..fingerprint import contexts
from ..prog import DIALECT_CLASSES, P, Cls, Failed, Interp, enc, registry, run
from ..values import kinds, random_value

PROP = "C05"
LEVEL = "exploration"
RULE = ("complete product position x value-class x dialect (every named string class, int/float/Decimal/bool/None/"
        "date/time/datetime/UUID/enum (plain, int-mixin, str-mixin, IntEnum)/JSON values at every position that accepts the kind, six dialects) plus seeded random "
        "values (hostile alphabet, 0-12 atoms, full Unicode range, nested JSON); non-trivial = the value is not a plain "
        "alphanumeric string / small int; distinct = (position, dialect, value)"
        " also: literals next to minus signs, strings that spell SQL, text around engine length limits, literals that stay inline under a parameterizer, rows given as one list / tuple. (DESIGN.md 6a)")
ASSUMPTIONS = [
    "for MySQL, PostgreSQL, SQL Server and Oracle the trusted base is the reference lexer (pvm/lex.py): MySQL strings honour "
    "backslash escapes and \"...\" is a string; PostgreSQL standard_conforming_strings=on; SQL Server QUOTED_IDENTIFIER ON",
    "SQLite: literal text containing NUL is not sent to the engine (the sqlite3 module refuses it); counted as skipped",
]
ANCHORS = ["ValueWrapper.get_formatted_value", "ValueWrapper.get_value_sql", "MySQLValueWrapper.get_value_sql",
           "SQLLiteValueWrapper.get_value_sql", "JSON.get_sql", "Column.get_sql", "QueryBuilder.do_update"]
WORKERS = {"quick": 16, "thorough": 16}
WATCHDOG = {"quick": 900, "thorough": 3300}

MARKERS = {"str": "mk424242", "int": 424242, "float": 424242.5, "decimal": decimal.Decimal("424242.25"),
           "bool": None, "none": 424242, "date": dt.date(2001, 2, 3), "time": dt.time(7, 8, 9),
           "datetime": dt.datetime(2001, 2, 3, 4, 5, 6), "uuid": uuid.UUID(int=424242), "enum": "mk424242",
           "json": {"mk": 424242}}


def _sel(p, Q, t):
    return p.call(p.call(Q, "from_", t), "select", p.call(t, "field", "a"))


def _where(op):
    def f(p, Q, t, v):
        return p.call(_sel(p, Q, t), "where", p.bin(op, p.call(t, "field", "b"), v))
    return f


POSITIONS = {
    "select": lambda p, Q, t, v: p.call(p.call(Q, "from_", t), "select", p.call(t, "field", "a"), v),
    "select-only": lambda p, Q, t, v: p.call(Q, "select", v),
    "select-valuewrapper": lambda p, Q, t, v: p.call(p.call(Q, "from_", t), "select", p.new("ValueWrapper", v)),
    "where-eq": _where("=="), "where-ne": _where("!="), "where-lt": _where("<"), "where-ge": _where(">="),
    "where-eq-reversed": lambda p, Q, t, v: p.call(_sel(p, Q, t), "where", p.bin("==", p.new("ValueWrapper", v), p.call(t, "field", "b"))),
    "where-like": lambda p, Q, t, v: p.call(_sel(p, Q, t), "where", p.call(p.call(t, "field", "b"), "like", v)),
    "where-in": lambda p, Q, t, v: p.call(_sel(p, Q, t), "where", p.call(p.call(t, "field", "b"), "isin", [1, v, 2])),
    "where-between": lambda p, Q, t, v: p.call(_sel(p, Q, t), "where", p.call(p.call(t, "field", "b"), "between", v, 9)),
    "having": lambda p, Q, t, v: p.call(p.call(_sel(p, Q, t), "groupby", p.call(t, "field", "a")), "having", p.bin("==", p.new("fn.Max", p.call(t, "field", "b")), v)),
    "join-on": lambda p, Q, t, v: p.call(p.call(_sel(p, Q, t), "join", p.new("Table", "u")), "on", p.bin("==", p.call(t, "field", "b"), v)),
    "insert": lambda p, Q, t, v: p.call(p.call(Q, "into", t), "insert", 1, v, "z"),
    "insert-rows": lambda p, Q, t, v: p.call(p.call(Q, "into", t), "insert", (1, "y"), (2, v)),
    "replace": lambda p, Q, t, v: p.call(p.call(Q, "into", t), "replace", v),
    # one row given as a single list / tuple argument (its members are the row's values, whatever their type)
    "insert-list-row-single": lambda p, Q, t, v: p.call(p.call(Q, "into", t), "insert", [v]),
    "insert-tuple-row-single": lambda p, Q, t, v: p.call(p.call(Q, "into", t), "insert", (v,)),
    "insert-list-row": lambda p, Q, t, v: p.call(p.call(Q, "into", t), "insert", [7, v]),
    "replace-list-row-single": lambda p, Q, t, v: p.call(p.call(Q, "into", t), "replace", [v]),
    "set": lambda p, Q, t, v: p.call(p.call(Q, "update", t), "set", p.call(t, "field", "a"), v),
    "set-str-field": lambda p, Q, t, v: p.call(p.call(p.call(Q, "update", t), "set", "a", v), "where", p.bin("==", p.call(t, "field", "id"), 1)),
    "function-arg": lambda p, Q, t, v: p.call(p.call(Q, "from_", t), "select", p.new("fn.Coalesce", p.call(t, "field", "a"), v)),
    "case-then": lambda p, Q, t, v: p.call(p.call(Q, "from_", t), "select", p.call(p.call(p.new("Case"), "when", p.bin("==", p.call(t, "field", "a"), 1), v), "else_", 0)),
    "case-else": lambda p, Q, t, v: p.call(p.call(Q, "from_", t), "select", p.call(p.call(p.new("Case"), "when", p.bin("==", p.call(t, "field", "a"), 1), 0), "else_", v)),
    "case-when": lambda p, Q, t, v: p.call(p.call(Q, "from_", t), "select", p.call(p.new("Case"), "when", p.bin("==", p.call(t, "field", "a"), v), 0)),
    "column-default": lambda p, Q, t, v: p.call(p.call(Q, "create_table", t), "columns", p.new("Column", "c", "T", default=v)),
    "do-update": lambda p, Q, t, v: p.call(p.call(p.call(p.call(Q, "into", t), "insert", 1), "on_conflict", "id"), "do_update", "a", v),
    "arithmetic": lambda p, Q, t, v: p.call(p.call(Q, "from_", t), "select", p.bin("+", p.call(t, "field", "a"), v)),
    "tuple": lambda p, Q, t, v: p.call(_sel(p, Q, t), "where", p.bin("==", p.new("Tuple", p.call(t, "field", "a"), p.call(t, "field", "b")), p.new("Tuple", 1, v))),
    "orderby-const": lambda p, Q, t, v: p.call(_sel(p, Q, t), "orderby", p.new("ValueWrapper", v)),
    "subquery-where": lambda p, Q, t, v: p.call(_sel(p, Q, t), "where", p.call(p.call(t, "field", "b"), "isin", p.call(_sel(p, Q, p.new("Table", "u")), "where", p.bin("==", p.call(p.new("Table", "u"), "field", "c"), v)))),
    "union-operand": lambda p, Q, t, v: p.call(_sel(p, Q, t), "union", p.call(p.call(Q, "from_", t), "select", v)),
    "union-operand-where": lambda p, Q, t, v: p.call(_sel(p, Q, t), "union", p.call(_sel(p, Q, t), "where", p.bin("==", p.call(t, "field", "b"), v))),
    "intersect-base-function": lambda p, Q, t, v: p.call(p.call(p.call(Q, "from_", t), "select", p.new("fn.Coalesce", p.call(t, "field", "a"), v)), "intersect", _sel(p, Q, t)),
    "json-term": lambda p, Q, t, v: p.call(p.call(Q, "from_", t), "select", p.new("JSON", v)),
    "json-contains": lambda p, Q, t, v: p.call(_sel(p, Q, t), "where", p.call(p.new("JSON", v), "contains", p.call(t, "field", "j"))),
    "load-file-name": lambda p, Q, t, v: p.call(p.call(Q, "load", v), "into", t),
    "limit": lambda p, Q, t, v: p.call(_sel(p, Q, t), "limit", v),
    "offset": lambda p, Q, t, v: p.call(p.call(_sel(p, Q, t), "limit", 5), "offset", v),
    "returning": lambda p, Q, t, v: p.call(p.call(p.call(Q, "into", t), "insert", 1), "returning", v),
    "mysql-on-duplicate": lambda p, Q, t, v: p.call(p.call(p.call(p.call(Q, "into", t), "insert", 1), "on_conflict"), "do_update", "a", v),
}
STR_ONLY = {"where-like", "load-file-name"}
INT_ONLY = {"limit", "offset"}
JSON_ONLY = {"json-term", "json-contains"}
PG_ONLY = {"returning"}
MYSQL_ONLY = {"mysql-on-duplicate", "load-file-name"}
NOT_FOR = {  # positions whose API does not take the kind as a value
    "none": {"do-update", "mysql-on-duplicate", "select-only", "replace", "column-default"},  # default=None: no default  # do_update(field, None) means EXCLUDED; insert(None) skipped
    "json": {"where-in", "insert-rows", "tuple", "arithmetic", "insert", "replace"},  # lists are row/array syntax there
}
LIST_AS_ARRAY = {"select", "select-only", "where-eq", "where-ne", "where-lt", "where-ge", "where-between", "having", "join-on", "set",
                 "set-str-field", "function-arg", "case-then", "case-else", "case-when", "union-operand", "subquery-where", "returning", "union-operand-where", "intersect-base-function"}


def applicable(pos, kind, d, v=None):
    if pos == "load-file-name":
        return kind == "str" and d == "MySQLQuery" and bool(v)  # (without a file name the builder is incomplete and renders nothing)
    if pos in STR_ONLY:
        return kind == "str"
    if pos in ("select", "select-only", "union-operand", "returning") and (kind == "str" or isinstance(v, str)):
        return False  # a str (also a str-mixin enum member) passed to select()/returning() is a column name by API contract, not a value
    if pos in INT_ONLY:
        return kind == "int" and v is not None and 0 <= v < 2**31
    if pos in JSON_ONLY:
        return kind in ("json", "str")
    if pos in PG_ONLY and d != "PostgreSQLQuery":
        return False
    if pos in MYSQL_ONLY and d != "MySQLQuery":
        return False
    if pos in NOT_FOR.get(kind, ()):
        return False
    if pos in ("insert-list-row-single", "insert-tuple-row-single", "insert-list-row", "replace-list-row-single"):
        return not isinstance(v, (list, tuple)) and v is not None  # (a nested list is an array value; None rows are skipped)
    if kind == "json" and isinstance(v, list) and pos in LIST_AS_ARRAY:
        return False  # a Python list means an SQL array / row there, not a JSON value
    if kind == "enum" and pos == "select-valuewrapper":
        return True
    return True


def cases(tier, seed, shard, nshards):
    k = 0
    ks = kinds()
    for d in DIALECT_CLASSES:
        for pos in POSITIONS:
            for kind, vals in ks.items():
                for label, v in vals:
                    if not applicable(pos, kind, d, v):
                        continue
                    k += 1
                    if k % nshards == shard:
                        yield {"pos": pos, "d": d, "kind": kind, "label": label, "v": enc(v), "x": True}
    # numeric literals next to minus signs (binary minus, unary minus, left-most leaf of a product under a minus)
    from ..values import DECIMAL_VALUES, FLOAT_VALUES, INT_VALUES
    for d in DIALECT_CLASSES:
        for shape in MINUS_SHAPES:
            for v in INT_VALUES + FLOAT_VALUES + DECIMAL_VALUES + [-0.0, -1.5, -1e-7, decimal.Decimal("-2.50")]:
                k += 1
                if k % nshards == shard:
                    yield {"k": "minus", "d": d, "shape": shape, "v": enc(v)}
    n = (160000 if tier == "quick" else 2400000) // nshards
    rnd = random.Random("C05:%d:%d" % (seed, shard))
    plist = list(POSITIONS)
    for i in range(n):
        kind, v = random_value(rnd)
        d = DIALECT_CLASSES[i % 6]
        for _ in range(20):
            pos = rnd.choice(plist)
            if applicable(pos, kind, d, v):
                break
        else:
            continue
        yield {"pos": pos, "d": d, "kind": kind, "label": "random", "v": enc(v)}


def render_at(pos, d, v):
    p = P()
    t = p.new("Table", "t")
    r = POSITIONS[pos](p, Cls(d), t, v)
    env = run(p.prog(), d)
    o = env[r.i]
    if isinstance(o, Failed):
        return None, o
    from ..fingerprint import contexts
    reg = registry()
    with hooks.collect() as tree:
        try:
            # through the dialect class's own context (DDL builders and set operations have no default of their own)
            sql = o.get_sql(contexts()[d])
        except Exception as e:
            return None, Failed(e, -1)
    tree.obj = o
    # the same statement rendered the way users do it: str() / get_sql() without a context
    tree.default_sql = None
    try:
        if isinstance(o, reg["_SetOperation"]):
            tree.default_sql = str(o)
        elif isinstance(o, reg["QueryBuilder"]):
            tree.default_sql = o.get_sql()
    except Exception as e:
        tree.default_sql = "<exc:%s>" % type(e).__name__
    return sql, tree


def expect_decode(kind, v, toks, d, text):
    """Does the middle token list denote v? returns None if yes, else a reason."""
    if isinstance(v, enum.Enum):
        v = v.value
        kind = {str: "str", int: "int"}[type(v)]
    if kind == "none":
        if len(toks) == 1 and toks[0].kind == "WORD" and toks[0].value == "NULL":
            return None
        return "expected NULL"
    if kind == "bool":
        if len(toks) == 1 and toks[0].kind == "WORD" and toks[0].value in ("TRUE", "FALSE"):
            return None if (toks[0].value == "TRUE") == v else "boolean flipped"
        if len(toks) == 1 and toks[0].kind == "NUM" and toks[0].text in ("0", "1"):
            return None if (toks[0].text == "1") == v else "boolean flipped"
        return "expected a boolean literal"
    if kind in ("int", "float", "decimal"):
        neg = False
        ts = list(toks)
        if len(ts) == 2 and ts[0].kind == "OP" and ts[0].text == "-":
            neg = True
            ts = ts[1:]
        if len(ts) != 1 or ts[0].kind != "NUM" or ts[0].value is None:
            return "expected one numeric literal"
        val = ts[0].value.copy_negate() if neg else ts[0].value
        if kind == "float":
            return None if float(val) == v else "number differs (%s)" % val
        return None if val == decimal.Decimal(v) else "number differs (%s)" % val
    if len(toks) != 1 or toks[0].kind != "STR":
        return "expected one string literal, got %d token(s) %s" % (len(toks), [t.kind for t in toks][:6])
    got = toks[0].value
    if kind == "str":
        return None if got == v else "string decodes to %r" % got[:80]
    if kind == "date" or kind == "datetime":
        return None if got == v.isoformat() else "temporal text %r" % got
    if kind == "time":
        ok = got == v.isoformat() or (DIALECT_OF[d] == "mysql" and got == v.replace(tzinfo=None).isoformat())
        return None if ok else "temporal text %r" % got
    if kind == "uuid":
        return None if got == str(v) else "uuid text %r" % got
    if kind == "json":
        try:
            return None if json.loads(got) == v else "JSON text decodes to a different value: %r" % got[:120]
        except Exception:
            return "literal is not valid JSON: %r" % got[:120]
    return "unknown kind"


_con = None


def sqlite_eval(text):
    global _con
    if _con is None:
        _con = sqlite3.connect(":memory:")
    return _con.execute("SELECT " + text).fetchone()[0]


def sqlite_matches(kind, v, got):
    if isinstance(v, enum.Enum):
        v = v.value
        kind = {str: "str", int: "int"}[type(v)]
    if kind == "none":
        return got is None
    if kind == "bool":
        return got == (1 if v else 0)
    if kind == "int":
        if abs(v) < 2**63:
            return got == v
        # beyond 64 bits SQLite falls back to a float (its text-to-float conversion is not correctly rounded)
        return isinstance(got, float) and abs(got - float(v)) <= abs(float(v)) * 1e-14
    if kind == "float":
        # SQLite's text-to-float conversion is not correctly rounded for extreme exponents: allow 1 ulp-ish slack
        return isinstance(got, (int, float)) and (got == v or abs(got - v) <= abs(v) * 1e-14)
    if kind == "decimal":
        return got is not None and abs(decimal.Decimal(repr(got)) - decimal.Decimal(v)) <= abs(decimal.Decimal(v)) * decimal.Decimal("1e-12")
    if kind == "str":
        return got == v
    if kind in ("date", "datetime", "time"):
        return got == v.isoformat()
    if kind == "uuid":
        return got == str(v)
    if kind == "json":
        try:
            return json.loads(got) == v
        except Exception:
            return False
    return False


def feature(kind, v):
    """Coarse mechanism label of what makes the value hostile (part of the known-finding key)."""
    if isinstance(v, enum.Enum):
        v = v.value
    if kind == "json":
        s = json.dumps(v)
        if "'" in s:
            return "json-quote"
        if "\\" in s:
            return "json-backslash"
        return "json"
    if isinstance(v, str):
        if "\\" in v:
            return "str-backslash"
        if "'" in v:
            return "str-quote"
        if '"' in v:
            return "str-dquote"
        return "str"
    return kind


MINUS_SHAPES = ["a-v", "-v", "a-v*b", "a-(-v)", "v-a", "-(v*b)", "a-v/b"]


def run_minus(case, mon):
    """A numeric literal that may be spelt with a leading minus, placed next to minus operators: the statement must lex without a
    comment, contain the literal's digits exactly once, and (SQLite) evaluate to what Python computes for the same tree."""
    reg = registry()
    d = case["d"]
    v = Interp().dec(case["v"])
    Q = reg[d]
    t = reg["Table"]("t")
    W = reg["ValueWrapper"]
    a, b = t.a, t.b
    shape = case["shape"]
    tree = {"a-v": lambda: a - v, "-v": lambda: -W(v), "a-v*b": lambda: a - W(v) * b, "a-(-v)": lambda: a - (-W(v)), "v-a": lambda: W(v) - a,
            "-(v*b)": lambda: -(W(v) * b), "a-v/b": lambda: a - W(v) / b}[shape]()
    sql = Q.from_(t).select(tree).get_sql(contexts()[d])
    fam = DIALECT_OF[d] if d != "Query" else "generic"
    toks = tokenize(sql, d)
    mon.count("minus_adjacent_statements")
    bad = [tk for tk in toks if tk.kind in ("COMMENT", "ERR")]
    if bad:
        mon.violation("%s:minus-fuses-into-comment:%s" % (fam, shape), "%r next to a minus sign (%s): %s token %r in %r" % (v, shape, bad[0].kind, bad[0].text[:20], sql))
        return
    nums = [tk for tk in toks if tk.kind == "NUM"]
    if len(nums) != 1 or abs(nums[0].value) != abs(decimal.Decimal(repr(v)) if isinstance(v, float) else decimal.Decimal(v)):
        mon.violation("%s:minus-literal-lost:%s" % (fam, shape), "%r (%s): the statement does not contain the literal's magnitude exactly once: %r" % (v, shape, sql))
        return
    if d == "SQLLiteQuery" and abs(float(v)) < 1e15 and (abs(float(v)) > 1e-300 or float(v) == 0):
        av, bv = 10.0, 4.0
        fv = float(v)
        want = {"a-v": av - fv, "-v": -fv, "a-v*b": av - fv * bv, "a-(-v)": av - (-fv), "v-a": fv - av, "-(v*b)": -(fv * bv), "a-v/b": av - fv / bv}[shape]
        con = sqlite3.connect(":memory:")
        try:
            con.execute("CREATE TABLE t(a REAL, b REAL)")
            con.execute("INSERT INTO t VALUES (10.0, 4.0)")
            got = con.execute(sql).fetchone()[0]
            mon.count("sqlite_engine_evaluations")
            if not isinstance(got, (int, float)) or abs(got - want) > 1e-9 * max(1.0, abs(want)):
                mon.violation("sqlite:minus-value:%s" % shape, "%r (%s): SQLite evaluates %r to %r, the tree means %r" % (v, shape, sql, got, want))
                return
        except sqlite3.Error as e:
            mon.violation("sqlite:minus-rejected:%s" % shape, "%r (%s): SQLite rejects %r: %s" % (v, shape, sql, e))
            return
        finally:
            con.close()
    mon.nontrivial(["minus", d, shape, repr(v)])


def run_case(case, mon):
    if case.get("k") == "minus":
        return run_minus(case, mon)
    d, pos, kind = case["d"], case["pos"], case["kind"]
    v = Interp().dec(case["v"])
    marker = MARKERS[kind]
    if kind == "bool":
        marker = not v
    if kind == "enum":
        marker = [m for m in type(v) if m is not v][0]
    if pos in JSON_ONLY:
        kind = "json"  # a str given to JSON() is a JSON string value: the literal must hold its JSON text
        marker = MARKERS["json"]
    sql_v, tree = render_at(pos, d, v)
    sql_m, _ = render_at(pos, d, marker)
    mon.count("cases_" + DIALECT_OF[d])
    if sql_v is None or sql_m is None:
        exc = tree.exc if sql_v is None else _.exc
        mon.count("rejected_by_library")
        mon.add("rejections", "%s:%s:%s" % (pos, kind, type(exc).__name__))
        # a supported value kind at a value position must render
        if not (pos in ("limit", "offset") or (pos == "select-only" and kind == "str")):
            mon.violation("%s:%s:raises:%s" % (DIALECT_OF[d], pos, type(exc).__name__),
                          "rendering %s value at position %s raised %s: %s" % (kind, pos, type(exc).__name__, str(exc)[:120]))
        return
    renderers = sorted({e[0] for e in tree.value_events})
    tv, tm = tokenize(sql_v, d), tokenize(sql_m, d)
    sv, sm = sig(tv), sig(tm)
    mon.count("token_streams_compared")
    mon.add("cells", "%s|%s|%s" % (pos, case["kind"], DIALECT_OF[d]))
    mon.add("renderers", "%s:%s" % (pos, "+".join(renderers) or "-"))
    # common prefix / suffix
    a = 0
    while a < len(sv) and a < len(sm) and sv[a] == sm[a]:
        a += 1
    b = 0
    while b < len(sv) - a and b < len(sm) - a and sv[len(sv) - 1 - b] == sm[len(sm) - 1 - b]:
        b += 1
    mid_v = tv[a:len(tv) - b]
    mid_m = tm[a:len(tm) - b]
    rcls = "+".join(renderers) or ("JSON" if pos.startswith("json") else "-")
    key = "%s:%s:%s" % (DIALECT_OF[d], feature(kind, v), rcls)
    if pos in JSON_ONLY:
        key = "%s:json-term:JSON" % DIALECT_OF[d]
    if v == marker and type(v) is type(marker):
        return
    problem = None
    # the marker occupies exactly one literal (or sign + number)
    if not (1 <= len(mid_m) <= 2):
        # value and marker may share a prefix of tokens (e.g. both negative): widen by one token to the left
        problem = None
    if problem is None:
        # widen the window to whole literal tokens: if middle is empty the value rendered identically to the marker
        if not mid_v:
            problem = "value rendered exactly like the marker"
        else:
            why = expect_decode(kind, v, mid_v, d, sql_v)
            if why is not None and a > 0 and tv[a - 1].kind == "OP" and tv[a - 1].text == "-":
                why2 = expect_decode(kind, v, tv[a - 1:len(tv) - b], d, sql_v)
                why = why2 if why2 is None else why
            problem = why
    if any(t.kind in ("ERR", "COMMENT") for t in tv):
        bad = [t for t in tv if t.kind in ("ERR", "COMMENT")][0]
        problem = (problem or "") + " [%s token %r in the statement]" % (bad.kind, bad.text[:40])
    if problem:
        mon.violation(key, "%s %r at %s/%s: %s; emitted %r (marker statement %r)" % (
            kind, v if not isinstance(v, str) else v[:60], pos, d, problem, _short(sql_v), _short(sql_m)),
            {"sql": sql_v, "marker_sql": sql_m, "renderers": renderers})
        return
    mon.count("literals_decoded_ok")
    # (a) the default render path (str() / get_sql() without context) must agree with the explicit dialect context
    if tree.default_sql is not None:
        mon.count("default_render_comparisons")
        if tree.default_sql != sql_v:
            mon.violation("%s:default-render-differs:%s" % (DIALECT_OF[d], rcls), "%s %r at %s/%s: str()/get_sql() gives %r but the dialect context gives %r" % (
                kind, v if not isinstance(v, str) else v[:40], pos, d, _short(tree.default_sql), _short(sql_v)))
            return
    # (b) rendering the same object under another dialect in between must not change what it renders here
    from ..fingerprint import contexts
    other = "MySQLQuery" if d != "MySQLQuery" else "PostgreSQLQuery"
    try:
        tree.obj.get_sql(contexts()[other])
        again = tree.obj.get_sql(contexts()[d])
        mon.count("cross_dialect_rerenders")
        if again != sql_v:
            mon.violation("%s:render-order-dependent:%s" % (DIALECT_OF[d], rcls), "%s at %s: after a render under %s the same object renders %r instead of %r" % (
                kind, pos, other, _short(again), _short(sql_v)))
            return
        # and a fresh object first rendered under the other dialect
        p2 = P()
        t2 = p2.new("Table", "t")
        r2 = POSITIONS[pos](p2, Cls(d), t2, v)
        o2 = run(p2.prog(), d)[r2.i]
        o2.get_sql(contexts()[other])
        fresh = o2.get_sql(contexts()[d])
        if fresh != sql_v:
            mon.violation("%s:render-order-dependent:%s" % (DIALECT_OF[d], rcls), "%s at %s: an object first rendered under %s renders %r under %s, a fresh one %r" % (
                kind, pos, other, _short(fresh), d, _short(sql_v)))
            return
    except Exception:
        pass
    # (c) values that stay inline while a parameterizer is active (enum members, wrappers made with allow_parametrize=False) are
    #     written exactly as without one: every string literal of the parameterised rendering is a literal of the inline rendering
    if kind in ("str", "enum") and pos not in JSON_ONLY and pos not in INT_ONLY:
        reg = registry()
        try:
            if kind == "enum":
                o3, inline3 = tree.obj, sql_v
            else:
                p3 = P()
                t3 = p3.new("Table", "t")
                r3 = POSITIONS[pos](p3, Cls(d), t3, p3.new("ValueWrapper", v, allow_parametrize=False))
                o3 = run(p3.prog(), d)[r3.i]
                inline3 = None if isinstance(o3, Failed) else o3.get_sql(contexts()[d])
            if inline3 is not None:
                param3 = o3.get_sql(contexts()[d].copy(parameterizer=reg["Parameterizer"]()))
                lits_i = [t_.text for t_ in tokenize(inline3, d) if t_.kind == "STR"]
                lits_p = [t_.text for t_ in tokenize(param3, d) if t_.kind in ("STR", "ERR", "COMMENT")]
                mon.count("inline_under_parameterizer_comparisons")
                odd = [x_ for x_ in lits_p if x_ not in lits_i]
                if odd:
                    mon.violation("%s:inline-under-parameterizer-differs:%s" % (DIALECT_OF[d], kind), "%s %r at %s/%s stays inline under a parameterizer but is written %r there; "
                                  "without one the statement is %r" % (kind, v if not isinstance(v, str) else v[:60], pos, d, odd[0][:80], _short(inline3)))
                    return
        except Exception:
            mon.count("inline_under_parameterizer_unbuildable")
    if DIALECT_OF[d] == "sqlite":
        text = sql_v[mid_v[0].start:mid_v[-1].end]
        if a > 0 and tv[a - 1].kind == "OP" and tv[a - 1].text == "-" and kind in ("int", "float", "decimal"):
            text = sql_v[tv[a - 1].start:mid_v[-1].end]
        if "\0" in text:
            mon.count("sqlite_engine_skipped_nul")
        else:
            try:
                got = sqlite_eval(text)
                mon.count("sqlite_engine_evaluations")
                if not sqlite_matches(kind, v, got):
                    mon.violation("sqlite:engine:%s:%s" % (feature(kind, v), rcls),
                                  "SQLite evaluates the emitted literal %r to %r, not %r" % (text[:80], got, v))
                    return
            except sqlite3.Error as e:
                mon.violation("sqlite:engine-error:%s:%s" % (feature(kind, v), rcls),
                              "SQLite rejects the emitted literal %r: %s" % (text[:80], e))
                return
    simple = isinstance(v, str) and v.isalnum() or (isinstance(v, int) and not isinstance(v, bool) and 0 <= v < 100)
    if not simple:
        mon.nontrivial([pos, d, case["v"]])
    if mon.evaluations % 997 == 1:
        mon.sample({"position": pos, "dialect": d, "kind": kind, "value": repr(v)[:80], "sql": _short(sql_v)})


def _short(s, n=220):
    return s if len(s) <= n else s[:n] + "..."


def post(m, tier, inconclusive):
    ks = kinds()
    want = set()
    for d in DIALECT_CLASSES:
        for pos in POSITIONS:
            for kind, vals in ks.items():
                if any(applicable(pos, kind, d, v) for _, v in vals):
                    want.add("%s|%s|%s" % (pos, kind, DIALECT_OF[d]))
    cells = m["sets"].get("cells", set())
    rej = m["sets"].get("rejections", set())
    missing = sorted(c for c in want - cells if not any(r.startswith(c.split("|")[0] + ":" + c.split("|")[1]) for r in rej))
    m["_cells_wanted"] = len(want)
    if missing:
        inconclusive.append("empty (position, kind, dialect) cells: %s" % missing[:12])


def coverage_extra(m, tier):
    return {"cells_required": m.get("_cells_wanted"), "cells_observed": len(m["sets"].get("cells", ())), "exhaustive": True,
            "explanation": "the product position x named value class x dialect is enumerated completely on both tiers"}


def FLOORS(tier):
    return {"inline_under_parameterizer_comparisons": 20000, "token_streams_compared": 20000, "sqlite_engine_evaluations": 3000}
