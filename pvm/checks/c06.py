"""C06 - operator grouping of the expression tree survives rendering.

Every generated expression tree is built with the real operators/methods, rendered under the six dialect contexts
(bare, in the select list, in WHERE), lexed and parsed by the reference precedence parser, and the tree read back is
compared with the tree that was built, modulo the value-preserving re-associations the property allows.  For the SQLite
context the engine evaluates the rendering and the fully parenthesised reference on generated integer/NULL assignments
(guards the parser, and yields a distinguishing assignment for the witness).
"""
from __future__ import annotations

import itertools
import random
import sqlite3

from ..exprparse import ParseError, norm, parse_expr, unbracket
from ..fingerprint import contexts
from ..lex import DIALECT_OF, tokenize
from ..prog import DIALECT_CLASSES, registry

PROP = "C06"
LEVEL = "exploration"
RULE = ("exhaustive: every (parent, position, child) triple over 17 node kinds x 7 leaf kinds, and every depth-2 composition "
        "of + - * / unary-minus and of AND/OR/NOT over comparisons; sampled depth-3 compositions (48k quick / 3M thorough) "
        "and seeded random trees to depth 7; each under six dialect contexts in bare / select-list / WHERE position. "
        "non-trivial = the tree has at least one compound child; distinct = canonical tree"
        " also: MOD, FILTER conjunctions, negated predicates, explicit Bracket nodes, Criterion.any/all groups as parents; every tree again after an unrelated replace_table and a copy. (DESIGN.md 6a)")
ASSUMPTIONS = [
    "reference precedence: OR < XOR < AND < NOT < comparison/IS/IN/BETWEEN/LIKE < + - < * / < unary minus, binary levels "
    "left-associative (comparisons included: most lenient standard reading)",
    "value corroboration uses SQLite semantics (integer division, NULL propagation) on sampled assignments",
]
ANCHORS = ["ArithmeticExpression.get_sql", "ArithmeticExpression.left_needs_parens", "ArithmeticExpression.right_needs_parens",
           "ComplexCriterion.get_sql", "ComplexCriterion.needs_brackets", "Not.get_sql", "Negative.get_sql",
           "BasicCriterion.get_sql", "ContainsCriterion.get_sql", "BetweenCriterion.get_sql", "NullCriterion.get_sql",
           "Case.get_sql", "Function.get_sql"]
WORKERS = {"quick": 16, "thorough": 16}
WATCHDOG = {"quick": 900, "thorough": 3300}

LEAVES = ["field", "posint", "negint", "float", "negfloat", "str", "null"]
PARENTS = {  # kind -> positions
    "add": ["l", "r"], "sub": ["l", "r"], "mul": ["l", "r"], "div": ["l", "r"], "neg": ["a"],
    "eq": ["l", "r"], "lt": ["l", "r"], "like": ["l", "p"], "in": ["l", "v"], "between": ["l", "lo", "hi"],
    "notin": ["l", "v"], "in-negated": ["l", "v"], "notlike": ["l", "p"], "notnull": ["l"],
    # a caller-defined subclass of the arithmetic node as parent (operands are ordinary nodes)
    "add-subclass": ["l", "r"], "sub-subclass": ["l", "r"], "mul-subclass": ["l", "r"], "div-subclass": ["l", "r"],
    "bracket": ["a"], "any": ["l", "r"], "all": ["l", "r"], "any3": ["l", "r"],
    "isnull": ["l"], "not": ["a"], "and": ["l", "r"], "or": ["l", "r"], "xor": ["l", "r"], "fn": ["a0", "a1"], "mod": ["a0", "a1"],
    "case": ["c", "t", "e"],
}
COMPOUND = list(PARENTS)
BOOLISH = {"eq", "lt", "like", "in", "between", "isnull", "not", "and", "or", "xor", "notin", "in-negated", "notlike", "notnull", "any", "all", "any3"}


class Names:
    def __init__(self):
        self.n = 0

    def field(self):
        self.n += 1
        return {"t": "f", "n": "f%d" % self.n}


def leaf(kind, names):
    if kind == "field":
        return names.field()
    return {"t": "c", "v": {"posint": 7, "negint": -3, "float": 2.5, "negfloat": -1.5, "str": "s", "null": None}[kind]}


def mk(kind, names, **child):
    """A node of the given kind whose unspecified operands are fresh fields."""
    g = lambda pos: child.get(pos) or names.field()  # noqa: E731
    if kind in ("add", "sub", "mul", "div"):
        return {"t": "bin", "o": {"add": "+", "sub": "-", "mul": "*", "div": "/"}[kind], "l": g("l"), "r": g("r")}
    if kind.endswith("-subclass"):
        return {"t": "bin", "o": {"add": "+", "sub": "-", "mul": "*", "div": "/"}[kind.split("-")[0]], "l": g("l"), "r": g("r"), "cls": "subclass"}
    if kind == "neg":
        return {"t": "neg", "a": g("a")}
    if kind in ("eq", "lt"):
        return {"t": "cmp", "o": "==" if kind == "eq" else "<", "l": g("l"), "r": g("r")}
    if kind == "like":
        return {"t": "like", "o": "LIKE", "l": g("l"), "p": child.get("p") or {"t": "c", "v": "a%"}}
    if kind == "in":
        return {"t": "in", "l": g("l"), "vs": [child.get("v") or {"t": "c", "v": 1}, {"t": "c", "v": 2}], "neg": False}
    if kind in ("notin", "in-negated"):  # the negated form has its own flag (set by notin() or by negate() on the IN predicate)
        return {"t": "in", "l": g("l"), "vs": [child.get("v") or {"t": "c", "v": 1}, {"t": "c", "v": 2}], "neg": True, "via": kind}
    if kind == "notlike":
        return {"t": "like", "o": "NOT LIKE", "l": g("l"), "p": child.get("p") or {"t": "c", "v": "a%"}}
    if kind == "notnull":
        return {"t": "not", "a": {"t": "isnull", "l": g("l")}, "via": "notnull"}
    if kind == "between":
        return {"t": "between", "l": g("l"), "lo": child.get("lo") or {"t": "c", "v": 1}, "hi": child.get("hi") or {"t": "c", "v": 9}}
    if kind == "isnull":
        return {"t": "isnull", "l": g("l")}
    if kind == "bracket":  # an explicit Bracket(...) wrapper: its parentheses are part of the tree
        return {"t": "bracket", "a": child.get("a") or mk("add", names)}
    if kind in ("any", "all"):  # groups built by the helpers Criterion.any / Criterion.all
        return {"t": "or" if kind == "any" else "and", "l": child.get("l") or mk("eq", names), "r": child.get("r") or mk("lt", names), "via": kind}
    if kind == "any3":
        return {"t": "or", "l": {"t": "or", "l": child.get("l") or mk("eq", names), "r": mk("isnull", names)}, "r": child.get("r") or mk("lt", names), "via": "any3"}
    if kind == "not":
        return {"t": "not", "a": child.get("a") or mk("eq", names)}
    if kind in ("and", "or", "xor"):
        return {"t": kind, "l": child.get("l") or mk("eq", names), "r": child.get("r") or mk("lt", names)}
    if kind == "fn":
        return {"t": "fn", "n": "COALESCE", "args": [g("a0"), g("a1")]}
    if kind == "mod":  # a function a dialect may prefer to spell as an infix operator
        return {"t": "fn", "n": "MOD", "args": [g("a0"), g("a1")]}
    if kind == "case":
        return {"t": "case", "w": [[child.get("c") or mk("eq", names), g("t")]], "e": g("e")}
    raise ValueError(kind)


_AMOUNT = None


def _amount_class(reg):
    """A caller's own subclass of the arithmetic node (adds nothing)."""
    global _AMOUNT
    if _AMOUNT is None:
        class Amount(reg["ArithmeticExpression"]):
            pass
        _AMOUNT = Amount
    return _AMOUNT


def triple(parent, pos, child_kind):
    names = Names()
    child = leaf(child_kind, names) if child_kind in LEAVES else mk(child_kind, names)
    return mk(parent, names, **{pos: child})


def arith_set(names, depth):
    """All arithmetic trees of exactly the given construction depth over {+,-,*,/,neg} with 3 leaf kinds."""
    leaves = [lambda: names.field(), lambda: {"t": "c", "v": 4}, lambda: {"t": "c", "v": -2}]
    if depth == 0:
        return [f for f in leaves]
    sub = arith_set(names, depth - 1)
    out = list(sub) if depth > 1 else list(leaves)
    lower = sub if depth > 1 else leaves
    res = list(lower)
    for o in "+-*/":
        for a in lower:
            for b in lower:
                res.append(lambda o=o, a=a, b=b: {"t": "bin", "o": o, "l": a(), "r": b()})
    for a in lower:
        res.append(lambda a=a: {"t": "neg", "a": a()})
    return res


def bool_set(names, depth):
    leaves = [lambda: mk("eq", names), lambda: mk("isnull", names), lambda: names.field()]
    lower = leaves if depth <= 1 else bool_set(names, depth - 1)
    res = list(lower)
    for k in ("and", "or", "xor"):
        for a in lower:
            for b in lower:
                res.append(lambda k=k, a=a, b=b: {"t": k, "l": a(), "r": b()})
    for a in lower:
        res.append(lambda a=a: {"t": "not", "a": a()})
    return res


def random_tree(rnd, depth, names, want_bool=False):
    if depth <= 0 or rnd.random() < 0.25:
        if want_bool and rnd.random() < 0.5:
            return mk(rnd.choice(["eq", "lt", "isnull"]), names)
        return leaf(rnd.choice(LEAVES if rnd.random() < 0.4 else ["field"]), names)
    kind = rnd.choice(COMPOUND)
    ch = {}
    for pos in PARENTS[kind]:
        if kind in ("and", "or", "xor", "not", "any", "all", "any3") or (kind == "case" and pos == "c"):
            ch[pos] = random_tree(rnd, depth - 1, names, True)
            if ch[pos]["t"] in ("c",) or (ch[pos]["t"] in ("bin", "neg", "fn", "case")):
                ch[pos] = mk("eq", names, l=ch[pos])
        elif pos in ("p",):
            continue
        else:
            ch[pos] = random_tree(rnd, depth - 1, names)
    return mk(kind, names, **ch)


def cases(tier, seed, shard, nshards):
    k = 0
    # several conditions handed to an aggregate / analytic FILTER: an implicit AND over groups that keep their own brackets
    bool_kinds = ["eq", "lt", "like", "in", "between", "isnull", "not", "and", "or", "xor"]
    for host in ("agg-one-call", "agg-two-calls", "analytic-one-call"):
        for c1 in bool_kinds:
            for c2 in bool_kinds:
                for c3 in (None, "or", "eq"):
                    k += 1
                    if k % nshards == shard:
                        yield {"k": "filter", "host": host, "conds": [c1, c2] + ([c3] if c3 else [])}
    for parent, positions in PARENTS.items():
        for pos in positions:
            for child in COMPOUND + LEAVES:
                k += 1
                if k % nshards == shard:
                    yield {"k": "triple", "p": parent, "pos": pos, "c": child, "tree": triple(parent, pos, child)}
    names = Names()
    for mkt in arith_set(names, 2):
        k += 1
        if k % nshards == shard:
            names.n = 0
            yield {"k": "arith2", "tree": mkt()}
    for mkt in bool_set(names, 2):
        k += 1
        if k % nshards == shard:
            names.n = 0
            yield {"k": "bool2", "tree": mkt()}
    rnd = random.Random("C06:%d:%d" % (seed, shard))
    d2 = arith_set(names, 2)
    b2 = bool_set(names, 2)
    # depth-3 compositions: op x depth-2 x depth-2 is ~2*10^8 trees, so they are sampled (seeded) on both tiers
    n3 = (48000 if tier == "quick" else 3000000) // nshards
    for _ in range(n3):
        names.n = 0
        if rnd.random() < 0.7:
            yield {"k": "arith3", "tree": {"t": "bin", "o": rnd.choice("+-*/"), "l": rnd.choice(d2)(), "r": rnd.choice(d2)()}}
        else:
            yield {"k": "bool3", "tree": {"t": rnd.choice(["and", "or", "xor"]), "l": rnd.choice(b2)(), "r": rnd.choice(b2)()}}
    n = (24000 if tier == "quick" else 500000) // nshards
    made = 0
    while made < n:
        names.n = 0
        t = random_tree(rnd, rnd.randint(2, 7), names, rnd.random() < 0.4)
        # main stream: trees free of the two recorded mechanisms, so that any violation here is new by construction;
        # the recorded mechanisms are exercised on purpose by the exhaustive triple / depth-2 / depth-3 parts
        if has_known_mechanism(t):
            continue
        made += 1
        yield {"k": "random", "tree": t}


# ---------------------------------------------------------------------------------------------- build with the library
class Unbuildable(Exception):
    pass


def build(t):
    reg = registry()
    k = t["t"]
    if k == "f":
        return reg["Field"](t["n"])
    if k == "c":
        return reg["NullValue"]() if t["v"] is None else reg["ValueWrapper"](t["v"])
    try:
        if k == "bin" and t.get("cls") == "subclass":
            l, r = build(t["l"]), build(t["r"])
            A = reg["Arithmetic"]
            return _amount_class(reg)({"+": A.add, "-": A.sub, "*": A.mul, "/": A.div}[t["o"]], l, r)
        if k == "bin":
            l, r = build(t["l"]), build(t["r"])
            return {"+": l.__add__, "-": l.__sub__, "*": l.__mul__, "/": l.__truediv__}[t["o"]](r)
        if k == "neg":
            return -build(t["a"])
        if k == "cmp":
            l, r = build(t["l"]), build(t["r"])
            # (constructed directly: Python would call the *reflected* operator first when type(r) is a subclass of
            #  type(l), e.g. BasicCriterion == ComplexCriterion, which legitimately swaps the operands)
            return reg["BasicCriterion"](reg["Equality"].eq if t["o"] == "==" else reg["Equality"].lt, l, r)
        if k == "like":
            return build(t["l"]).not_like(build(t["p"])) if t["o"] == "NOT LIKE" else build(t["l"]).like(build(t["p"]))
        if k == "in":
            if t.get("neg"):
                if t.get("via") == "in-negated":
                    return build(t["l"]).isin([build(v) for v in t["vs"]]).negate()
                return build(t["l"]).notin([build(v) for v in t["vs"]])
            return build(t["l"]).isin([build(v) for v in t["vs"]])
        if k == "not" and t.get("via") == "notnull":
            return build(t["a"]["l"]).notnull()
        if k == "between":
            return build(t["l"]).between(build(t["lo"]), build(t["hi"]))
        if k == "isnull":
            return build(t["l"]).isnull()
        if k == "not":
            return ~build(t["a"])
        if k == "bracket":
            return reg["Bracket"](build(t["a"]))
        if k in ("and", "or") and t.get("via") in ("any", "all", "any3"):
            if t["via"] == "any3":
                parts = [build(t["l"]["l"]), build(t["l"]["r"]), build(t["r"])]
            else:
                parts = [build(t["l"]), build(t["r"])]
            if not all(isinstance(x, reg["Criterion"]) for x in parts):
                raise Unbuildable("%s needs criteria" % t["via"])
            return reg["Criterion"].all(parts) if t["via"] == "all" else reg["Criterion"].any(parts)
        if k in ("and", "or", "xor"):
            l, r = build(t["l"]), build(t["r"])
            if not isinstance(l, reg["Criterion"]) or not isinstance(r, reg["Criterion"]):
                raise Unbuildable("%s needs criteria" % k)
            return {"and": l.__and__, "or": l.__or__, "xor": l.__xor__}[k](r)
        if k == "fn" and t["n"] == "MOD":
            return reg["Mod"](*[build(a) for a in t["args"]])
        if k == "fn":
            return reg["fn.Coalesce"](*[build(a) for a in t["args"]])
        if k == "case":
            c = reg["Case"]()
            for cond, v in t["w"]:
                c = c.when(build(cond), build(v))
            if t.get("e") is not None:
                c = c.else_(build(t["e"]))
            return c
    except (AttributeError, TypeError) as e:
        raise Unbuildable(str(e))
    raise ValueError(k)


def ref_sql(t):
    """Fully parenthesised SQLite text of the tree (the reference)."""
    k = t["t"]
    if k == "f":
        return '"%s"' % t["n"]
    if k == "c":
        v = t["v"]
        if v is None:
            return "NULL"
        if isinstance(v, str):
            return "'" + v.replace("'", "''") + "'"
        return "(%r)" % v if v < 0 else repr(v)
    if k == "bin":
        return "(%s %s %s)" % (ref_sql(t["l"]), t["o"], ref_sql(t["r"]))
    if k == "neg":
        return "(- %s)" % ref_sql(t["a"])
    if k == "cmp":
        return "(%s %s %s)" % (ref_sql(t["l"]), {"==": "="}.get(t["o"], t["o"]), ref_sql(t["r"]))
    if k == "like":
        return "(%s %s %s)" % (ref_sql(t["l"]), t["o"], ref_sql(t["p"]))
    if k == "in":
        return "(%s %sIN (%s))" % (ref_sql(t["l"]), "NOT " if t.get("neg") else "", ", ".join(ref_sql(v) for v in t["vs"]))
    if k == "between":
        return "(%s BETWEEN %s AND %s)" % (ref_sql(t["l"]), ref_sql(t["lo"]), ref_sql(t["hi"]))
    if k == "isnull":
        return "(%s IS NULL)" % ref_sql(t["l"])
    if k == "bracket":
        return "(%s)" % ref_sql(t["a"])
    if k == "not":
        return "(NOT %s)" % ref_sql(t["a"])
    if k in ("and", "or"):
        return "(%s %s %s)" % (ref_sql(t["l"]), k.upper(), ref_sql(t["r"]))
    if k == "fn" and t["n"] == "MOD":
        return "MOD(%s, %s)" % (ref_sql(t["args"][0]), ref_sql(t["args"][1]))  # (SQLite's % truncates to integers, MOD() does not)
    if k == "fn":
        return "COALESCE(%s)" % ", ".join(ref_sql(a) for a in t["args"])
    if k == "case":
        return "(CASE %s%s END)" % (" ".join("WHEN %s THEN %s" % (ref_sql(c), ref_sql(v)) for c, v in t["w"]),
                                    " ELSE " + ref_sql(t["e"]) if t.get("e") is not None else "")
    raise Unbuildable("no sqlite reference for %s" % k)


def fields_of(t, out):
    if isinstance(t, dict):
        if t.get("t") == "f":
            out.add(t["n"])
        for v in t.values():
            fields_of(v, out)
    elif isinstance(t, list):
        for v in t:
            fields_of(v, out)
    return out


def has_kind(t, kinds):
    if isinstance(t, dict):
        if t.get("t") in kinds:
            return True
        return any(has_kind(v, kinds) for v in t.values())
    if isinstance(t, list):
        return any(has_kind(v, kinds) for v in t)
    return False


_con = None


def engine_compare(tree, sql, rnd):
    """Evaluate rendering and reference on 8 assignments. Returns None, or (assignment, got, expected), or 'error: ..'."""
    global _con
    if _con is None:
        _con = sqlite3.connect(":memory:")
    fs = sorted(fields_of(tree, set())) or ["f0"]
    rows = []
    for _ in range(8):
        rows.append([rnd.choice([None, 0, 1, -1, 2, 3, -5, 7, 10]) for _ in fs])
    vals = ",".join("(" + ",".join("NULL" if v is None else str(v) for v in r) + ")" for r in rows)
    q = 'WITH v(%s) AS (VALUES %s) SELECT (%s), (%s) FROM v' % (",".join('"%s"' % f for f in fs), vals, sql, ref_sql(tree))
    try:
        res = _con.execute(q).fetchall()
    except sqlite3.Error as e:
        return "error: %s" % e
    for r, (got, exp) in zip(rows, res):
        if got != exp and not (isinstance(got, float) and isinstance(exp, float) and abs(got - exp) < 1e-9):
            return (dict(zip(fs, r)), got, exp)
    return None


def cat(t):
    k = t["t"]
    if k == "bin":
        return {"+": "add", "-": "sub", "*": "mul", "/": "div"}[t["o"]]
    if k == "c":
        v = t["v"]
        if isinstance(v, (int, float)) and not isinstance(v, bool) and v < 0:
            return "negative-literal"
        return "leaf"
    if k == "f":
        return "leaf"
    if k == "cmp":
        return "comparison"
    return k


def children(t):
    k = t["t"]
    if k == "bin" or k in ("and", "or", "xor") or k == "cmp":
        return [("left", t["l"]), ("right", t["r"])]
    if k in ("neg", "not", "bracket"):
        return [("operand", t["a"])]
    if k == "like":
        return [("left", t["l"]), ("pattern", t["p"])]
    if k == "in":
        return [("left", t["l"])] + [("item", v) for v in t["vs"]]
    if k == "between":
        return [("left", t["l"]), ("low", t["lo"]), ("high", t["hi"])]
    if k == "isnull":
        return [("left", t["l"])]
    if k == "fn":
        return [("arg", a) for a in t["args"]]
    if k == "case":
        out = []
        for c, v in t["w"]:
            out += [("when", c), ("then", v)]
        if t.get("e") is not None:
            out.append(("else", t["e"]))
        return out
    return []


def fails(tree, dname="Query"):
    """Does the bare rendering of tree under dname fail the structural oracle? (None = ok, else reason)"""
    try:
        o = build(tree)
    except Unbuildable:
        return None
    sql = o.get_sql(contexts()[dname])
    try:
        back = parse_expr(sql, dname)
    except ParseError as e:
        return "does not parse: %s" % e
    if norm(back) != norm(tree):
        return "regrouped"
    return None


def with_children(t, new):
    """Copy of node t whose children (in children(t) order) are replaced by the nodes in `new`."""
    t = dict(t)
    it = iter(new)
    k = t["t"]
    if k in ("bin", "and", "or", "xor", "cmp"):
        t["l"], t["r"] = next(it), next(it)
    elif k in ("neg", "not", "bracket"):
        t["a"] = next(it)
    elif k == "like":
        t["l"], t["p"] = next(it), next(it)
    elif k == "in":
        t["l"] = next(it)
        t["vs"] = [next(it) for _ in t["vs"]]
    elif k == "between":
        t["l"], t["lo"], t["hi"] = next(it), next(it), next(it)
    elif k == "isnull":
        t["l"] = next(it)
    elif k == "fn":
        t["args"] = [next(it) for _ in t["args"]]
    elif k == "case":
        t["w"] = [[next(it), next(it)] for _ in t["w"]]
        if t.get("e") is not None:
            t["e"] = next(it)
    return t


def variants(t, names):
    """Trees obtained from t by one simplification step (a compound subtree -> fresh field, or -> one of its children)."""
    kids = children(t)
    if t["t"] in ("f", "c"):
        return
    # simplify the root itself: hoist a compound child
    for pos, ch in kids:
        if ch["t"] not in ("f", "c"):
            yield ch
    for i, (pos, ch) in enumerate(kids):
        if ch["t"] == "f":
            continue
        # child -> field (criterion placeholder is a field too: Field is a Criterion)
        yield with_children(t, [names.field() if j == i else k for j, (_, k) in enumerate(kids)])
        if ch["t"] != "c":
            for v in variants(ch, names):
                yield with_children(t, [v if j == i else k for j, (_, k) in enumerate(kids)])


def size(t):
    return 1 + sum(size(ch) for _, ch in children(t))


def shrink(tree, dname, budget=400):
    names = Names()
    names.n = 500
    cur = tree
    n = 0
    progress = True
    while progress and n < budget:
        progress = False
        for v in variants(cur, names):
            n += 1
            if n >= budget:
                break
            try:
                if size(v) < size(cur) and fails(v, dname):
                    cur = v
                    progress = True
                    break
            except Exception:
                continue
    return cur


def shape(t):
    kids = children(t)
    if not kids or t["t"] in ("f", "c"):
        return cat(t)
    return "%s(%s)" % (cat(t), ",".join(shape(ch) if ch["t"] not in ("f",) else "_" for _, ch in kids))


def left_spine_starts_with_div(t):
    while t["t"] == "bin" and t["o"] == "*":
        t = t["l"]
    return t["t"] == "bin" and t["o"] == "/"


def find_not_operand(t):
    """(parent category, position) of a NOT node that is an operand of a non-boolean parent."""
    kids = children(t)
    if kids and t["t"] not in ("and", "or", "xor", "not", "case", "fn", "neg"):
        for pos, k in kids:
            if k["t"] == "not" and not (t["t"] == "in" and pos == "item"):
                return cat(t), pos
    for _, ch in kids:
        r = find_not_operand(ch)
        if r:
            return r
    return None


def has_known_mechanism(t):
    """Does the tree contain one of the two recorded mechanisms (x*(y/z..), NOT as first operand)?"""
    if find_not_operand(t):
        return True
    if t["t"] == "bin" and t["o"] == "*" and left_spine_starts_with_div(t["r"]):
        return True
    return any(has_known_mechanism(ch) for _, ch in children(t))


def mechanism(tree, dname):
    """Mechanism key of the smallest failing construct inside tree (greedy shrinking, then classification)."""
    m = shrink(tree, dname)
    if m["t"] == "bin" and m["o"] == "*" and left_spine_starts_with_div(m["r"]):
        return "mul/right/div"
    nf = find_not_operand(m)
    if nf:
        return "not-operand/%s/%s" % nf
    kids = children(m)
    if len([1 for _, ch in kids if ch["t"] not in ("f",)]) == 1 and size(m) <= 6:
        for pos, ch in kids:
            if ch["t"] != "f":
                return "%s/%s/%s" % (cat(m), pos, cat(ch))
    return "shape:" + shape(m)


def extract(sql, prefix, suffix):
    if sql.startswith(prefix) and sql.endswith(suffix):
        return sql[len(prefix):len(sql) - len(suffix)]
    return None


def run_filter(case, mon):
    reg = registry()
    names = Names()
    conds = [mk(c, names) for c in case["conds"]]
    tree = conds[0]
    for c in conds[1:]:
        tree = {"t": "and", "l": tree, "r": c}
    want = norm(unbracket(tree))
    try:
        built = [build(c) for c in conds]
    except Unbuildable:
        mon.count("unbuildable_with_python_operators")
        return
    x = reg["Field"]("agg_x")
    if case["host"] == "agg-one-call":
        o = reg["fn.Sum"](x).filter(*built)
    elif case["host"] == "agg-two-calls":
        o = reg["fn.Sum"](x).filter(built[0])
        for b in built[1:]:
            o = o.filter(b)
    else:
        o = reg["an.Sum"](x).filter(*built).over(reg["Field"]("agg_p"))
    for dname, ctx in contexts().items():
        sql = o.get_sql(ctx)
        i = sql.find("FILTER(WHERE ")
        if i < 0:
            mon.violation("filter:missing:%s" % case["host"], "no FILTER(WHERE ..) in %r" % sql[:200])
            return
        # the text up to the bracket that closes FILTER(
        depth, j = 1, i + len("FILTER(")
        toks_text = sql[j:]
        end = None
        instr = False
        for n_, ch in enumerate(toks_text):
            if ch == "'":
                instr = not instr
            if instr:
                continue
            if ch == "(":
                depth += 1
            elif ch == ")":
                depth -= 1
                if depth == 0:
                    end = n_
                    break
        inner = toks_text[len("WHERE "):end]
        mon.count("renders_parsed")
        mon.count("filter_conjunctions_parsed")
        try:
            back = norm(parse_expr(inner, dname))
            problem = None if back == want else "reads back as a different tree"
        except ParseError as e:
            problem = "does not parse (%s)" % e
        if problem:
            mon.violation("filter-conjunction:%s:%s" % (case["host"], "+".join(sorted(set(case["conds"])))),
                          "%s: FILTER conditions %s render %r, which %s" % (dname, case["conds"], inner[:200], problem), {"sql": sql})
            return
    mon.nontrivial(["filter", case["host"], case["conds"]])


def run_case(case, mon):
    if case["k"] == "filter":
        return run_filter(case, mon)
    tree = case["tree"]
    reg = registry()
    if case["k"] == "triple":
        mon.add("triples", "%s/%s/%s" % (case["p"], case["pos"], case["c"]))
    try:
        o = build(tree)
    except Unbuildable:
        # e.g. an arithmetic term as operand of AND: the Python API offers no operator for it
        mon.count("unbuildable_with_python_operators")
        if case["k"] == "triple":
            mon.add("triples_unbuildable", "%s/%s/%s" % (case["p"], case["pos"], case["c"]))
        return
    want = norm(unbracket(tree))
    compound = any(ch["t"] not in ("f", "c") for _, ch in children(tree))
    if compound or cat(tree) != "leaf":
        mon.nontrivial(tree)
    ctxs = contexts()
    rot = mon.evaluations % 6
    for di, (dname, ctx) in enumerate(ctxs.items()):
        renders = [("bare", o.get_sql(ctx))]
        if di == rot:
            # the same tree after builder calls that do not concern it (a table swap naming tables it does not use, a copy): the
            # operators and their grouping are still the ones that were built
            try:
                import copy as _copy
                o2 = o.replace_table(reg["Table"]("zz_unrelated"), reg["Table"]("yy_unrelated"))
                renders.append(("after-replace_table", o2.get_sql(ctx)))
                renders.append(("after-copy", _copy.copy(o).get_sql(ctx)))
                mon.count("renders_after_unrelated_builder_calls", 2)
            except Exception as e_:
                mon.violation("raises-after-builder-call:%s" % type(e_).__name__, "replace_table / copy of the built tree raised %r; tree %s" % (e_, ref_or_repr(tree)[:160]))
                return
        if di == rot or di == (rot + 3) % 6:
            t = reg["Table"]("t")
            q = reg[dname].from_(t).select(o)
            s = q.get_sql()
            qc = ctx.quote_char
            ex = extract(s, "SELECT ", " FROM %st%s" % (qc, qc))
            if ex is not None:
                renders.append(("select", ex))
            if isinstance(o, reg["Criterion"]):
                s = reg[dname].from_(t).select("x").where(o).get_sql()
                ex = extract(s, "SELECT %sx%s FROM %st%s WHERE " % (qc, qc, qc, qc), "")
                if ex is not None:
                    renders.append(("where", ex))
        for where, sql in renders:
            mon.count("renders_parsed")
            try:
                back = norm(parse_expr(sql, dname))
                problem = None if back == want else "reads back as a different tree"
            except ParseError as e:
                problem = "does not parse under standard precedence (%s)" % e
            except RecursionError:
                mon.inconc("parser recursion on %r" % sql[:100])
                return
            if problem:
                key = mechanism(tree, dname)
                witness = None
                if not has_kind(tree, {"xor"}) and where == "bare":
                    try:
                        witness = engine_compare(tree, o.get_sql(ctxs["SQLLiteQuery"]), random.Random(1))
                    except Unbuildable:
                        witness = None
                mon.violation(key, "%s rendering %r %s; built tree %s" % (dname, sql[:200], problem, ref_or_repr(tree)[:200]),
                              {"dialect": dname, "position": where, "sql": sql, "distinguishing_assignment": witness})
                return
    mon.count("trees_read_back_ok")
    # engine corroboration (guards the parser)
    if not has_kind(tree, {"xor"}):
        try:
            w = engine_compare(tree, o.get_sql(ctxs["SQLLiteQuery"]), random.Random(mon.evaluations))
        except Unbuildable:
            w = "skip"
        if w is None:
            mon.count("sqlite_value_agreements")
        elif w == "skip":
            pass
        elif isinstance(w, str):
            mon.count("sqlite_errors")
            mon.add("sqlite_error_kinds", w[:60])
        else:
            mon.violation("engine-disagrees:" + mechanism(tree, "Query"),
                          "parser accepted %r but SQLite evaluates it to %r instead of %r under %r" % (
                              o.get_sql(ctxs["SQLLiteQuery"])[:200], w[1], w[2], w[0]))
            return
    if mon.evaluations % 499 == 1:
        mon.sample({"tree": ref_or_repr(tree), "sql": o.get_sql(ctxs["Query"])})


def ref_or_repr(tree):
    try:
        return ref_sql(tree)
    except Unbuildable:
        return repr(norm(tree))


def post(m, tier, inconclusive):
    want = {"%s/%s/%s" % (p, pos, c) for p, ps in PARENTS.items() for pos in ps for c in COMPOUND + LEAVES}
    got = m["sets"].get("triples", set())
    if want - got:
        inconclusive.append("triples not covered: %s" % sorted(want - got)[:10])
    m["_triples"] = len(want)


def coverage_extra(m, tier):
    return {"triples_required": m.get("_triples"), "triples_covered": len(m["sets"].get("triples", ())), "exhaustive": True,
            "explanation": "all parent/position/child triples and all depth-2 compositions are enumerated on both tiers"}


def FLOORS(tier):
    return {"renders_parsed": 50000, "sqlite_value_agreements": 3000}
