"""C02 - rendering is a pure, repeatable, process-independent function.

Three monitors over one corpus of generated objects (statements of every kind and dialect class, set operations, DDL,
terms):
  history  - random render histories (str/get_sql/get_parameterized_sql/hash/==/fields_/tables_ under the six contexts):
             every output must equal the first output under its key; afterwards every live object must fingerprint
             exactly like a never-rendered rebuild of itself; a caller-supplied Parameterizer must grow by exactly the
             render's own values.
  process  - the same corpus rendered in child interpreters with different PYTHONHASHSEED; digests must agree.
  threads  - one shared object rendered from 8 threads with 1us switch interval and LINE-event yield injection inside
             pypika_tortoise frames; every output must equal the single-threaded baseline (taken on a twin).
"""
from __future__ import annotations

import hashlib
import json
import os
import random
import subprocess
import sys
import threading
import time

from .. import VERIF
from ..fingerprint import F, S, S_parts, contexts, fdiff, norm_value, render
from ..gen import Forest, statement
from ..prog import DIALECT_CLASSES, P, Cls, Failed, registry, run, show, slice_program, phash

PROP = "C02"
LEVEL = "exploration"
RULE = ("corpus = seeded random statements (select/set-operation/insert/update/delete/create/drop/load) and term forests "
        "for each of the six dialect classes plus fixed UPDATE..JOIN and FOR UPDATE OF(>=3) programs; each object gets a "
        "random render history of 12-40 operations; the process monitor renders the corpus and a sign-flipped twin of every "
        "program in child interpreters that differ in PYTHONHASHSEED and in the order in which the objects are rendered "
        "(forward / reverse / shuffled) - digests per object must agree; non-trivial = the object rendered non-empty SQL in at least one "
        "context and the history repeated at least one (object, op, context) key; distinct = distinct program hash"
        " also: module-level state and interpreter settings snapshotted per worker, renders under changed decimal precision / rounding / TZ, renders aborted half-way by a refusing parameterizer, names beyond identifier limits, an aliased INSERT target under threads, a statement too deep to render. (DESIGN.md 6a)")
ASSUMPTIONS = [
    "hash seeds are sampled (4 quick / 24 thorough), not all 2^64",
    "thread interleavings are those produced by switchinterval=1us plus seeded sleep(0) injection at LINE events; "
    "GIL granularity is one bytecode",
]
ANCHORS = ["QueryBuilder.get_sql", "QueryBuilder.get_parameterized_sql", "SqlContext.copy", "_SetOperation.get_sql",
           "PostgreSQLQueryBuilder.get_sql", "SQLLiteQueryBuilder.get_sql", "QueryBuilder._for_update_sql",
           "MySQLQueryBuilder.get_sql", "CreateQueryBuilder.get_sql", "Term.__hash__", "Table.__hash__"]
WORKERS = {"quick": 16, "thorough": 16}
WATCHDOG = {"quick": 600, "thorough": 3000}

KINDS = ["select", "select", "setop", "insert", "update", "delete", "create", "drop"]
SPECIAL_KINDS = {"update-join", "for-update-of", "update-from", "dialect-sensitive-constants", "dialect-sensitive-set", "sign-twins", "mutable-builder", "mutable-builder-setop", "unnamed-source-by-replace", "long-names", "aliased-insert-target", "cte-name-crosstalk", "load-file-names"}


def special_programs(d):
    """Always-included programs: UPDATE..JOIN and FOR UPDATE OF with >= 3 targets, for dialect class d."""
    out = []
    p = P()
    t1 = p.new("Table", "t1")
    t2 = p.new("Table", "t2")
    q = p.call(Cls(d), "update", t1)
    j = p.call(q, "join", t2)
    q = p.call(j, "on", p.bin("==", p.call(t1, "field", "id"), p.call(t2, "field", "id")))
    q = p.call(q, "set", p.call(t1, "field", "a"), p.call(t2, "field", "b"))
    q = p.call(q, "where", p.bin(">", p.call(t2, "field", "c"), 3))
    out.append((p.prog(dialect=d, kind="update-join"), q.i))
    p = P()
    t1 = p.new("Table", "t1")
    q = p.call(p.call(Cls(d), "from_", t1), "select", p.call(t1, "field", "a"))
    q = p.call(q, "for_update", of=("t1", "zeta", "alpha", "m_table", "b2"))
    out.append((p.prog(dialect=d, kind="for-update-of"), q.i))
    # a statement that can be built but is too deep to render at the interpreter's default recursion limit (a left-deep sum of 700
    # columns), with a value rendered before the deep part: every render, inline or parameterised, first or later, ends the same way
    p = P()
    t1 = p.new("Table", "t1")
    acc = p.call(t1, "field", "c0")
    for i_ in range(1, 700):
        acc = p.bin("+", acc, p.call(t1, "field", "c%d" % i_))
    q = p.call(p.call(p.call(Cls(d), "from_", t1), "select", p.call(t1, "field", "id")), "where", p.bin("==", p.call(t1, "field", "name"), "x"))
    q = p.call(q, "where", p.bin(">", acc, 5))
    out.append((p.prog(dialect=d, kind="too-deep-to-render"), q.i))
    # two statements whose CTEs have set-operation bodies; the second reads a table named like the first one's CTE: what one render
    # learns must not show in the other
    p = P()
    tx, ty = p.new("Table", "tx"), p.new("Table", "ty")
    body1 = p.call(p.call(p.call(Cls(d), "from_", tx), "select", p.call(tx, "field", "id")), "union", p.call(p.call(Cls(d), "from_", ty), "select", p.call(ty, "field", "id")))
    s1 = p.call(p.call(p.call(Cls(d), "with_", body1, "n1"), "from_", p.new("AliasedQuery", "n1")), "select", "id")
    tn = p.new("Table", "n1")
    body2 = p.call(p.call(p.call(Cls(d), "from_", tn), "select", p.call(tn, "field", "id")), "union_all",
                   p.call(p.call(p.call(p.call(Cls(d), "from_", tn), "join", p.new("AliasedQuery", "r1")), "on", p.bin("==", p.call(tn, "field", "id"), p.call(p.new("AliasedQuery", "r1"), "field", "id"))), "select", p.call(tn, "field", "id")))
    s2 = p.call(p.call(p.call(Cls(d), "with_", body2, "r1"), "from_", p.new("AliasedQuery", "r1")), "select", "id")
    body3 = p.call(p.call(p.call(Cls(d), "from_", p.new("AliasedQuery", "n1")), "select", "id"), "union", p.call(p.call(Cls(d), "from_", ty), "select", p.call(ty, "field", "id")))
    s3 = p.call(p.call(p.call(p.call(Cls(d), "with_", body1, "n1"), "with_", body3, "n2"), "from_", p.new("AliasedQuery", "n2")), "select", "id")
    out.append((p.prog(dialect=d, kind="cte-name-crosstalk"), s1.i))
    out.append((p.prog(dialect=d, kind="cte-name-crosstalk"), s3.i))
    if d == "MySQLQuery":
        # LOAD DATA with file names that a shell would expand: the statement holds the name as given, whatever HOME / cwd are
        for fn_ in ("~/data/f.csv", "~root/f.csv", "$HOME/f.csv", "rel/dir/f.csv"):
            p = P()
            ld = p.call(p.call(Cls(d), "load", fn_), "into", p.new("Table", "t1"))
            out.append((p.prog(dialect=d, kind="load-file-names"), ld.i))
    # an aliased INSERT target with a column list, a conflict target and assignments (every clause that writes bare column names)
    p = P()
    ta = p.new("Table", "accounts", alias="a")
    ins = p.call(p.call(p.call(Cls(d), "into", ta), "columns", p.call(ta, "field", "id"), "balance"), "insert", 1, 2)
    ins = p.call(p.call(p.call(ins, "on_conflict", p.call(ta, "field", "id")), "do_update", p.call(ta, "field", "balance"), 5), "do_update", "seen")
    sel = p.call(p.call(Cls(d), "from_", ta), "select", p.call(ta, "field", "id"), p.attr(ta, "star"))
    out.append((p.prog(dialect=d, kind="aliased-insert-target"), ins.i))
    out.append((p.prog(dialect=d, kind="aliased-insert-target"), sel.i))
    # names beyond every engine's identifier limit (31, 64 and 130 characters) at every naming site
    for n_ in (31, 64, 130):
        p = P()
        long_ = lambda stem: (stem + "_monthly_customer_invoice_totals_by_region_and_channel" * 3)[:n_]  # noqa: E731
        ta = p.new("Table", "orders", alias=long_("ta"))
        tb = p.new("Table", long_("tb"))
        sub = p.call(p.call(p.call(Cls(d), "from_", tb), "select", p.call(p.call(tb, "field", "id"), "as_", long_("ci"))), "as_", long_("sq"))
        e = p.call(p.bin("+", p.call(ta, "field", "amount"), 1), "as_", long_("ex"))
        q = p.call(p.call(Cls(d), "with_", p.call(p.call(Cls(d), "from_", tb), "select", p.call(tb, "field", "id")), long_("ct")), "from_", ta)
        q = p.call(p.call(q, "join", sub), "on", p.bin("==", p.call(ta, "field", "id"), p.call(sub, "field", long_("ci"))))
        q = p.call(p.call(p.call(q, "select", e, p.attr(ta, "star"), p.call(sub, "field", long_("ci"))), "groupby", e), "orderby", e)
        out.append((p.prog(dialect=d, kind="long-names"), q.i))
        so = p.call(p.call(p.call(p.call(Cls(d), "from_", ta), "select", e), "union", p.call(p.call(Cls(d), "from_", tb), "select", p.call(p.call(tb, "field", "id"), "as_", long_("ex")))), "orderby", e)
        out.append((p.prog(dialect=d, kind="long-names"), so.i))
    p = P()
    t1 = p.new("Table", "t1")
    t2 = p.new("Table", "t2")
    q = p.call(Cls(d), "update", t1)
    q = p.call(q, "from_", t2)
    q = p.call(q, "set", "a", 1)
    q = p.call(q, "where", p.bin("==", p.call(t1, "field", "id"), p.call(t2, "field", "id")))
    out.append((p.prog(dialect=d, kind="update-from"), q.i))
    # constants whose rendering depends on the dialect wrapper: tz-aware temporal values, backslashes/quotes, JSON, booleans
    import datetime as dt
    tz = dt.timezone(dt.timedelta(hours=2))
    consts = [dt.time(9, 30, tzinfo=tz), dt.datetime(2021, 3, 4, 5, 6, 7, tzinfo=tz), "back\\slash 'q'", {"k": "it's \\ \"x\""}, True, [1, "a'b"]]
    p = P()
    t1 = p.new("Table", "t1")
    q = p.call(p.call(Cls(d), "from_", t1), "select", p.call(t1, "field", "a"), *consts[:5])
    q = p.call(q, "where", p.bin("==", p.call(t1, "field", "b"), consts[0]))
    q = p.call(q, "where", p.call(p.call(t1, "field", "c"), "isin", [consts[2], "x"]))
    out.append((p.prog(dialect=d, kind="dialect-sensitive-constants"), q.i))
    p = P()
    t1 = p.new("Table", "t1")
    q = p.call(Cls(d), "update", t1)
    for i, c in enumerate(consts):
        q = p.call(q, "set", p.call(t1, "field", "c%d" % i), c)
    q = p.call(q, "where", p.bin("==", p.call(t1, "field", "id"), consts[1]))
    out.append((p.prog(dialect=d, kind="dialect-sensitive-set"), q.i))
    # values whose twins (sign flipped, see perturb) share everything but the sign: composite intervals, negative numbers
    p = P()
    t1 = p.new("Table", "t1")
    q = p.call(p.call(Cls(d), "from_", t1), "select",
               p.bin("+", p.call(t1, "field", "ts"), p.new("Interval", days=3, hours=20)),
               p.bin("-", p.call(t1, "field", "ts"), p.new("Interval", years=1, months=2)),
               p.bin("+", p.call(t1, "field", "ts"), p.new("Interval", hours=1, minutes=30, seconds=15)),
               p.bin("+", p.call(t1, "field", "n"), 7), 2.5)
    q = p.call(q, "where", p.bin(">", p.call(t1, "field", "a"), p.un("neg", p.call(t1, "field", "b"))))
    q = p.call(q, "limit", 5)
    out.append((p.prog(dialect=d, kind="sign-twins"), q.i))
    # a FROM source swapped for an un-named subquery / set operation by replace_table (never named by from_() or join())
    p = P()
    t1 = p.new("Table", "t1")
    t2 = p.new("Table", "t2")
    sub = p.call(p.call(Cls(d), "from_", t2), "select", p.call(t2, "field", "a"), p.call(t2, "field", "id"))
    q = p.call(p.call(p.call(Cls(d), "from_", t1), "select", p.call(t1, "field", "a")), "where", p.bin(">", p.call(t1, "field", "id"), 3))
    q = p.call(q, "replace_table", t1, sub)
    so = p.call(sub, "union", p.call(p.call(Cls(d), "from_", t2), "select", p.call(t2, "field", "b"), p.call(t2, "field", "id")))
    q2 = p.call(p.call(p.call(Cls(d), "from_", t1), "select", "a"), "replace_table", t1, so)
    outer = p.call(p.call(p.call(Cls(d), "from_", p.call(q, "as_", "w")), "select", "a"), "where", p.call(p.call(t2, "field", "id"), "isin", q2))
    out.append((p.prog(dialect=d, kind="unnamed-source-by-replace"), outer.i))
    # builders in mutable mode (immutable=False): builder calls change the receiver by contract, a render never does
    p = P()
    t1 = p.new("Table", "t1")
    t2 = p.new("Table", "t2")
    q = p.call(Cls(d), "from_", t1, immutable=False)
    p.call(q, "select", p.call(t1, "field", "a"))
    p.call(q, "where", p.bin(">", p.call(t1, "field", "b"), 1))
    p.call(q, "orderby", p.call(t1, "field", "a"))
    so = p.call(q, "union", p.call(p.call(Cls(d), "from_", t2), "select", p.call(t2, "field", "a")))
    so = p.call(p.call(p.call(so, "orderby", p.call(t1, "field", "a")), "limit", 5), "offset", 2)
    out.append((p.prog(dialect=d, kind="mutable-builder-setop"), so.i))
    p = P()
    t1 = p.new("Table", "t1")
    t2 = p.new("Table", "t2")
    q = p.call(Cls(d), "from_", t1, immutable=False)
    p.call(q, "select", p.call(t1, "field", "a"), 7)
    p.call(p.call(q, "join", t2), "on", p.bin("==", p.call(t1, "field", "id"), p.call(t2, "field", "id")))
    p.call(q, "where", p.call(p.call(t1, "field", "c"), "isin", ["x", "y"]))
    p.call(q, "limit", 3)
    outer = p.call(p.call(Cls(d), "from_", p.call(q, "as_", "inner_q")), "select", "a")
    out.append((p.prog(dialect=d, kind="mutable-builder"), outer.i))
    return out


def corpus(tier, seed, shard, nshards):
    """Deterministic list of (program, target var) for this shard."""
    out = []
    k = 0
    for d in DIALECT_CLASSES:
        for sp in special_programs(d):
            if sp[0].get("meta", {}).get("kind") == "too-deep-to-render" and d not in ("Query", "PostgreSQLQuery", "MySQLQuery"):
                continue
            k += 1
            if k % nshards == shard:  # spread over the shards
                out.append(sp)
    n = (1600 if tier == "quick" else 80000) // nshards
    rnd = random.Random("C02:%d:%d" % (seed, shard))
    for i in range(n):
        d = DIALECT_CLASSES[i % 6]
        r = rnd.random()
        if r < 0.8:
            kind = rnd.choice(KINDS) if not (d == "MySQLQuery" and rnd.random() < 0.03) else "load"
            prog, tgt, _ = statement(rnd, d, kind)
        else:
            f = Forest(rnd, d)
            prog = f.grow(rnd.randint(4, 10))
            tgt = len(prog["steps"]) - 1
        out.append((prog, tgt))
    return out


_STATE0 = None


def cases(tier, seed, shard, nshards):
    global _STATE0
    from ..fingerprint import module_state
    _STATE0 = module_state()  # before anything is built or rendered in this worker
    items = corpus(tier, seed, shard, nshards)
    nthread = (64 if tier == "quick" else 1000) // nshards + 1
    for i, (prog, tgt) in enumerate(items):
        yield {"k": "hist", "prog": prog, "tgt": tgt, "h": "%d:%d:%d" % (seed, shard, i)}
        if prog.get("meta", {}).get("kind") in SPECIAL_KINDS:
            for rep in range(1, 6):  # the fixed programs get several different render histories
                yield {"k": "hist", "prog": prog, "tgt": tgt, "h": "%d:%d:%d:%d" % (seed, shard, i, rep)}
        if prog.get("meta", {}).get("kind") == "too-deep-to-render":
            continue  # (one history is enough; the thread monitor's line-event injection would crawl through 700 levels)
        if i < nthread or prog.get("meta", {}).get("kind") in ("update-join", "for-update-of", "dialect-sensitive-set", "aliased-insert-target"):
            yield {"k": "thread", "prog": prog, "tgt": tgt, "h": "%d:%d:%d" % (seed, shard, i)}


OPS = ["str", "sql", "sql", "sqlp", "psql", "hash", "eq", "fields", "tables", "repr"]


def do_op(o, op, ctx):
    reg = registry()
    try:
        if op == "str":
            return str(o)
        if op == "repr":
            r = repr(o)
            return r if "0x" not in r else "<default-repr>"
        if op == "sql":
            return o.get_sql(ctx)
        if op == "sqlp":
            pz = reg["Parameterizer"]()
            s = o.get_sql(ctx.copy(parameterizer=pz))
            return [s, [norm_value(v) for v in pz.values]]
        if op == "psql":
            if not hasattr(o, "get_parameterized_sql"):
                return None
            s, vals = o.get_parameterized_sql(ctx)
            return [s, [norm_value(v) for v in vals]]
        if op == "hash":
            try:
                return hash(o)
            except TypeError:
                return "unhashable"
        if op == "eq":
            r = (o == o)
            return r if isinstance(r, bool) else "term:" + r.get_sql(ctx)
        if op == "fields":
            if not hasattr(o, "fields_"):
                return None
            return sorted(f.get_sql(ctx) for f in o.fields_())
        if op == "tables":
            if not hasattr(o, "tables_"):
                return None
            return sorted(t.get_sql(ctx) for t in o.tables_)
    except RecursionError:
        return "<exc:RecursionError>"
    except Exception as e:
        return "<exc:%s>" % type(e).__name__
    raise ValueError(op)


def moved_attrs(before, o):
    after = S_parts(o)
    return sorted(k for k in set(before) | set(after) if before.get(k) != after.get(k))


def live_objects(env, tgt, rnd, limit=10):
    idx = [i for i, v in enumerate(env) if not isinstance(v, Failed) and hasattr(v, "get_sql") and not isinstance(v, type)]
    if tgt in idx:
        idx.remove(tgt)
    rnd.shuffle(idx)
    return [tgt] + sorted(idx[:limit - 1]) if not isinstance(env[tgt], Failed) else sorted(idx[:limit])


class ambient:
    """Interpreter state a render neither receives nor controls: precision and rounding of the thread's decimal context (every thread
    has its own, so "from several threads" varies it), the process time zone.  A render inside must return what a render outside
    returns.  (The context's `capitals` switch is not varied: str(Decimal) itself follows it - 1E+2 / 1e+2, the same SQL number - and
    the property does not cover a caller who reconfigures the interpreter's number formatting between two renders.)"""

    def __init__(self, rnd):
        self.how = rnd.choice(["decimal-prec-2", "decimal-prec-6-round-up", "tz-kiritimati", "decimal-prec-2+tz", "home-elsewhere", "home-elsewhere+cwd"])

    def __enter__(self):
        import decimal as _d
        import os as _os
        import time as _t
        self.lc = None
        self.tz = None
        if "decimal" in self.how:
            self.lc = _d.localcontext()
            c = self.lc.__enter__()
            if "prec-2" in self.how:
                c.prec = 2
            elif "prec-6" in self.how:
                c.prec = 6
                c.rounding = _d.ROUND_UP
            else:
                c.capitals = 0
        if "tz" in self.how:
            self.tz = _os.environ.get("TZ")
            _os.environ["TZ"] = "Pacific/Kiritimati"
            _t.tzset()
        if "home" in self.how:
            self.home = (_os.environ.get("HOME"), _os.environ.get("USERPROFILE"), _os.getcwd())
            _os.environ["HOME"] = "/nonexistent/home/of/somebody"
            _os.environ["USERPROFILE"] = "/nonexistent/profile"
            if "cwd" in self.how:
                _os.chdir("/")
        return self

    def __exit__(self, *a):
        import os as _os
        import time as _t
        if self.lc is not None:
            self.lc.__exit__(*a)
        if "home" in self.how:
            for k_, v_ in zip(("HOME", "USERPROFILE"), self.home[:2]):
                if v_ is None:
                    _os.environ.pop(k_, None)
                else:
                    _os.environ[k_] = v_
            _os.chdir(self.home[2])
        if "tz" in self.how:
            if self.tz is None:
                _os.environ.pop("TZ", None)
            else:
                _os.environ["TZ"] = self.tz
            _t.tzset()
        return False


def run_hist(case, mon):
    prog, tgt = case["prog"], case["tgt"]
    rnd = random.Random("h:" + case["h"])
    env = run(prog)
    live = live_objects(env, tgt, rnd)
    if not live:
        mon.inconc("no renderable object in program")
        return
    ctxs = contexts()
    cnames = list(ctxs)
    s_pre = {i: S(env[i]) for i in live}
    parts_pre = {i: S_parts(env[i]) for i in live}
    first = {}
    repeated = 0
    nonempty = False
    n = rnd.randint(12, 40)
    # bias the history towards the target statement and a few contexts so that keys repeat
    for step in range(n):
        i = tgt if (tgt in live and rnd.random() < 0.6) else rnd.choice(live)
        op = rnd.choice(OPS)
        cn = rnd.choice(cnames) if rnd.random() < 0.7 else env_dialect(prog)
        if rnd.random() < 0.12:
            # a render that is aborted half-way (the caller's parameterizer refuses its k-th value): whatever the render had
            # put aside must be back in place
            class _Refusing(registry()["Parameterizer"]):
                left = rnd.randint(0, 3)

                def create_param(self, value):
                    if self.left <= 0:
                        raise RuntimeError("refused by the caller's parameterizer")
                    self.left -= 1
                    return super().create_param(value)
            try:
                env[i].get_sql(ctxs[cn].copy(parameterizer=_Refusing()))
                mon.count("refusing_parameterizer_not_reached")
            except RuntimeError:
                mon.count("renders_aborted_half_way")
            except Exception:
                mon.count("renders_aborted_half_way_other_exception")
        if rnd.random() < 0.25:
            with ambient(rnd) as amb:
                out = do_op(env[i], op, ctxs[cn])
            mon.count("renders_under_changed_ambient_state")
            mon.add("ambient_states", amb.how)
        else:
            out = do_op(env[i], op, ctxs[cn])
        mon.count("render_events")
        mon.count("op_" + op)
        key = (i, op, cn if op not in ("str", "hash", "repr") else "-")
        if isinstance(out, str) and out and not out.startswith("<exc"):
            nonempty = True
        if key in first:
            repeated += 1
            mon.count("repeat_comparisons")
            if first[key] != out:
                attrs = moved_attrs(parts_pre[i], env[i])
                mon.violation("%s:nonrepeatable:%s" % (type(env[i]).__name__, ",".join(attrs) or "-"),
                              "v%d %s under %s returned %r first and %r later (history step %d)" % (
                                  i, op, cn, _short(first[key]), _short(out), step),
                              {"var": i, "op": op, "ctx": cn, "first": first[key], "later": out, "moved": attrs})
                return
        else:
            first[key] = out
    # caller-supplied parameterizer: grows by exactly the render's own values
    reg = registry()
    o = env[live[0]]
    cn = env_dialect(prog)
    pz0 = reg["Parameterizer"]()
    try:
        o.get_sql(ctxs[cn].copy(parameterizer=pz0))
        own = [norm_value(v) for v in pz0.values]
        pz1 = reg["Parameterizer"]()
        pz1.values.extend(["pre1", "pre2"])
        o.get_sql(ctxs[cn].copy(parameterizer=pz1))
        got = [norm_value(v) for v in pz1.values]
        mon.count("parameterizer_growth_checks")
        if got != [norm_value("pre1"), norm_value("pre2")] + own:
            mon.violation("%s:parameterizer-growth" % type(o).__name__,
                          "caller's Parameterizer.values grew to %r, expected pre-existing + %r" % (got, own))
    except Exception:
        pass
    # after the history: structure writes are counted, outputs decide
    for i in live:
        if S(env[i]) != s_pre[i]:
            mon.count("structure_writes_during_render")
            mon.add("written_attrs", "%s:%s" % (type(env[i]).__name__, ",".join(moved_attrs(parts_pre[i], env[i]))))
    # every live object must fingerprint like a never-rendered rebuild of itself
    # (the twin comes from re-running the *same* builder-call history without any render in between, so that the
    #  comparison isolates the effect of rendering from the effect of builder calls, which is C01's subject)
    env2 = run(prog)
    for i in live:
        twin = env2[i]
        # the twin is fingerprinted in the opposite context order: render-order state (caches keyed too coarsely) shows up
        fa, fb = F(env[i]), F(twin, reverse=True)
        mon.count("twin_fingerprint_comparisons")
        if fa != fb:
            d = fdiff(fa, fb)
            attrs = moved_attrs(parts_pre[i], env[i])
            mon.violation("%s:changed-by-render:%s" % (type(env[i]).__name__, ",".join(attrs) or "-"),
                          "after the render history v%d differs from a never-rendered twin (same builder calls) in %s: %r vs %r" % (
                              i, d[:4], _short(fa.get(d[0])), _short(fb.get(d[0]))),
                          {"var": i, "keys": d, "rendered": fa.get(d[0]), "fresh": fb.get(d[0]), "moved": attrs})
            return
    if nonempty and repeated:
        mon.nontrivial(phash(prog))
    if mon.evaluations % 97 == 1:
        mon.sample({"program": show(prog)[-8:], "history_ops": n, "repeated_keys": repeated,
                    "sql": _short(do_op(env[live[0]], "sql", ctxs[env_dialect(prog)]))})


def env_dialect(prog):
    return prog.get("meta", {}).get("dialect", "Query")


def _short(x, n=300):
    s = x if isinstance(x, str) else json.dumps(x, default=str)
    return s if len(s) <= n else s[:n] + "..."


# ------------------------------------------------------------------------------------------- threads
_TOOL = 3
_mon_lock = threading.Lock()


class YieldInjector:
    def __init__(self, seed, p=0.15):
        self.rnd = random.Random(seed)
        self.p = p
        self.switches = 0
        self.last = None
        self.yields = 0
        self.mon = sys.monitoring

    def on_line(self, code, line):
        if "pypika_tortoise" not in code.co_filename:
            return self.mon.DISABLE
        tid = threading.get_ident()
        with _mon_lock:
            if self.last is not None and self.last != tid:
                self.switches += 1
            self.last = tid
            y = self.rnd.random() < self.p
            if y:
                self.yields += 1
        if y:
            time.sleep(0)

    def __enter__(self):
        m = self.mon
        try:
            m.use_tool_id(_TOOL, "pvm-yield")
        except ValueError:
            pass
        m.register_callback(_TOOL, m.events.LINE, self.on_line)
        m.set_events(_TOOL, m.events.LINE)
        self.old = sys.getswitchinterval()
        sys.setswitchinterval(1e-6)
        return self

    def __exit__(self, *a):
        m = self.mon
        m.set_events(_TOOL, 0)
        m.register_callback(_TOOL, m.events.LINE, None)
        try:
            m.restart_events()
        except Exception:
            pass
        sys.setswitchinterval(self.old)


def run_thread(case, mon):
    prog, tgt = case["prog"], case["tgt"]
    env = run(prog)
    o = env[tgt]
    if isinstance(o, Failed) or not hasattr(o, "get_sql"):
        return
    twin = run(prog)[tgt]
    ctxs = contexts()
    keys = [(cn, mode) for cn in ctxs for mode in ("sql", "sqlp")]
    base = {k: do_op(twin, k[1], ctxs[k[0]]) for k in keys}
    # the twin must itself be repeatable, otherwise the history monitor reports it; skip noisy baselines
    again = {k: do_op(twin, k[1], ctxs[k[0]]) for k in keys}
    if base != again:
        mon.count("thread_cases_skipped_sequentially_impure")
        return
    nthreads, per = 8, 25
    bad = []
    overl = [0]
    inj = YieldInjector("y:" + case["h"])

    def work(tid):
        r = random.Random("w:%s:%d" % (case["h"], tid))
        if tid % 2:
            import decimal as _d
            _d.getcontext().prec = 3  # (thread-local: every other worker thread has a decimal context of its own)
            _d.getcontext().rounding = _d.ROUND_UP
        for _ in range(per):
            k = r.choice(keys)
            s0 = inj.switches
            out = do_op(o, k[1], ctxs[k[0]])
            if inj.switches != s0:
                with _mon_lock:
                    overl[0] += 1
            if out != base[k]:
                with _mon_lock:
                    bad.append((k, out))

    with inj:
        ths = [threading.Thread(target=work, args=(i,)) for i in range(nthreads)]
        for t in ths:
            t.start()
        for t in ths:
            t.join()
    mon.count("threaded_renders", nthreads * per)
    mon.count("thread_switches_inside_library", inj.switches)
    mon.count("yields_injected", inj.yields)
    mon.count("renders_overlapped_by_a_switch", overl[0])
    mon.count("threaded_objects")
    mon.add("switch_signatures", "%d/%d" % (inj.switches // 50, overl[0] // 10))
    if bad:
        k, out = bad[0]
        mon.violation("%s:thread-interleaving" % type(o).__name__,
                      "concurrent render under %s/%s returned %r, single-threaded baseline %r (%d/%d renders differ)" % (
                          k[0], k[1], _short(out), _short(base[k]), len(bad), nthreads * per),
                      {"ctx": k[0], "mode": k[1], "got": out, "baseline": base[k]})
    elif overl[0]:
        mon.nontrivial("thread:" + phash(prog))


def run_case(case, mon):
    if case["k"] == "hist":
        run_hist(case, mon)
    elif case["k"] == "thread":
        run_thread(case, mon)
    else:
        raise ValueError(case["k"])


# ------------------------------------------------------------------------------------------- processes
def perturb(prog):
    """Twin of a program: same calls and names, numeric constants negated (booleans and strings kept).  Rendered next to
    the original in the digest children, it is the neighbour most likely to collide with it in any cache that is keyed too coarsely."""
    def pv(v):
        if isinstance(v, bool) or v is None or isinstance(v, str):
            return v
        if isinstance(v, int):
            return -v
        if isinstance(v, list):
            return [pv(x) for x in v]
        if isinstance(v, dict):
            if v.get("$") in ("r", "cls", "Q", "enum", "slice"):
                return v
            if v.get("$") in ("float", "dec", "int"):
                t = v["v"]
                return dict(v, v=t[1:] if t.startswith("-") else "-" + t)
            return {k: (pv(x) if k in ("v", "a", "k") else x) for k, x in v.items()}
        return v
    steps = []
    for st in prog["steps"]:
        st = dict(st)
        if "a" in st:
            st["a"] = pv(st["a"])
        if isinstance(st.get("k"), dict):
            st["k"] = {k: pv(x) for k, x in st["k"].items()}
        steps.append(st)
    out = {"steps": steps}
    if "meta" in prog:
        out["meta"] = prog["meta"]
    return out


def digest_items(tier, seed, shard, nshards, limit):
    """[(label, program, target)]: the corpus of the shard, each program followed by its perturbed twin."""
    out = []
    for i, (prog, tgt) in enumerate(corpus(tier, seed, shard, nshards)[:limit]):
        out.append(("%05d" % i, prog, tgt))
        out.append(("%05d~" % i, perturb(prog), tgt))
    return out


def digest_order(n, order):
    idx = list(range(n))
    if order == "reverse":
        idx.reverse()
    elif order.startswith("shuffle"):
        random.Random(order).shuffle(idx)
    return idx


def digest_main(argv):
    """child: print one digest line per (program, context, mode) of this shard's corpus and of the perturbed twins; the objects
    are rendered in the given order (forward / reverse / shuffle<k>) and the lines are printed sorted by program label."""
    tier, seed, shard, nshards, limit = argv[0], int(argv[1]), int(argv[2]), int(argv[3]), int(argv[4])
    order = argv[5] if len(argv) > 5 else "forward"
    ctxs = contexts()
    items = digest_items(tier, seed, shard, nshards, limit)
    lines = []
    for j in digest_order(len(items), order):
        label, prog, tgt = items[j]
        try:
            env = run(prog)
        except Exception:
            continue
        o = env[tgt]
        if isinstance(o, Failed) or not hasattr(o, "get_sql"):
            continue
        cns = list(ctxs)
        if order != "forward":
            cns.reverse()
        for cn in cns:
            for mode in ("sql", "sqlp"):
                out = do_op(o, mode, ctxs[cn])
                h = hashlib.sha256(json.dumps(out, default=str).encode()).hexdigest()[:16]
                lines.append("%s %s %s %s" % (label, cn, mode, h))
        lines.append("%s - str %s" % (label, hashlib.sha256(str(do_op(o, "str", None)).encode()).hexdigest()[:16]))
    lines.sort()
    print("\n".join(lines))


def hash_seeds(tier, seed):
    if tier == "quick":
        return ["0", "1", "2", "3"]
    return [str(x) for x in range(16)] + [str(1000 + seed * 8 + i) for i in range(8)]


def child_order(k):
    """Render order of the k-th child: the first two differ in the hash seed only, the others also in the order."""
    return "forward" if k < 2 else ("reverse" if k % 2 == 0 else "shuffle%d" % k)


def spawn_digest(tier, seed, shard, nshards, limit, hs, order):
    env = dict(os.environ)
    env["PYTHONHASHSEED"] = hs
    env["PYTHONPATH"] = VERIF + os.pathsep + env.get("PYTHONPATH", "")
    return subprocess.Popen([sys.executable, "-m", "pvm.checks.c02", "digest", tier, str(seed), str(shard), str(nshards), str(limit), order],
                            cwd=VERIF, env=env, stdout=subprocess.PIPE, stderr=subprocess.PIPE, text=True)


def check_module_state(mon):
    """Nothing that was built or rendered in this worker wrote to a module-level object or a class attribute of the package."""
    from ..fingerprint import module_state
    now = module_state()
    mon.count("module_level_objects_compared", len(now))
    for lab in sorted(set(now) | set(_STATE0 or {})):
        if (_STATE0 or {}).get(lab) != now.get(lab):
            mon.violation("module-state:%s" % lab.replace("pypika_tortoise.", ""),
                          "the shared object %s differs from what it was before this worker built and rendered its corpus" % lab, case={"k": "module-state"})


def finish(mon, tier, seed, shard, nshards):
    check_module_state(mon)
    limit = 120 if tier == "quick" else 6000
    seeds = hash_seeds(tier, seed)
    outs = {}
    procs = []
    for k, hs in enumerate(seeds):
        procs.append((hs, spawn_digest(tier, seed, shard, nshards, limit, hs, child_order(k))))
        if len(procs) >= 4:
            for hs2, p in procs:
                so, se = p.communicate(timeout=1500)
                outs[hs2] = (p.returncode, so, se)
            procs = []
    for hs2, p in procs:
        so, se = p.communicate(timeout=1500)
        outs[hs2] = (p.returncode, so, se)
    ref = None
    for k, hs in enumerate(seeds):
        rc, so, se = outs[hs]
        if rc != 0:
            mon.inconc("digest child PYTHONHASHSEED=%s failed rc=%s: %s" % (hs, rc, se[-500:]))
            continue
        lines = so.splitlines()
        mon.count("child_interpreters")
        mon.add("child_render_orders", child_order(k))
        mon.count("cross_process_digests", len(lines))
        mon.count("cross_process_twin_digests", sum(1 for ln in lines if "~" in ln.split()[0]))
        if ref is None:
            ref = (hs, lines, k)
            continue
        if lines != ref[1]:
            # first differing line -> program label; re-render in-process to show the text
            da, db = dict((ln.rsplit(" ", 1)) for ln in ref[1]), dict((ln.rsplit(" ", 1)) for ln in lines)
            diff = sorted(x for x in set(da) | set(db) if da.get(x) != db.get(x))
            a = diff[0] if diff else "(different number of lines)"
            label = a.split()[0]
            idx = int(label.rstrip("~")) if label[0].isdigit() else -1
            items = corpus(tier, seed, shard, nshards)
            prog, tgt = items[idx] if idx >= 0 else ({"steps": []}, 0)
            if label.endswith("~"):
                prog = perturb(prog)
            o = run(prog)[tgt] if idx >= 0 else None
            cls = type(o).__name__ if o is not None else "?"
            same_order = child_order(k) == child_order(ref[2])
            what = "hash-seed-dependent" if same_order else "render-order-or-hash-seed-dependent"
            mon.violation("%s:%s:%s" % (cls, what, _mech(o)),
                          "digest of %r is %s in the child with PYTHONHASHSEED=%s (objects rendered %s) but %s with PYTHONHASHSEED=%s (rendered %s); "
                          "%d digest lines differ; text here: %s" % (a, da.get(a), ref[0], child_order(ref[2]), db.get(a), hs, child_order(k), len(diff), _short(str(o))),
                          {"seeds": [ref[0], hs], "orders": [child_order(ref[2]), child_order(k)], "lines": diff[:10]},
                          case={"k": "proc", "prog": prog, "tgt": tgt, "seeds": [ref[0], hs], "orders": [child_order(ref[2]), child_order(k)],
                                "args": [tier, seed, shard, nshards, limit]})
            return


def _mech(o):
    if o is None:
        return "-"
    if getattr(o, "_for_update_of", None):
        return "_for_update_of"
    return "-"


def run_proc_case(case, mon):
    """replay of a process-monitor witness: the two digest children are run again and compared."""
    tier, seed, shard, nshards, limit = case["args"]
    outs = []
    for hs, order in zip(case["seeds"], case["orders"]):
        p = spawn_digest(tier, seed, shard, nshards, limit, hs, order)
        so, se = p.communicate(timeout=1500)
        outs.append(so.splitlines())
    if outs[0] != outs[1]:
        diff = [a for a, b in zip(outs[0], outs[1]) if a != b]
        mon.violation("process:render-order-or-hash-seed-dependent", "digests differ between PYTHONHASHSEED/order %s/%s: %d lines, first %r" % (
            case["seeds"], case["orders"], len(diff), diff[:1]))


_run_case0 = run_case


def run_case(case, mon):  # noqa: F811
    if case["k"] == "proc":
        return run_proc_case(case, mon)
    if case["k"] == "module-state":
        return  # (replay: the state is compared at the end of a worker's whole corpus)
    return _run_case0(case, mon)


def FLOORS(tier):
    return {"renders_aborted_half_way": 300, "renders_under_changed_ambient_state": 2000, "module_level_objects_compared": 200, "render_events": 5000, "repeat_comparisons": 500, "twin_fingerprint_comparisons": 1000,
            "threaded_renders": 2000, "renders_overlapped_by_a_switch": 50, "child_interpreters": 8,
            "cross_process_digests": 2000}


def describe(case):
    return show(case["prog"])[-12:]


if __name__ == "__main__":
    if sys.argv[1] == "digest":
        digest_main(sys.argv[2:])
