"""C04 - parameterised rendering is equivalent to inline rendering.

For every generated object and dialect the pair (sql_p, values) rendered with a Parameterizer and sql_i rendered
without are tokenised with the reference lexer of the dialect and walked in lockstep: placeholders must be in the
dialect's style, occur exactly len(values) times in list order (PostgreSQL: $1..$n in order of appearance), every value
must be plain data, and each placeholder must stand where the inline stream shows the literal (or array span) that
decodes to its value; every other token must be identical.  create_param events (hook) localise out-of-order
rendering.  SQLite-dialect statements over the fixed schema are executed in both forms and must agree.
"""
from __future__ import annotations

import datetime as dt
import decimal
import enum
import random
import sqlite3
import uuid

from .. import hooks
from ..fingerprint import contexts
from ..gen import Forest, statement
from ..lex import DIALECT_OF, sig, tokenize
from ..prog import DIALECT_CLASSES, P, Cls, Failed, phash, registry, run, show
from .c05 import expect_decode

PROP = "C04"
LEVEL = "exploration"
RULE = ("(1) every single-value position of C05's position table x value kind x dialect, parameterised; (2) seeded random "
        "statements of every kind per dialect class (select with joins/subqueries/CASE/functions/IN/BETWEEN/GROUP BY/HAVING/"
        "ORDER BY/limit/offset, set operations, insert/upsert, update, delete, DDL) with values in several clauses at once, "
        "exempt values (allow_parametrize=False, carrying sentinel values) in every clause; every value rendered inline under an "
        "active parameterizer is seen through the value hook and must be an enum, '*' or exempt; (3) SQLite statements executed in both forms. non-trivial = at least two placeholders; "
        "distinct = program hash x dialect"
        " also: the value list holds the built constants (type and value), twin terms in list-like clauses, every Array / list argument form, a caller's context of another dialect through get_parameterized_sql, a caller-supplied Parameterizer. (DESIGN.md 6a)")
ASSUMPTIONS = [
    "reference lexers decide placeholder style and literal decoding for the five non-SQLite dialect classes",
    "SQLite execution binds int/float/str/None/bool values only",
]
ANCHORS = ["ValueWrapper.get_sql", "Array.get_sql", "Parameterizer.should_parameterize", "Parameterizer.create_param",
           "Parameter.get_sql", "QueryBuilder.get_parameterized_sql", "_SetOperation.get_sql", "MSSQLQueryBuilder._offset_sql",
           "MSSQLQueryBuilder._limit_sql", "QueryBuilder.limit", "QueryBuilder.do_update"]
WORKERS = {"quick": 16, "thorough": 16}
# cases the check sets aside instead of judging, as a share of all cases (more than that makes a run inconclusive)
CEILING_RATIOS = {"inline_render_raises": 0.015}
WATCHDOG = {"quick": 900, "thorough": 3300}

PLAIN = (str, int, float, bool, type(None), decimal.Decimal, dt.date, dt.time, dt.datetime, uuid.UUID, bytes)


def cases(tier, seed, shard, nshards):
    from .c05 import POSITIONS, applicable
    from ..values import kinds
    from ..prog import enc
    k = 0
    for d in DIALECT_CLASSES:
        for pos in POSITIONS:
            for kind, vals in kinds().items():
                for label, v in vals[:6]:
                    if not applicable(pos, kind, d, v) or pos in ("limit", "offset"):
                        continue
                    k += 1
                    if k % nshards == shard:
                        yield {"k": "position", "pos": pos, "d": d, "kind": kind, "v": enc(v)}
    for d in DIALECT_CLASSES:
        for c in fixed_cases(d):
            k += 1
            if k % nshards == shard:
                yield c
    n = (24000 if tier == "quick" else 400000) // nshards
    rnd = random.Random("C04:%d:%d" % (seed, shard))
    kinds_ = ["select", "select", "select", "setop", "insert", "update", "delete", "create"]
    for i in range(n):
        d = DIALECT_CLASSES[i % 6]
        r = rnd.random()
        if r < 0.75:
            prog, tgt, _ = statement(rnd, d, rnd.choice(kinds_), depth=2)
        else:
            f = Forest(rnd, d)
            prog = f.grow(rnd.randint(5, 12))
            tgt = len(prog["steps"]) - 1
        yield {"k": "program", "prog": prog, "tgt": tgt}
    m = (8000 if tier == "quick" else 120000) // nshards
    for i in range(m):
        yield {"k": "sqlite", "s": "%d:%d:%d" % (seed, shard, i)}


def fixed_cases(d):
    """Statements with values in many clauses at once, incl. the orderings that bite (MSSQL offset before limit,
    MySQL UPDATE .. ORDER BY/LIMIT, GROUP BY re-rendering a select term, set operations, subqueries, upsert)."""
    out = []
    Q = Cls(d)
    p = P()
    t = p.new("Table", "t1")
    u = p.new("Table", "t2")
    sub = p.call(p.call(p.call(Q, "from_", u), "select", p.call(u, "field", "id")), "where", p.bin("==", p.call(u, "field", "a"), "sub-v"))
    sel = p.call(p.call(t, "field", "a"), "as_", "al")
    expr = p.call(p.bin("+", p.call(t, "field", "b"), 5), "as_", "e1")
    case = p.call(p.call(p.new("Case"), "when", p.bin(">", p.call(t, "field", "c"), 7), "big"), "else_", "small")
    q = p.call(p.call(Q, "from_", t), "select", sel, expr, case, p.new("fn.Coalesce", p.call(t, "field", "c"), "dflt"))
    q = p.call(q, "where", p.bin("&", p.bin("==", p.call(t, "field", "a"), 1), p.call(p.call(t, "field", "id"), "isin", sub)))
    q = p.call(q, "where", p.call(p.call(t, "field", "b"), "between", 2, 3))
    q = p.call(q, "where", p.call(p.call(t, "field", "c"), "isin", ["x", "y", 4]))
    q = p.call(q, "groupby", expr, sel)
    q = p.call(q, "having", p.bin(">", p.new("fn.Count", "*"), 6))
    q = p.call(q, "orderby", expr)
    q = p.call(p.call(q, "limit", 11), "offset", 7)
    out.append({"k": "program", "prog": p.prog(dialect=d, fixed="multi-clause-select"), "tgt": q.i})
    so = p.call(p.call(q, "union", p.call(p.call(p.call(Q, "from_", u), "select", 1, 2, "three", 4.5), "where", p.bin("!=", p.call(u, "field", "a"), "uv"))), "limit", 3)
    out.append({"k": "program", "prog": p.prog(dialect=d, fixed="set-operation"), "tgt": so.i})
    # constants in the set operation's own ORDER BY (expression, function argument, CASE), before its LIMIT / OFFSET values
    so2 = p.call(p.call(p.call(Q, "from_", t), "select", p.call(t, "field", "a")), "union_all",
                 p.call(p.call(p.call(Q, "from_", u), "select", p.call(u, "field", "a")), "where", p.bin("==", p.call(u, "field", "b"), "w")))
    so2 = p.call(so2, "orderby", p.bin("+", p.call(t, "field", "a"), 5), p.new("fn.Coalesce", p.call(t, "field", "a"), "zz"))
    so2 = p.call(so2, "orderby", p.call(p.call(p.new("Case"), "when", p.bin("==", p.call(t, "field", "a"), "k"), 1), "else_", 2))
    so2 = p.call(p.call(so2, "limit", 7), "offset", 3)
    out.append({"k": "program", "prog": p.prog(dialect=d, fixed="set-operation-orderby-constants"), "tgt": so2.i})
    emb = p.call(p.call(p.call(Q, "from_", p.call(so2, "as_", "u1")), "select", "a"), "where", p.bin(">", p.call(p.call(so2, "as_", "u1"), "field", "a"), 9))
    out.append({"k": "program", "prog": p.prog(dialect=d, fixed="set-operation-orderby-constants-embedded"), "tgt": emb.i})
    p = P()
    t = p.new("Table", "t1")
    ins = p.call(p.call(p.call(Q, "into", t), "columns", "id", "a", "b"), "insert", (1, "x", 2.5), (2, None, True))
    ins = p.call(p.call(p.call(ins, "on_conflict", "id"), "do_update", "a", "upd"), "where", p.bin("==", p.call(t, "field", "b"), 9))
    out.append({"k": "program", "prog": p.prog(dialect=d, fixed="upsert"), "tgt": ins.i})
    ins2 = p.call(p.call(p.call(p.call(Q, "into", t), "insert", 1), "on_conflict", "id"), "do_update", p.call(t, "field", "a"), p.bin("+", p.call(t, "field", "a"), 1))
    out.append({"k": "program", "prog": p.prog(dialect=d, fixed="upsert-term-value"), "tgt": ins2.i})
    p = P()
    t = p.new("Table", "t1")
    up = p.call(p.call(p.call(Q, "update", t), "set", "a", "nv"), "set", p.call(t, "field", "b"), p.bin("*", p.call(t, "field", "b"), 2))
    up = p.call(p.call(p.call(up, "where", p.bin("==", p.call(t, "field", "id"), 5)), "orderby", p.call(t, "field", "id")), "limit", 4)
    out.append({"k": "program", "prog": p.prog(dialect=d, fixed="update-orderby-limit"), "tgt": up.i})
    p = P()
    t = p.new("Table", "t1")
    q = p.call(p.call(Q, "from_", t), "select", p.new("ValueWrapper", "fixed", allow_parametrize=False), "*",
               p.new("ValueWrapper", 3))
    q = p.call(q, "where", p.bin("==", p.call(t, "field", "a"), [1, 2, 3]))
    q = p.call(q, "where", p.bin("==", p.call(t, "field", "b"), []))
    out.append({"k": "program", "prog": p.prog(dialect=d, fixed="exempt-and-arrays"), "tgt": q.i})
    # every argument form of Array and of list constants: one list argument, nested lists, tuples, no argument, one element
    p = P()
    t = p.new("Table", "t1")
    q = p.call(p.call(Q, "from_", t), "select", p.call(t, "field", "id"))
    for col_, val_ in (("a1", p.new("Array", [1, 2, 3])), ("a2", p.new("Array", (4, 5))), ("a3", p.new("Array")), ("a4", p.new("Array", 6)),
                       ("a5", p.new("Array", [1, 2], [3, 4])), ("a6", p.new("Array", "x", "it's")), ("a7", [[7, 8]]), ("a8", [[1], [2, 3]]), ("a9", [[]]),
                       ("a10", ["p", "q"]), ("a11", [None, 1]), ("a12", p.new("Array", [[9]]))):
        q = p.call(q, "where", p.bin("==", p.call(t, "field", col_), val_))
    out.append({"k": "program", "prog": p.prog(dialect=d, fixed="array-argument-forms"), "tgt": q.i})
    # a bare Interval (a builder object, not a datum) in every position that takes a value
    iv = lambda p: p.new("Interval", hours=2, minutes=30)  # noqa: E731
    p = P()
    t = p.new("Table", "t1")
    ins = p.call(p.call(p.call(Q, "into", t), "columns", "id", "a"), "insert", 1, iv(p))
    ins = p.call(p.call(p.call(ins, "on_conflict", "id"), "do_update", "a", iv(p)), "do_update", "b", p.bin("+", p.call(t, "field", "b"), iv(p)))
    out.append({"k": "program", "prog": p.prog(dialect=d, fixed="interval-upsert"), "tgt": ins.i})
    p = P()
    t = p.new("Table", "t1")
    up = p.call(p.call(p.call(Q, "update", t), "set", "a", iv(p)), "where", p.bin(">", p.call(t, "field", "ts"), iv(p)))
    out.append({"k": "program", "prog": p.prog(dialect=d, fixed="interval-update"), "tgt": up.i})
    p = P()
    t = p.new("Table", "t1")
    q = p.call(p.call(Q, "from_", t), "select", iv(p), p.new("fn.Coalesce", p.call(t, "field", "a"), iv(p)), p.new("Column", "c", "INTERVAL", default=iv(p)) if False else 5)
    q = p.call(q, "where", p.call(p.call(t, "field", "b"), "between", iv(p), 9))
    out.append({"k": "program", "prog": p.prog(dialect=d, fixed="interval-select"), "tgt": q.i})
    # wrappers created with allow_parametrize=False stay inline in every position (sentinel values EXEMPT:* / 777001..)
    ex = lambda p, v, **k: p.new("ValueWrapper", v, allow_parametrize=False, **k)  # noqa: E731
    p = P()
    t = p.new("Table", "t1")
    q = p.call(p.call(Q, "from_", t), "select", ex(p, "EXEMPT:select 100% it's \\ ? %s $1 :x"), ex(p, 777001, alias="n"), p.new("fn.Coalesce", p.call(t, "field", "a"), ex(p, "EXEMPT:fn-arg")),
               p.call(p.call(p.new("Case"), "when", p.bin("==", p.call(t, "field", "b"), ex(p, "EXEMPT:case-cond")), ex(p, "EXEMPT:case-then")), "else_", "plain-else"))
    q = p.call(q, "where", p.bin("==", p.call(t, "field", "a"), ex(p, "EXEMPT:where 50%")))
    q = p.call(q, "where", p.call(p.call(t, "field", "b"), "between", ex(p, 777002), 9))
    q = p.call(q, "where", p.call(p.call(t, "field", "c"), "isin", [ex(p, "EXEMPT:in-list"), "plain-in"]))
    q = p.call(q, "having", p.bin(">", p.new("fn.Count", "*"), ex(p, 777003)))
    out.append({"k": "program", "prog": p.prog(dialect=d, fixed="exempt-select"), "tgt": q.i})
    p = P()
    t = p.new("Table", "t1")
    up = p.call(p.call(p.call(Q, "update", t), "set", "a", ex(p, "EXEMPT:set %d%% '")), "set", p.call(t, "field", "b"), "plain-set")
    up = p.call(up, "where", p.bin("==", p.call(t, "field", "id"), ex(p, 777004)))
    out.append({"k": "program", "prog": p.prog(dialect=d, fixed="exempt-update"), "tgt": up.i})
    p = P()
    t = p.new("Table", "t1")
    ins = p.call(p.call(p.call(Q, "into", t), "columns", "id", "a"), "insert", ex(p, 777005), ex(p, "EXEMPT:insert %(x)s"))
    ins = p.call(p.call(ins, "on_conflict", "id"), "do_update", "a", ex(p, "EXEMPT:do-update"))
    out.append({"k": "program", "prog": p.prog(dialect=d, fixed="exempt-insert"), "tgt": ins.i})
    # list-like clauses holding several terms of one shape that differ only in a constant - or not at all (each occurrence is its
    # own placeholder with its own value)
    for pair in ((10, 100), (7, 7)):
        p = P()
        t = p.new("Table", "t1")
        tw = lambda c_: p.new("fn.Floor", p.bin("/", p.call(t, "field", "amount"), c_))  # noqa: E731
        q = p.call(p.call(Q, "from_", t), "select", tw(pair[0]), tw(pair[1]), p.new("fn.Count", "*"))
        q = p.call(q, "groupby", tw(pair[0]), tw(pair[1]))
        q = p.call(q, "having", p.bin("&", p.bin(">", p.new("fn.Sum", p.bin("*", p.call(t, "field", "a"), pair[0])), 1),
                                      p.bin(">", p.new("fn.Sum", p.bin("*", p.call(t, "field", "a"), pair[1])), 1)))
        q = p.call(q, "orderby", tw(pair[0]), tw(pair[1]))
        q = p.call(q, "where", p.call(p.call(t, "field", "b"), "isin", [pair[0], pair[1], pair[0]]))
        out.append({"k": "program", "prog": p.prog(dialect=d, fixed="twin-terms-%s" % (pair[0] == pair[1])), "tgt": q.i})
        p = P()
        t = p.new("Table", "t1")
        ins = p.call(p.call(p.call(Q, "into", t), "columns", "a", "b"), "insert", (pair[0], pair[1]), (pair[0], pair[1]), (pair[1], pair[0]))
        out.append({"k": "program", "prog": p.prog(dialect=d, fixed="twin-rows"), "tgt": ins.i})
        p = P()
        t = p.new("Table", "t1")
        up = p.call(p.call(p.call(Q, "update", t), "set", "a", pair[0]), "set", "b", pair[1])
        up = p.call(up, "where", p.bin("|", p.bin("==", p.call(t, "field", "c"), pair[0]), p.bin("==", p.call(t, "field", "c"), pair[1])))
        out.append({"k": "program", "prog": p.prog(dialect=d, fixed="twin-sets"), "tgt": up.i})
    # an aliased constant used in the select list (defining) and in other clauses (referring)
    p = P()
    t = p.new("Table", "t1")
    c = p.call(p.new("ValueWrapper", 100), "as_", "threshold")
    ch = p.call(p.new("ValueWrapper", "web"), "as_", "channel")
    q = p.call(p.call(Q, "from_", t), "select", p.call(t, "field", "id"), c, ch, p.new("fn.Count", "*"))
    q = p.call(p.call(q, "where", p.bin(">", p.call(t, "field", "amount"), c)), "groupby", ch)
    q = p.call(p.call(q, "having", p.bin(">", p.new("fn.Count", "*"), c)), "orderby", ch)
    out.append({"k": "program", "prog": p.prog(dialect=d, fixed="aliased-constant-everywhere"), "tgt": q.i})
    p = P()
    t = p.new("Table", "t1")
    c = p.new("AliasedQuery", "c1")
    body = p.call(p.call(p.call(Q, "from_", t), "select", p.call(t, "field", "id")), "where", p.bin(">", p.call(t, "field", "a"), "cte-v"))
    # (constants that look like templates to whatever assembles the WITH clause)
    body = p.call(p.call(body, "where", p.bin("!=", p.call(t, "field", "b"), "{{x}} {0} }{ {name}")), "where", p.call(p.call(t, "field", "c"), "like", "100%% %s {}"))
    q = p.call(p.call(p.call(p.call(Q, "with_", body, "c1"), "from_", c), "select", p.call(c, "field", "id"), "lit"), "where", p.bin("<", p.call(c, "field", "id"), 99))
    out.append({"k": "program", "prog": p.prog(dialect=d, fixed="cte"), "tgt": q.i})
    return out


def kind_of(v):
    if isinstance(v, enum.Enum):
        return "enum"
    if isinstance(v, bool):
        return "bool"
    if v is None:
        return "none"
    if isinstance(v, int):
        return "int"
    if isinstance(v, float):
        return "float"
    if isinstance(v, decimal.Decimal):
        return "decimal"
    if isinstance(v, str):
        return "str"
    if isinstance(v, dt.datetime):
        return "datetime"
    if isinstance(v, dt.date):
        return "date"
    if isinstance(v, dt.time):
        return "time"
    if isinstance(v, uuid.UUID):
        return "uuid"
    if isinstance(v, dict):
        return "json"
    if isinstance(v, list):
        return "list"
    return "object"


def plain_data(v):
    if isinstance(v, (list, tuple)):
        return all(plain_data(x) for x in v)
    if isinstance(v, dict):
        return all(plain_data(k) and plain_data(x) for k, x in v.items())
    if isinstance(v, enum.Enum):
        return True
    return isinstance(v, PLAIN)


def lockstep(tp, ti, values, d, mysql_ids=()):
    """Walk the two token streams. Returns None or (fault, description)."""
    fam = DIALECT_OF[d]
    i = j = 0
    k = 0
    sp, si = sig(tp), sig(ti)
    seen_pg = []
    while i < len(tp):
        t = tp[i]
        if t.kind == "ERR" or t.kind == "COMMENT":
            return "lexical", "%s token %r in the parameterised SQL" % (t.kind, t.text[:30])
        if t.kind == "PARAM":
            if fam == "postgresql":
                idx = t.value - 1
                seen_pg.append(t.value)
            else:
                idx = k
            k += 1
            if idx < 0 or idx >= len(values):
                return "placeholder-count", "placeholder #%d has no value (values has %d entries)" % (k, len(values))
            v = values[idx]
            if j >= len(ti):
                return "stream-mismatch", "inline SQL ended where placeholder #%d stands" % k
            if isinstance(v, list) and ti[j].kind == "STR" and ti[j].value != "{}":
                # a list wrapped as a JSON value: the inline form is its JSON text
                why = expect_decode("json", v, ti[j:j + 1], d, "")
                if why:
                    return "value-mismatch", "placeholder #%d JSON list %r vs inline %r: %s" % (k, v, ti[j].text[:60], why)
                j += 1
            elif isinstance(v, list):
                # array span in the inline stream: [ ... ] | ARRAY[ ... ] | '{}'
                end = array_span(ti, j)
                if end is None:
                    return "array-span", "placeholder #%d holds a list but the inline SQL shows %r" % (k, ti[j].text[:30])
                why = decode_array(ti[j:end], v, d)
                if why:
                    return "value-mismatch", "placeholder #%d list value %r vs inline %r: %s" % (k, v, "".join(x.text for x in ti[j:end])[:60], why)
                j = end
            else:
                n = 1
                if ti[j].kind == "OP" and ti[j].text == "-" and j + 1 < len(ti) and ti[j + 1].kind == "NUM":
                    n = 2
                why = expect_decode(kind_of(v), v, ti[j:j + n], d, "")
                if why and isinstance(v, dt.time) and id(v) in mysql_ids:
                    # MySQL's value wrapper (chosen by the builder class, whatever the context) inlines a TIME without its zone
                    why = expect_decode("time", v.replace(tzinfo=None), ti[j:j + n], d, "")
                if why:
                    return "value-mismatch", "placeholder #%d carries %r but the inline SQL shows %r there (%s)" % (
                        k, v, "".join(x.text for x in ti[j:j + n])[:60], why)
                j += n
            i += 1
            continue
        if j >= len(ti) or sp[i] != si[j]:
            return "stream-mismatch", "token %r of the parameterised SQL vs %r of the inline SQL (position %d)" % (
                t.text[:30], ti[j].text[:30] if j < len(ti) else "<end>", i)
        i += 1
        j += 1
    if j != len(ti):
        return "stream-mismatch", "inline SQL has %d extra trailing tokens" % (len(ti) - j)
    if k != len(values):
        return "placeholder-count", "%d placeholders but %d values" % (k, len(values))
    if fam == "postgresql" and seen_pg != list(range(1, len(seen_pg) + 1)):
        return "placeholder-numbering", "PostgreSQL placeholders appear as %s" % seen_pg[:12]
    return None


def array_span(ti, j):
    t = ti[j]
    if t.kind == "STR" and t.value == "{}":
        return j + 1
    if t.kind == "WORD" and t.value == "ARRAY" and j + 1 < len(ti) and ti[j + 1].text == "[":
        j += 1
    if ti[j].text != "[":
        return None
    depth = 0
    for e in range(j, len(ti)):
        if ti[e].text == "[":
            depth += 1
        elif ti[e].text == "]":
            depth -= 1
            if depth == 0:
                return e + 1
    return None


def decode_array(toks, v, d):
    """toks spell an array literal ([..] | ARRAY[..] | '{}'), nested arrays included; v is the recorded list."""
    if len(toks) == 1:
        return None if v == [] else "empty-array literal for a non-empty list"
    body = list(toks)
    if body and body[0].kind == "WORD" and body[0].value == "ARRAY":
        body = body[1:]
    if len(body) >= 2 and body[0].text == "(" and body[-1].text == ")" and isinstance(v, tuple):
        pass  # (a tuple inside a list is written as a row constructor)
    elif len(body) < 2 or body[0].text != "[" or body[-1].text != "]":
        return "not an array literal"
    inner = body[1:-1]
    items = []
    cur = []
    depth = 0
    for t in inner:
        if t.kind == "PUNCT" and t.text in "[(":
            depth += 1
        elif t.kind == "PUNCT" and t.text in "])":
            depth -= 1
        if depth == 0 and t.kind == "PUNCT" and t.text == ",":
            items.append(cur)
            cur = []
        else:
            cur.append(t)
    if cur:
        items.append(cur)
    if not isinstance(v, (list, tuple)):
        return "array literal for a value that is no list"
    if len(items) != len(v):
        return "array has %d items, value has %d" % (len(items), len(v))
    for it, x in zip(items, v):
        if isinstance(x, (list, tuple)):
            why = decode_array(it, x, d)
        elif isinstance(x, dict):
            continue
        else:
            why = expect_decode(kind_of(x), x, it, d, "")
        if why:
            return why
    return None


def check_object(o, d, mon, label):
    """All C04 obligations for one renderable object under dialect class d. Returns violation tuple or None."""
    reg = registry()
    ctx = contexts()[d]
    try:
        with hooks.collect() as tree_i:
            sql_i = o.get_sql(ctx)
    except Exception as e_inline:
        mon.count("inline_render_raises")
        try:
            o.get_sql(ctx.copy(parameterizer=reg["Parameterizer"]()))
        except Exception:
            return None
        # the two renderings are the same statement: one cannot exist without the other
        return ("raises-inline-only:%s" % type(e_inline).__name__, "the inline render raised %r although the parameterised render succeeds" % e_inline, None)
    pz = reg["Parameterizer"]()
    with hooks.collect() as tree:
        try:
            sql_p = o.get_sql(ctx.copy(parameterizer=pz))
        except Exception as e:
            return ("raises:%s" % type(e).__name__, "parameterised render raised %r although the inline render succeeded" % e, None)
    values = list(pz.values)
    mon.count("objects_compared")
    # every wrapped value that may be parameterised must have become a placeholder: a get_value_sql call under a parameterizer
    # is a value that was inlined instead (legitimate only for enums, '*' and wrappers created with allow_parametrize=False)
    for ev in tree.value_events:
        wv = ev[4]
        mon.count("values_inlined_under_parameterizer_seen")
        if (isinstance(wv, reg["ValueWrapper"]) and getattr(wv, "allow_parametrize", True) and not isinstance(ev[3], enum.Enum)
                and not (isinstance(ev[3], str) and ev[3] == "*")):
            return ("inlined-under-parameterizer:%s" % kind_of(ev[3]), "a %s holding %r was rendered inline (%s) although a parameterizer is active: %r" % (
                ev[0], ev[3], ev[2][:40], sql_p[:260]), {"sql_p": sql_p, "values": [repr(v) for v in values]})
    mon.count("placeholders_" + DIALECT_OF[d], len(values))
    for v in values:
        mon.add("value_kinds", kind_of(v))
    enums = [v for v in values if isinstance(v, enum.Enum)]
    if enums:
        # Parameterizer.should_parameterize: enum members (of whatever mixin type) stay inline
        return ("enum-parameterised:%s" % type(enums[0]).__name__, "an enum member travels in the parameter list: %r; %r" % (enums[:3], sql_p[:260]),
                {"sql_p": sql_p, "values": [repr(v) for v in values]})
    exempt = [v for v in values if (isinstance(v, str) and v.startswith("EXEMPT:")) or (isinstance(v, int) and 777000 < v < 777100)]
    if exempt:
        return ("exempt-value-parameterised", "a value wrapped with allow_parametrize=False travels in the parameter list: %r; %r" % (
            exempt[:3], sql_p[:260]), {"sql_p": sql_p, "values": [repr(v) for v in values]})
    mon.count("exempt_sentinels_seen_inline", sql_p.count("EXEMPT:") + sql_p.count("77700"))
    bad = [v for v in values if not plain_data(v)]
    if bad:
        owner = "?"
        for ev in tree.events:
            if ev and getattr(ev[6], "value", None) is bad[0]:
                owner = ev[2]
        return ("non-data-value:%s" % type(bad[0]).__name__, "the value list holds a %s object (%s): %r" % (
            type(bad[0]).__name__, owner, [type(v).__name__ for v in values]), {"sql": sql_p})
    tp, ti = tokenize(sql_p, d), tokenize(sql_i, d)
    if DIALECT_OF[d] == "mssql" and any(t.kind == "IDENT" and t.text.startswith("[") for t in ti):
        # the library's array form [..] collides with T-SQL bracket identifiers: read it as punctuation for this walk
        from ..lex import Lexer
        lx = Lexer("mssql")
        lx.brackets_ident = False
        tp, ti = lx.tokens(sql_p), lx.tokens(sql_i)
    mon.count("token_pairs_walked", len(tp))
    mysql_ids = {id(getattr(ev[6], "value", None)) for ev in tree.events if ev and ev[2] == "MySQLValueWrapper"}
    fault = lockstep(tp, ti, values, d, mysql_ids)
    if fault:
        # localise: which node created the first parameter that is out of order
        return (fault[0], "%s; parameterised %r values %r; inline %r" % (fault[1], sql_p[:260], [repr(v)[:20] for v in values][:12], sql_i[:260]),
                {"sql_p": sql_p, "values": [repr(v) for v in values], "sql_i": sql_i, "create_param_order": [repr(v)[:30] for v in tree.param_events]})
    # the value list holds the very constants the statement was built with (same type, same value): whatever the inline render
    # printed through a value wrapper is what a placeholder may carry
    built = {}
    for ev in tree_i.value_events:
        bv = ev[3]
        built.setdefault((type(bv).__name__, repr(bv)), 0)
        built[(type(bv).__name__, repr(bv))] += 1
    if built:
        for v in values:
            if isinstance(v, (list, dict)):
                continue
            mon.count("recorded_values_matched_against_built_constants")
            if (type(v).__name__, repr(v)) not in built:
                return ("recorded-value-not-a-built-constant:%s" % kind_of(v), "the value list carries %r (%s), which is none of the constants the inline render printed: %s; %r" % (
                    v, type(v).__name__, sorted(built)[:8], sql_p[:200]), {"sql_p": sql_p, "values": [repr(x) for x in values], "sql_i": sql_i})
    if isinstance(o, reg["QueryBuilder"]) and o.QUERY_CLS is reg[d]:
        # the default path users take: get_parameterized_sql() / get_sql() without a context
        try:
            s3, v3 = o.get_parameterized_sql()
            mon.count("default_path_checks")
            if s3 != sql_p or [repr(x) for x in v3] != [repr(x) for x in values] or o.get_sql() != sql_i:
                return ("default-path-differs", "get_parameterized_sql()/get_sql() without a context differ from the renderings through %s.SQL_CONTEXT: %r %r" % (
                    d, s3[:200], [repr(x)[:20] for x in v3][:8]), None)
        except Exception as e:
            return ("raises:%s" % type(e).__name__, "get_parameterized_sql() raised %r" % e, None)
    if isinstance(o, reg["QueryBuilder"]):
        # the caller's own, still empty Parameterizer with a placeholder factory, handed to get_parameterized_sql through the context
        mine = reg["Parameterizer"](placeholder_factory=lambda i: "@@P%d@@" % i)
        try:
            s4, v4 = o.get_parameterized_sql(ctx.copy(parameterizer=mine))
            mon.count("caller_parameterizer_checks")
            import re as _re
            marks = [int(m_) for m_ in _re.findall(r"@@P(\d+)@@", s4)]
            if v4 is not mine.values or [repr(x) for x in v4] != [repr(x) for x in values] or sorted(marks) != list(range(1, len(values) + 1)) \
                    or (values and any(t_.kind == "PARAM" for t_ in tokenize(_re.sub(r"@@P\d+@@", "0", s4), d))):
                return ("caller-parameterizer-ignored", "get_parameterized_sql(ctx) with the caller's own (empty) Parameterizer and placeholder factory: "
                        "placeholders %s, values %r, caller's list has %d entries; %r" % (marks[:8], [repr(x)[:20] for x in v4][:8], len(mine.values), s4[:240]), None)
        except Exception as e:
            return ("raises:%s" % type(e).__name__, "get_parameterized_sql with a caller-supplied Parameterizer raised %r" % e, None)
    if isinstance(o, reg["QueryBuilder"]):
        # a caller's context of ANOTHER dialect, without a parameterizer: get_parameterized_sql keeps the context and adds a parameterizer
        other = "MySQLQuery" if d != "MySQLQuery" else "PostgreSQLQuery"
        octx = contexts()[other].copy(as_keyword=True)
        try:
            s5, v5 = o.get_parameterized_sql(octx)
            pz5 = reg["Parameterizer"]()
            s6 = o.get_sql(octx.copy(parameterizer=pz5))
            mon.count("foreign_context_parameterized_checks")
            if s5 != s6 or [repr(x) for x in v5] != [repr(x) for x in pz5.values]:
                return ("caller-context-ignored", "get_parameterized_sql(ctx) with %s's context (no parameterizer, as_keyword=True) renders %r; get_sql with the same context "
                        "and a parameterizer renders %r" % (other, s5[:200], s6[:200]), None)
        except Exception:
            mon.count("foreign_context_render_raises")
    if isinstance(o, reg["QueryBuilder"]):  # (hasattr would be answered by __getattr__ with a Field)
        try:
            s2, v2 = o.get_parameterized_sql(ctx)
            mon.count("get_parameterized_sql_checks")
            if s2 != sql_p or [repr(x) for x in v2] != [repr(x) for x in values]:
                return ("get_parameterized_sql-differs", "get_parameterized_sql() differs from get_sql(ctx with parameterizer)", None)
        except Exception as e:
            return ("raises:%s" % type(e).__name__, "get_parameterized_sql raised %r" % e, None)
    return len(values)


def run_case(case, mon):
    reg = registry()
    if case["k"] == "sqlite":
        return run_sqlite(case, mon)
    if case["k"] == "position":
        from .c05 import POSITIONS
        from ..prog import Interp
        v = Interp().dec(case["v"])
        d = case["d"]
        p = P()
        t = p.new("Table", "t")
        r = POSITIONS[case["pos"]](p, Cls(d), t, v)
        env = run(p.prog(), d)
        o = env[r.i]
        if isinstance(o, Failed):
            return
        res = check_object(o, d, mon, case["pos"])
        mon.add("positions", "%s|%s" % (case["pos"], DIALECT_OF[d]))
        if isinstance(res, tuple):
            mon.violation("%s:%s:%s" % (DIALECT_OF[d], res[0], case["pos"]), "%s value at %s/%s: %s" % (case["kind"], case["pos"], d, res[1]), res[2])
        elif res:
            mon.nontrivial([case["pos"], d, case["v"]])
        return
    prog, tgt = case["prog"], case["tgt"]
    d = prog["meta"]["dialect"]
    env = run(prog, d)
    o = env[tgt]
    if isinstance(o, Failed) or not hasattr(o, "get_sql"):
        return
    # the statement under its own dialect class, and (terms / generic objects) under every other context too
    dialects = [d]
    if not isinstance(o, (reg["QueryBuilder"], reg["_SetOperation"])):
        dialects = list(DIALECT_CLASSES)
    for dd in dialects:
        res = check_object(o, dd, mon, "program")
        if isinstance(res, tuple):
            what = prog.get("meta", {}).get("fixed") or type(o).__name__
            mon.violation("%s:%s:%s" % (DIALECT_OF[dd], res[0], what), "%s under %s: %s" % (type(o).__name__, dd, res[1]),
                          dict(res[2] or {}, program=show(prog)[-15:]))
            return
        if res and res >= 2:
            mon.nontrivial([phash(prog), dd])
    if mon.evaluations % 151 == 1:
        ctx = contexts()[d]
        pz = reg["Parameterizer"]()
        try:
            mon.sample({"sql": o.get_sql(ctx.copy(parameterizer=pz))[:300], "values": [repr(v) for v in pz.values][:10]})
        except Exception:
            pass


# -------------------------------------------------------------------------------------------------- sqlite execution
_con = None


def db():
    global _con
    if _con is None:
        _con = sqlite3.connect(":memory:")
        for t in ("t1", "t2", "t3"):
            _con.execute("CREATE TABLE %s(id INTEGER PRIMARY KEY, a INT, b INT, c TEXT)" % t)
            _con.executemany("INSERT INTO %s VALUES (?,?,?,?)" % t,
                             [(i, (i * 7) % 5 - 1, None if i % 4 == 0 else i % 3, ["x", "y", None, "Zed", "it's"][i % 5]) for i in range(1, 13)])
    return _con


def run_sqlite(case, mon):
    reg = registry()
    rnd = random.Random("sq:" + case["s"])
    Q = reg["SQLLiteQuery"]
    T = reg["Table"]
    t = T(rnd.choice(["t1", "t2", "t3"]))
    vals = lambda: rnd.choice([0, 1, -1, 2, 3, "x", "y", "it's", 1.5, None, True, False])  # noqa: E731
    sel = [t.id]
    for _ in range(rnd.randint(0, 3)):
        r = rnd.random()
        if r < 0.3:
            sel.append(t.a + vals() if not isinstance(vals(), str) else t.a)
        elif r < 0.5:
            sel.append(reg["Case"]().when(t.a > rnd.randint(-1, 3), vals()).else_(vals()))
        elif r < 0.7:
            sel.append(reg["fn.Coalesce"](t.b, rnd.randint(0, 9)))
        else:
            sel.append(reg["ValueWrapper"](vals()))
    q = Q.from_(t).select(*sel)
    for _ in range(rnd.randint(0, 3)):
        r = rnd.random()
        if r < 0.3:
            q = q.where(t.a == rnd.choice([0, 1, -1, 2, 3]))
        elif r < 0.5:
            q = q.where(t.c.isin([rnd.choice(["x", "y", "it's", "Zed"]) for _ in range(rnd.randint(1, 3))]))
        elif r < 0.7:
            q = q.where(t.id.between(rnd.randint(0, 5), rnd.randint(5, 12)))
        elif r < 0.85:
            q = q.where(t.c.like(rnd.choice(["x%", "%e%", "it%"])))
        else:
            u = T("t2") if t._table_name != "t2" else T("t3")
            q = q.where(t.id.isin(Q.from_(u).select(u.id).where(u.a >= rnd.randint(-1, 2))))
    q = q.orderby(t.id)
    if rnd.random() < 0.5:
        q = q.limit(rnd.randint(0, 8))
        if rnd.random() < 0.5:
            q = q.offset(rnd.randint(0, 5))
    sql_i = q.get_sql()
    sql_p, values = q.get_parameterized_sql()
    try:
        ri = db().execute(sql_i).fetchall()
        ei = None
    except sqlite3.Error as e:
        ri, ei = None, str(e)
    try:
        rp = db().execute(sql_p, values).fetchall()
        ep = None
    except (sqlite3.Error, ValueError) as e:
        rp, ep = None, str(e)
    mon.count("sqlite_pairs_executed")
    if ei or ep:
        mon.count("sqlite_errors")
        if bool(ei) != bool(ep):
            mon.violation("sqlite:engine:one-form-fails", "inline %s / parameterised %s: %r | %r %r" % (ei, ep, sql_i[:200], sql_p[:200], values))
        return
    if ri != rp:
        mon.violation("sqlite:engine:results-differ", "executing both forms gives different rows: %r vs %r %r -> %r vs %r" % (
            sql_i[:200], sql_p[:200], values, ri[:4], rp[:4]))
        return
    if values:
        mon.nontrivial(["sqlite", case["s"]])
    mon.count("sqlite_rows_compared", len(ri))


def FLOORS(tier):
    return {"objects_compared": 5000, "token_pairs_walked": 100000, "sqlite_pairs_executed": 1000, "placeholders_postgresql": 500,
            "placeholders_mysql": 500, "placeholders_mssql": 500}
