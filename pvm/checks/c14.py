"""C14 - invalid constructions are rejected with library exceptions; valid ones never are.

Every generated call sequence is run against the real builders and its outcome (exception class, or none, at the
call the property names) is compared with an independent reference verdict computed from the case description:
availability of the tables named by a join criterion (linear search with ==, no hashing), arity of set operations,
CASE without WHEN, order of conflict-handler calls, RETURNING on non-DML statements / from foreign tables, repeated
one-shot calls.
"""
from __future__ import annotations

import itertools
import random

from ..fingerprint import contexts
from ..prog import DIALECT_CLASSES, registry

PROP = "C14"
LEVEL = "exploration"
RULE = ("join programs: exhaustive product base shape x joined-item shape x criterion operand sources (in-scope, joined item, "
        "foreign; same and different column names; both operand orders; plain, function-wrapped, negated, subquery operands; "
        "1-3 conjuncts) plus seeded random compositions; set operations of arity 1-4 on each side in chains of 1-3; all "
        "orders of conflict-handler calls (k<=4 from on_conflict(fields)/on_conflict()/do_nothing/do_update/where); RETURNING "
        "term kinds (single fields, constants, compound terms mixing target/joined/foreign tables) x statement kinds; every "
        "one-shot call twice; each join verdict is taken after one of four pre-histories of the partial statement (none, "
        "discarded sibling branches that joined the other tables, a render, a copy). non-trivial = the case has both valid and invalid "
        "neighbours in its family; distinct = case description"
        " also: the referenced column in every operand slot of every zoo class one and two levels deep, rejected joins leave no mark (statement, item, tables, pending Joiner, in-place builders), self-joins, star terms in RETURNING, arity-0 set operands. (DESIGN.md 6a)")
ASSUMPTIONS = [
    "reference verdict: a join criterion is invalid iff some Field in it (outside nested subqueries) is attached to a source "
    "that == none of the FROM items, earlier joined items, the item being joined, the UPDATE table or a declared CTE name",
    "set operations used as sources are compared by identity (their == builds a criterion)",
]
ANCHORS = ["JoinOn.validate", "QueryBuilder.do_join", "Joiner.on", "Joiner.on_field", "Joiner.using", "_SetOperation.get_sql",
           "Case.get_sql", "QueryBuilder.on_conflict", "QueryBuilder.do_update", "QueryBuilder.do_nothing", "QueryBuilder.where",
           "QueryBuilder._on_conflict_sql", "PostgreSQLQueryBuilder._validate_returning_term", "PostgreSQLQueryBuilder._return_field_str",
           "QueryBuilder.into", "QueryBuilder.update", "QueryBuilder.delete", "QueryBuilder.rollup", "Table.for_", "Table.for_portion",
           "CreateQueryBuilder.create_table", "CreateQueryBuilder.primary_key", "DropQueryBuilder.drop_table"]
WORKERS = {"quick": 16, "thorough": 16}

SRC_SHAPES = ["plain", "aliased", "schema", "schema-chain", "temporal", "subquery", "cte", "setop"]
OPERAND_FORMS = ["plain", "fn", "neg", "arith", "in-subquery-foreign"]


def R():
    return registry()


class World:
    """Builds the sources of one join program."""

    def __init__(self, d):
        self.r = R()
        self.Q = self.r[d]
        self.d = d
        self.n = 0

    def source(self, shape, name):
        r, Q = self.r, self.Q
        T = r["Table"]
        if shape == "plain":
            return T(name)
        if shape == "aliased":
            return T(name, alias=name + "_al")
        if shape == "schema":
            return T(name, schema="sch")
        if shape == "schema-chain":
            return T(name, schema=["db", "app", "sch"])
        if shape == "temporal":
            return T(name).for_(r["SystemTimeValue"]() == "2020-01-01")
        if shape == "subquery":
            inner = T(name + "_in")
            return Q.from_(inner).select(inner.id, inner.x).as_(name + "_sq")
        if shape == "setop":
            inner = T(name + "_in")
            return Q.from_(inner).select(inner.id).union(Q.from_(inner).select(inner.x)).as_(name + "_so")
        if shape == "cte":
            return r["AliasedQuery"](name + "_cte")
        # derived sources that nobody has named (never put into a FROM clause or joined): alias None
        if shape == "subquery-unnamed":
            inner = T(name + "_in")
            return Q.from_(inner).select(inner.id, inner.x)
        if shape == "setop-unnamed":
            inner = T(name + "_in")
            return Q.from_(inner).select(inner.id).union(Q.from_(inner).select(inner.x))
        raise ValueError(shape)

    def equal_copy(self, shape, name, original):
        """A distinct object that == the source built by source(shape, name)."""
        return self.source(shape, name)

    def near_miss(self, shape, name):
        """A source that differs from source(shape, name) in exactly one component of its identity: never available."""
        r = self.r
        T = r["Table"]
        if shape == "plain":
            return T(name, schema="elsewhere")
        if shape == "aliased":
            return T(name, alias=name + "_al2")
        if shape == "schema":
            return T(name, schema="sch2")
        if shape == "schema-chain":
            return T(name, schema=["db2", "app", "sch"])  # only the outermost level differs
        if shape == "temporal":
            return T(name, alias="tmp_al").for_(r["SystemTimeValue"]() == "2020-01-01")
        if shape == "cte":
            return r["AliasedQuery"](name + "_cte2")
        o = self.source(shape, name)
        return o.as_(o.alias + "2")


def ident(o, reg):
    """Identity of a row source as the reference sees it, read from the raw attributes (no ==, no hash of the library)."""
    if isinstance(o, reg["Table"]):
        chain = []
        sch = o._schema
        while sch is not None:
            chain.append(sch._name)
            sch = sch._parent
        return ("table", o._table_name, o.alias, tuple(chain))
    if isinstance(o, reg["AliasedQuery"]):
        return ("cte", o.name)
    return ("query", o.alias)


def same(a, b, reg):
    return ident(a, reg) == ident(b, reg)


# -------------------------------------------------------------------------------------------------------- cases
def cases(tier, seed, shard, nshards):
    k = 0
    dl = DIALECT_CLASSES
    # joins: exhaustive core
    for base in SRC_SHAPES:
        for item in SRC_SHAPES:
            for lsrc, rsrc in itertools.product(["base", "item", "foreign", "base-copy", "item-copy", "prev-join", "update", "none",
                                                 "declared-cte", "undeclared-cte", "base-near", "item-near"], repeat=2):
                for samecol in (True, False):
                    for form in OPERAND_FORMS:
                        k += 1
                        if k % nshards != shard:
                            continue
                        yield {"k": "join", "d": dl[k % 6], "base": base, "item": item, "l": lsrc, "r": rsrc, "samecol": samecol,
                               "form": form, "extra": [], "pre": [None, "siblings", "render", "copy"][(k // nshards) % 4]}
    # the referenced column inside every operand slot of every term class (one and two levels deep): the validation finds the table
    # wherever the column sits
    f1, f2 = zoo_forms(False), zoo_forms(True)
    for lsrc, rsrc in (("foreign", "item"), ("base", "item"), ("item", "base"), ("undeclared-cte", "item"), ("base-near", "item")):
        for fi, form in enumerate(f1 + f2):
            if form.startswith("zoo2") and tier == "quick" and (lsrc not in ("foreign", "base") or (lsrc == "base" and fi % 5)):
                continue
            k += 1
            if k % nshards != shard:
                continue
            yield {"k": "join", "d": dl[k % 6], "base": "plain", "item": ["plain", "aliased", "subquery"][k % 3], "l": lsrc, "r": rsrc, "samecol": True,
                   "form": form, "extra": [], "pre": None}
    # every join type finished with on(): the criterion is checked whatever the type (a CROSS join given a criterion renders it)
    for jt in ("cross-on", "cross-join-on"):
        for lsrc, rsrc in itertools.product(["base", "item", "foreign", "undeclared-cte", "base-near"], repeat=2):
            for base in ("plain", "aliased", "subquery"):
                k += 1
                if k % nshards == shard:
                    yield {"k": "join", "d": dl[k % 6], "base": base, "item": "plain", "l": lsrc, "r": rsrc, "samecol": bool(k % 2), "form": "plain",
                           "extra": [], "pre": None, "how": jt}
    # the source the criterion wrongly names is of every shape, named or not (the exception must come out whatever it takes to
    # describe the missing source)
    for fshape in SRC_SHAPES + ["subquery-unnamed", "setop-unnamed"]:
        for base in ("plain", "aliased", "subquery"):
            for lsrc, rsrc in (("foreign", "item"), ("base", "foreign"), ("foreign", "foreign"), ("foreign", "base")):
                for form in ("plain", "arith"):
                    k += 1
                    if k % nshards == shard:
                        yield {"k": "join", "d": dl[k % 6], "base": base, "item": "plain", "l": lsrc, "r": rsrc, "samecol": bool(k % 2), "form": form,
                               "extra": [], "pre": None, "foreign_shape": fshape}
    for base in ("plain", "schema", "schema-chain", "temporal"):
        for lsrc, rsrc in itertools.product(["base", "item", "foreign", "undeclared-cte", "base-near", "none"], repeat=2):
            for form in ("plain", "arith", "fn"):
                for pre_ in (None, "render", "copy"):
                    k += 1
                    if k % nshards == shard:
                        yield {"k": "join", "d": dl[k % 6], "base": base, "item": base, "self_join": True, "l": lsrc, "r": rsrc, "samecol": True,
                               "form": form, "extra": [], "pre": pre_}
    rnd = random.Random("C14:%d:%d" % (seed, shard))
    for _ in range((40000 if tier == "quick" else 600000) // nshards):
        srcs = ["base", "item", "foreign", "base-copy", "item-copy", "prev-join", "update", "base2", "none", "foreign2",
                "declared-cte", "declared-cte", "undeclared-cte", "base-near", "item-near"]
        yield {"k": "join", "d": rnd.choice(dl), "base": rnd.choice(SRC_SHAPES), "item": rnd.choice(SRC_SHAPES),
               "l": rnd.choice(srcs), "r": rnd.choice(srcs), "samecol": rnd.random() < 0.5, "form": rnd.choice(OPERAND_FORMS),
               "extra": [[rnd.choice(srcs), rnd.choice(srcs), rnd.choice(["and", "or"])] for _ in range(rnd.randint(0, 2))],
               "how": rnd.choice(["on", "on", "on", "using", "on_field", "cross", "cross-on", "cross-join-on"]), "foreign_shape": rnd.choice(SRC_SHAPES + ["subquery-unnamed", "setop-unnamed"]),
               "pre": rnd.choice([None, None, "siblings", "render", "copy"])}
    # set operations
    for d in dl:
        for n0 in range(1, 5):
            for chain in itertools.product(range(1, 5), repeat=2):
                for ln in (1, 2):
                    k += 1
                    if k % nshards == shard:
                        yield {"k": "setop", "d": d, "n0": n0, "others": list(chain[:ln])}
        for star in ("str", "obj", "table"):
            for n0 in (1, 2, 3):
                for others in ([1], [2], [1, 2], [2, 1], [3, 1], [1, 1]):
                    k += 1
                    if k % nshards == shard:
                        yield {"k": "setop", "d": d, "n0": n0, "others": others, "star": star}
        # operands without any select term (arity 0), in every position of chains of one to three operands; three-operand chains
        for n0 in range(0, 3):
            for chain in itertools.product(range(0, 3), repeat=3):
                for ln in (1, 2, 3):
                    if n0 and 0 not in chain[:ln] and ln < 3:
                        continue
                    k += 1
                    if k % nshards == shard:
                        yield {"k": "setop", "d": d, "n0": n0, "others": list(chain[:ln]), "empty_form": ["no-select", "select()"][k % 2]}
    # case
    for d in dl:
        for nwhen in (0, 1, 2):
            for els in (False, True):
                for where in ("bare", "select", "where", "nested"):
                    k += 1
                    if k % nshards == shard:
                        yield {"k": "case", "d": d, "nwhen": nwhen, "else": els, "where": where}
    # conflict handlers
    calls = ["on_conflict_f", "on_conflict_0", "do_nothing", "do_update", "where", "insert"]
    for d in dl:
        for n in range(1, 5):
            for seq in itertools.product(calls, repeat=n):
                k += 1
                if k % nshards == shard:
                    if n == 4 and tier == "quick" and (k // nshards) % 3:
                        continue
                    yield {"k": "conflict", "d": d, "seq": list(seq), "start": "insert"}
        for seq in itertools.product(calls[:5], repeat=2):
            k += 1
            if k % nshards == shard:
                yield {"k": "conflict", "d": d, "seq": list(seq), "start": "select"}
    # returning
    for stmt in ("insert", "update", "delete", "select", "update-join", "update-from", "insert-select", "update-cross-join", "update-using-join"):
        for term in ("field-own", "field-str", "star-str", "star", "const", "const-str-wrapped", "arith-own", "arith-foreign", "field-foreign",
                     "field-joined", "function", "aggregate", "null", "tuple", "field-equal-copy", "field-temporal-copy",
                     "arith-mixed", "arith-mixed-rev", "arith-own-joined", "arith-joined-own", "arith-joined-foreign", "tuple-mixed",
                     "arith-own-own", "nested-arith-mixed", "star-foreign", "star-joined", "star-equal-copy", "star-foreign-aliased"):
            k += 1
            if k % nshards == shard:
                yield {"k": "returning", "stmt": stmt, "term": term}
    # one-shot calls
    for d in dl:
        for name in ONE_SHOT:
            k += 1
            if k % nshards == shard:
                yield {"k": "oneshot", "d": d, "name": name}


_ZOO = None


def _zoo_entries():
    global _ZOO
    if _ZOO is None:
        from ..zoo import zoo
        _ZOO = [e for e in zoo()[0] if e["cls"] not in ("Values",)]
    return _ZOO


def zoo_forms(two_levels):
    ents = _zoo_entries()
    one = [(e["label"], s_) for e in ents for s_ in range(e["arity"])]
    if not two_levels:
        return ["zoo|%s|%d" % x for x in one]
    # (AtTimezone takes a column name, not a term: whatever it is given is written as one quoted identifier)
    return ["zoo2|%s|%d|%s|%d" % (a + b) for a in one for b in one if a[0] != "AtTimezone"]


# -------------------------------------------------------------------------------------------------------- joins
def run_join(case, mon):
    reg = R()
    w = World(case["d"])
    Q = w.Q
    T = reg["Table"]
    JoinException = reg["JoinException"]
    base = w.source(case["base"], "b")
    item = w.source(case["item"], "j")
    if case.get("self_join"):
        # a second, equal object for the table of FROM: on success the library gives it its automatic alias in place; on
        # rejection nothing may have happened to it
        item = w.source(case["base"], "b")
    foreign = w.source(case.get("foreign_shape", "plain"), "f")
    foreign2 = T("f2", alias="ff")
    prev = T("p")
    base2 = T("b2")
    upd = T("upd")
    dcte = reg["AliasedQuery"]("d_cte")
    how = case.get("how", "on")
    uses = {case["l"], case["r"]} | {x for e in case["extra"] for x in e[:2]}
    # statement
    try:
        if "update" in uses:
            q = Q.update(upd).set(upd.x, 1)
            available = [upd]
            if case["base"] != "cte":
                q = q.from_(base)
                available.append(base)
        else:
            if case["base"] == "cte":
                body = Q.from_(T("cte_src")).select("id", "x")
                q = Q.with_(body, "b_cte").from_(base)
            else:
                q = Q.from_(base)
            available = [base]
        if case["item"] == "cte":
            q = q.with_(Q.from_(T("cte_src2")).select("id", "x"), "j_cte")
        q = q.select(1) if "update" not in uses else q
        if "declared-cte" in uses:
            # declared after any other CTE of the statement, never a FROM/JOIN source itself
            q = q.with_(Q.from_(T("cte_src0")).select("k", "x"), "w0_cte").with_(Q.from_(T("cte_src3")).select("k", "x", "y"), "d_cte")
            available.append(dcte)
        if "base2" in uses:
            q = q.from_(base2)
            available.append(base2)
        if "prev-join" in uses:
            q = q.join(prev).on(prev.id == (upd.id if "update" in uses else base.field("id")))
            available.append(prev)
    except Exception as e:
        mon.count("join_setup_rejected")
        mon.add("setup_rejections", "%s:%s" % (type(e).__name__, str(e)[:50]))
        return
    available.append(item)
    pool = {"base": base, "item": item, "foreign": foreign, "foreign2": foreign2, "prev-join": prev, "base2": base2, "update": upd, "declared-cte": reg["AliasedQuery"]("d_cte"), "undeclared-cte": reg["AliasedQuery"]("zz_cte"),
            "base-copy": w.equal_copy(case["base"], "b", base), "item-copy": w.equal_copy(case["item"], "j", item), "none": None,
            "base-near": w.near_miss(case["base"], "b"), "item-near": w.near_miss(case["item"], "j")}

    # what happened to the partial statement before: nothing / sibling branches joined the other tables (and one tried an invalid
    # join) and were discarded / it was rendered / the join is made on a copy.  None of it may change the verdict.
    pre = case.get("pre")
    if pre == "siblings":
        anchor = available[0]
        for name in ("foreign", "foreign2", "base2", "undeclared-cte"):
            t_ = pool[name]
            if any(same(t_, s_, reg) for s_ in available):
                continue
            try:
                q.join(t_).on(reg["Field"]("id", table=t_) == reg["Field"]("id", table=anchor))
                q.join(item).on(reg["Field"]("id", table=t_) == reg["Field"]("id", table=item))
            except Exception:
                pass
        try:
            q.join(item).on(reg["Field"]("id", table=item) == reg["Field"]("id", table=anchor))
        except Exception:
            pass
        mon.count("join_calls_after_sibling_branches")
    elif pre == "render":
        try:
            str(q)
            q.get_sql(contexts()[case["d"]])
        except Exception:
            pass
        mon.count("join_calls_after_render")
    elif pre == "copy":
        import copy as _copy
        q = _copy.copy(q)
        mon.count("join_calls_on_copy")

    def operand(src, col, form):
        tbl = pool[src]
        f = reg["Field"](col, table=tbl)
        refs = [tbl]
        if form.startswith("zoo"):
            # the column sits in one operand slot of a term class of the zoo (zoo|<label>|<slot>), possibly two levels deep
            # (zoo2|<outer>|<slot>|<inner>|<slot>); the other slots hold constants
            parts = form.split("|")
            ents = {e_["label"]: e_ for e_ in _zoo_entries()}

            def put(label, slot, x):
                e_ = ents[label]
                ops = []
                for i_ in range(e_["arity"]):
                    if i_ == slot:
                        ops.append((x == 1) if i_ in e_["crit_slots"] and not isinstance(x, reg["Criterion"]) else x)
                    elif i_ in e_["crit_slots"]:
                        ops.append(reg["ValueWrapper"](1) == reg["ValueWrapper"](1))
                    else:
                        ops.append(reg["ValueWrapper"](7))
                return e_["make"](ops)
            x = f
            if parts[0] == "zoo2":
                x = put(parts[3], int(parts[4]), x)
            return put(parts[1], int(parts[2]), x), refs
        if form == "fn":
            return reg["fn.Coalesce"](f, 0), refs
        if form == "neg":
            return -f, refs
        if form == "arith":
            return f + 1, refs
        if form == "in-subquery-foreign":
            inner = T("nested_only")
            return f, refs  # the subquery is attached on the criterion level below
        return f, refs

    col_l = "x"
    col_r = "x" if case["samecol"] else "y"
    try:
        lo, lrefs = operand(case["l"], col_l, case["form"])
    except Exception as e:
        if not case["form"].startswith("zoo"):
            raise
        mon.count("zoo_operands_unbuildable")  # (a class that does not take this kind of operand in that slot)
        mon.add("zoo_unbuildable", "%s:%s" % (case["form"].split("|")[1], type(e).__name__))
        return
    if case["form"].startswith("zoo"):
        mon.count("zoo_operand_joins")
        mon.add("zoo_cells", ":".join(case["form"].split("|")[1:3]))
    ro, rrefs = operand(case["r"], col_r, "plain")
    crit = reg["BasicCriterion"](reg["Equality"].eq, lo, ro)
    refs = lrefs + rrefs
    if case["form"] == "in-subquery-foreign":
        inner = T("nested_only")
        crit = crit & reg["Field"]("id", table=pool[case["r"]] if pool[case["r"]] is not None else item).isin(
            Q.from_(inner).select(inner.id).where(inner.z == 1))
        if pool[case["r"]] is None:
            refs.append(item)
    for a, b, op in case["extra"]:
        c2 = reg["BasicCriterion"](reg["Equality"].eq, reg["Field"]("k", table=pool[a]), reg["Field"]("k", table=pool[b]))
        refs += [pool[a], pool[b]]
        crit = (crit & c2) if op == "and" else (crit | c2)
    # reference verdict
    missing = [t for t in refs if t is not None and not any(same(t, s, reg) for s in available)]
    expect_invalid = bool(missing) and how in ("on", "cross-on", "cross-join-on")
    # a rejected call is no call: statement, joined item and every table keep rendering, comparing and hashing as before
    mutable = pre is None and mon.evaluations % 5 == 0
    if mutable:
        q.immutable = False  # (an in-place builder: what a failed call leaves behind stays in the statement)
    def marks():
        out = []
        for o_ in [q, item] + [x_ for x_ in pool.values() if x_ is not None]:
            try:
                out.append((type(o_).__name__, getattr(o_, "alias", None), str(o_), hash(o_) if isinstance(o_, (reg["Table"], reg["AliasedQuery"])) else 0))
            except Exception as e_:
                out.append(("<exc>", type(e_).__name__))
        return out
    before_marks = marks()
    j = None
    try:
        j = q.join(item, reg["JoinType"].cross) if how == "cross-on" else (q.cross_join(item) if how == "cross-join-on" else q.join(item))
        if how in ("on", "cross-on", "cross-join-on"):
            q2 = j.on(crit)
        elif how == "using":
            q2 = j.using("id")
        elif how == "on_field":
            q2 = j.on_field("id")
        else:
            q2 = j.cross()
        outcome = None
    except Exception as e:
        outcome = e
    mon.count("join_calls")
    shape = "%s<-%s:%s=%s:%s%s" % (case["base"], case["item"], case["l"], case["r"], case["form"], ":samecol" if case["samecol"] else "")
    if expect_invalid:
        mon.count("join_invalid_by_reference")
        if outcome is None:
            mon.violation("join:missed:%s" % klass(case, missing, reg), "join criterion names %s, which is no source of the statement, but "
                          "no JoinException was raised (%s); criterion %s" % ([_name(t) for t in missing], shape, _sql(crit)), {"case": case})
            return
        if not isinstance(outcome, JoinException):
            mon.violation("join:wrong-exception:%s" % type(outcome).__name__, "expected JoinException, got %r (%s)" % (outcome, shape))
            return
        mon.count("rejected_joins_checked_for_marks")
        after_marks = marks()
        if after_marks != before_marks:
            k_ = [i_ for i_, (a_, b_) in enumerate(zip(before_marks, after_marks)) if a_ != b_][0]
            mon.violation("join:rejected-call-leaves-a-mark:%s%s" % (before_marks[k_][0], ":mutable" if mutable else ""),
                          "the join was rejected (%s) but %s changed from %r to %r" % (shape, ["the statement", "the joined item"][k_] if k_ < 2 else "a table",
                                                                                        before_marks[k_][1:], after_marks[k_][1:]), {"case": case})
            return
        if j is not None and not mutable:
            # the pending join is still usable: a valid criterion on the same Joiner gives what a fresh join gives
            good = reg["BasicCriterion"](reg["Equality"].eq, reg["Field"]("id", table=item), reg["Field"]("id", table=available[0]))
            try:
                retry = str(j.on(good))
                jf = q.join(item, reg["JoinType"].cross) if how == "cross-on" else (q.cross_join(item) if how == "cross-join-on" else q.join(item))
                fresh = str(jf.on(good))
                mon.count("retried_joiners")
                if retry != fresh:
                    mon.violation("join:rejected-call-leaves-a-mark:Joiner", "after a rejected on() the same pending join gives %r with a valid criterion, a fresh one %r" % (
                        retry[:220], fresh[:220]), {"case": case})
                    return
            except Exception:
                mon.count("retried_joiners_rejected")
    else:
        mon.count("join_valid_by_reference")
        if outcome is not None:
            if how == "on_field" and "update" in uses and isinstance(outcome, IndexError):
                mon.count("on_field_without_from")
                return
            mon.violation("join:false-reject:%s:%s" % (type(outcome).__name__, klass(case, [], reg)),
                          "criterion refers only to available sources (%s) but %s was raised: %s" % (shape, type(outcome).__name__, str(outcome)[:160]),
                          {"case": case})
            return
        try:
            q2.get_sql(contexts()[case["d"]])
        except Exception as e:
            mon.violation("join:render-raises:%s" % type(e).__name__, "valid join (%s) fails to render: %r" % (shape, e))
            return
    mon.nontrivial(case)
    if mon.evaluations % 499 == 1:
        mon.sample({"case": case, "criterion": _sql(crit), "outcome": type(outcome).__name__ if outcome else "accepted"})


def klass(case, missing, reg):
    feats = []
    if case["samecol"]:
        feats.append("same-column-name")
    if case["l"] in ("foreign", "foreign2") or case["r"] in ("foreign", "foreign2"):
        feats.append("foreign-%s" % ("left" if case["l"].startswith("foreign") else "right"))
    if "none" in (case["l"], case["r"]):
        feats.append("table-less-field")
    if case["l"].endswith("copy") or case["r"].endswith("copy"):
        feats.append("equal-copy-of-%s" % (case["base"] if "base-copy" in (case["l"], case["r"]) else case["item"]))
    feats.append(case["form"])
    return "+".join(feats)


def _name(t):
    try:
        return t.get_table_name()
    except Exception:
        return type(t).__name__


def _sql(x):
    try:
        return x.get_sql(R()["DEFAULT_SQL_CONTEXT"].copy(with_namespace=True))[:200]
    except Exception as e:
        return "<%s>" % type(e).__name__


# -------------------------------------------------------------------------------------------------------- others
def run_setop(case, mon):
    reg = R()
    Q = reg[case["d"]]
    T = reg["Table"]
    t = T("t")
    cols = ["a", "b", "c", "d"]
    def operand(n):
        if n == 0 and case.get("empty_form") == "no-select":
            return Q.from_(t)
        if n == 1 and case.get("star"):
            # one select item that is a star (the library compares the number of select items, whatever they are)
            return Q.from_(t).select({"str": "*", "obj": reg["Star"](), "table": t.star}[case["star"]])
        return Q.from_(t).select(*[t.field(c) for c in cols[:n]])
    base = operand(case["n0"])
    so = None
    for i, n in enumerate(case["others"]):
        other = operand(n)
        so = (so or base).union(other) if i % 2 == 0 else so.intersect(other)
    expect = any(n != case["n0"] for n in case["others"])
    try:
        so.get_sql(contexts()[case["d"]])
        out = None
    except Exception as e:
        out = e
    mon.count("setop_renders")
    if expect and out is None:
        mon.violation("setop:missed:arity", "select lists of %d vs %s columns rendered without SetOperationException" % (case["n0"], case["others"]))
    elif expect and not isinstance(out, reg["SetOperationException"]):
        mon.violation("setop:wrong-exception:%s" % type(out).__name__, "expected SetOperationException, got %r" % out)
    elif not expect and out is not None:
        mon.violation("setop:false-reject:%s" % type(out).__name__, "equal arities %d/%s rejected: %r" % (case["n0"], case["others"], out))
    else:
        mon.nontrivial(case)


def run_case_stmt(case, mon):
    reg = R()
    Q = reg[case["d"]]
    t = reg["Table"]("t")
    c = reg["Case"]()
    for i in range(case["nwhen"]):
        c = c.when(t.a == i, i)
    if case["else"]:
        c = c.else_(9)
    o = {"bare": lambda: c, "select": lambda: Q.from_(t).select(c), "where": lambda: Q.from_(t).select(t.a).where(c == 1),
         "nested": lambda: Q.from_(t).select(reg["fn.Coalesce"](c + 1, 0))}[case["where"]]()
    try:
        o.get_sql(contexts()[case["d"]])
        out = None
    except Exception as e:
        out = e
    mon.count("case_renders")
    expect = case["nwhen"] == 0
    if expect and out is None:
        mon.violation("case:missed:no-when", "CASE without WHEN rendered SQL (%s)" % case["where"])
    elif expect and not isinstance(out, reg["CaseException"]):
        mon.violation("case:wrong-exception:%s" % type(out).__name__, "expected CaseException, got %r" % out)
    elif not expect and out is not None:
        mon.violation("case:false-reject:%s" % type(out).__name__, "valid CASE rejected: %r" % out)
    else:
        mon.nontrivial(case)


def conflict_model(start, seq):
    """Reference: index of the first call that must raise QueryException (or 'render'), else None."""
    insert = start == "insert"
    has_values = False
    on_conflict = False
    fields = False
    nothing = False
    updates = 0
    for i, c in enumerate(seq):
        if c == "insert":
            if not insert:
                return i, "AttributeError"
            has_values = True
        elif c in ("on_conflict_f", "on_conflict_0"):
            if not insert:
                return i, "QueryException"
            on_conflict = True
            fields = fields or c == "on_conflict_f"
        elif c == "do_nothing":
            if updates:
                return i, "QueryException"
            nothing = True
        elif c == "do_update":
            if nothing:
                return i, "QueryException"
            updates += 1
        elif c == "where":
            if on_conflict:
                if nothing:
                    return i, "QueryException"
                if not fields:
                    return i, "QueryException"
    # render
    if insert and has_values and on_conflict:
        if not nothing and not updates and fields:
            return "render", "QueryException"
        if updates and not fields:
            return "render", "QueryException"
    return None, None


def run_conflict(case, mon):
    reg = R()
    d = case["d"]
    Q = reg[d]
    t = reg["Table"]("t")
    q = Q.into(t) if case["start"] == "insert" else Q.from_(t).select(t.a)
    exp_at, exp_cls = conflict_model(case["start"], case["seq"])
    if d == "MySQLQuery" and exp_at == "render":
        # MySQL renders ON DUPLICATE KEY UPDATE / INSERT IGNORE; handler presence is not checked at render there
        exp_at = exp_cls = None
    got_at = got = None
    for i, c in enumerate(case["seq"]):
        try:
            if c == "insert":
                q = q.insert(1, 2)
            elif c == "on_conflict_f":
                q = q.on_conflict("id")
            elif c == "on_conflict_0":
                q = q.on_conflict()
            elif c == "do_nothing":
                q = q.do_nothing()
            elif c == "do_update":
                q = q.do_update("a", 5)
            elif c == "where":
                q = q.where(t.a > 1)
        except Exception as e:
            got_at, got = i, e
            break
    if got is None:
        try:
            q.get_sql(contexts()[d])
        except Exception as e:
            got_at, got = "render", e
    mon.count("conflict_sequences")
    desc = "%s -> %s" % (case["start"], ".".join(case["seq"]))
    if exp_at is None and got is not None:
        mon.violation("conflict:false-reject:%s:%s" % (type(got).__name__, case["seq"][got_at] if isinstance(got_at, int) else "render"),
                      "valid handler sequence %s raised %r at %s" % (desc, got, got_at))
    elif exp_at is not None and got is None:
        mon.violation("conflict:missed:%s" % (case["seq"][exp_at] if isinstance(exp_at, int) else "render"),
                      "sequence %s should raise %s at %s but produced SQL %r" % (desc, exp_cls, exp_at, q.get_sql(contexts()[d])[:160]))
    elif exp_at is not None and (got_at != exp_at or type(got).__name__ != exp_cls):
        mon.violation("conflict:wrong-exception:%s" % type(got).__name__, "sequence %s: expected %s at %s, got %r at %s" % (desc, exp_cls, exp_at, got, got_at))
    else:
        mon.nontrivial(case)


def run_returning(case, mon):
    reg = R()
    Q = reg["PostgreSQLQuery"]
    T = reg["Table"]
    t, u, f = T("t"), T("u"), T("foreign")
    stmt = case["stmt"]
    dml = stmt != "select"
    joined = []
    if stmt == "insert":
        q = Q.into(t).insert(1)
    elif stmt == "insert-select":
        q = Q.into(t).from_(u).select(u.id)
        joined = [u]
    elif stmt == "update":
        q = Q.update(t).set(t.a, 1)
    elif stmt == "update-join":
        q = Q.update(t).set(t.a, 1).join(u).on(t.id == u.id)
        joined = [u]
    elif stmt == "update-cross-join":
        q = Q.update(t).set(t.a, 1).join(u).cross()
        joined = [u]
    elif stmt == "update-using-join":
        q = Q.update(t).set(t.a, 1).join(u).using("id")
        joined = [u]
    elif stmt == "update-from":
        q = Q.update(t).set(t.a, 1).from_(u)
        joined = [u]
    elif stmt == "delete":
        q = Q.from_(t).delete()
    else:
        q = Q.from_(t).select(t.a)
    term = case["term"]
    tables = []
    if term == "field-own":
        arg = t.id
        tables = [t]
    elif term == "field-str":
        arg = "id"
    elif term == "star-str":
        arg = "*"
    elif term == "star":
        arg = t.star
        tables = [t]
    elif term == "star-foreign":
        arg = f.star
        tables = [f]
    elif term == "star-joined":
        arg = u.star
        tables = [u]
    elif term == "star-equal-copy":
        arg = T("t").star
        tables = [T("t")]
    elif term == "star-foreign-aliased":
        arg = T("t").as_("other").star
        tables = [T("t").as_("other")]
    elif term == "const":
        arg = 5
    elif term == "const-str-wrapped":
        arg = reg["ValueWrapper"]("x")
    elif term == "arith-own":
        arg = t.a + 1
        tables = [t]
    elif term == "arith-foreign":
        arg = f.a + 1
        tables = [f]
    elif term == "field-foreign":
        arg = f.id
        tables = [f]
    elif term == "field-joined":
        arg = u.id
        tables = [u]
    elif term == "function":
        arg = reg["fn.Coalesce"](t.a, 0)
    elif term == "aggregate":
        arg = reg["fn.Sum"](t.a)
    elif term == "null":
        arg = None
    elif term == "tuple":
        arg = reg["Tuple"](t.a, 1)
        tables = [t]
    elif term == "arith-mixed":
        arg = t.a + f.a
        tables = [t, f]
    elif term == "arith-mixed-rev":
        arg = (f.n * 2) - t.id
        tables = [f, t]
    elif term == "arith-own-joined":
        arg = t.id + u.n
        tables = [t, u]
    elif term == "arith-joined-own":
        arg = u.n - t.id
        tables = [u, t]
    elif term == "arith-joined-foreign":
        arg = u.n + f.n
        tables = [u, f]
    elif term == "tuple-mixed":
        arg = reg["Tuple"](t.a, f.a)
        tables = [t, f]
    elif term == "arith-own-own":
        arg = t.a * t.b + 1
        tables = [t]
    elif term == "nested-arith-mixed":
        arg = (t.a + 1) * ((t.b - 2) / (f.c + 3))
        tables = [t, f]
    elif term == "field-equal-copy":
        arg = T("t").id
        tables = [T("t")]
    elif term == "field-temporal-copy":
        arg = T("t").for_(reg["SystemTimeValue"]() == "2020").id
        tables = [t]
    else:
        raise ValueError(term)
    if term in ("function", "aggregate"):
        expect = "QueryException"  # documented: functions are not allowed in RETURNING
    elif not dml:
        expect = "QueryException"
    elif any(not any(x == s for s in [t] + joined) for x in tables):
        expect = "QueryException"
    else:
        expect = None
    try:
        q2 = q.returning(arg)
        q2.get_sql()
        out = None
    except Exception as e:
        out = e
    mon.count("returning_calls")
    desc = "%s.returning(%s)" % (stmt, term)
    if expect and out is None:
        mon.violation("returning:missed:%s:%s" % ("non-dml" if not dml else "foreign", term), "%s produced SQL %r instead of raising QueryException" % (desc, q2.get_sql()[:120]))
    elif expect and type(out).__name__ != expect:
        mon.violation("returning:wrong-exception:%s:%s" % (type(out).__name__, stmt), "%s: expected %s, got %r" % (desc, expect, out))
    elif not expect and out is not None:
        mon.violation("returning:false-reject:%s:%s" % (type(out).__name__, stmt), "%s is valid but raised %r" % (desc, out))
    else:
        mon.nontrivial(case)


def _oneshot_table():
    reg = R()
    T = reg["Table"]
    t = T("t")
    ST = reg["SystemTimeValue"]
    return {
        "into": (lambda Q: Q.into(t), lambda q: q.into(T("x")), AttributeError),
        # the same one-shot call repeated on builders in every other state that still has the attribute set
        "into-after-select-into": (lambda Q: Q.from_(t).select(t.a).into(T("d1")), lambda q: q.into(T("x")), AttributeError),
        "into-after-into-select": (lambda Q: Q.into(T("d1")).from_(t).select(t.a), lambda q: q.into(T("x")), AttributeError),
        "into-after-into-insert": (lambda Q: Q.into(T("d1")).insert(1), lambda q: q.into(T("x")), AttributeError),
        "into-after-into-columns": (lambda Q: Q.into(T("d1")).columns("a"), lambda q: q.into(T("x")), AttributeError),
        "update-after-update-set": (lambda Q: Q.update(t).set(t.a, 1).where(t.b == 2), lambda q: q.update(T("x")), AttributeError),
        "delete-after-delete-where": (lambda Q: Q.from_(t).delete().where(t.a == 1), lambda q: q.delete(), AttributeError),
        "primary_key-after-unique": (lambda Q: Q.create_table(t).columns("a", "b").primary_key("a").unique("b"), lambda q: q.primary_key("b"), AttributeError),
        "update": (lambda Q: Q.update(t), lambda q: q.update(T("x")), AttributeError),
        "delete": (lambda Q: Q.from_(t).delete(), lambda q: q.delete(), AttributeError),
        "delete-after-select": (lambda Q: Q.from_(t).select(t.a), lambda q: q.delete(), AttributeError),
        "update-after-select": (lambda Q: Q.from_(t).select(t.a), lambda q: q.update(t), AttributeError),
        "update-after-delete": (lambda Q: Q.from_(t).delete(), lambda q: q.update(t), AttributeError),
        "delete-after-update": (lambda Q: Q.update(t), lambda q: q.delete(), AttributeError),
        "create_table": (lambda Q: Q.create_table(t), lambda q: q.create_table(T("x")), AttributeError),
        "primary_key": (lambda Q: Q.create_table(t).columns("a").primary_key("a"), lambda q: q.primary_key("a"), AttributeError),
        "columns-after-as_select": (lambda Q: Q.create_table(t).as_select(Q.from_(t).select(t.a)), lambda q: q.columns("a"), AttributeError),
        "as_select-after-columns": (lambda Q: Q.create_table(t).columns("a"), lambda q: q.as_select(R()["Query"].from_(t).select(t.a)), AttributeError),
        "drop_table": (lambda Q: Q.drop_table(t), lambda q: q.drop_table(T("x")), AttributeError),
        "rollup-after-mysql-rollup": (lambda Q: Q.from_(t).select(t.a).groupby(t.a).rollup(vendor="mysql"), lambda q: q.rollup(t.b), AttributeError),
        "mysql-rollup-without-groupby": (lambda Q: Q.from_(t).select(t.a), lambda q: q.rollup(vendor="mysql"), reg["RollupException"]),
        "for_": (lambda Q: t.for_(ST() == "2020"), lambda x: x.for_(ST() == "2021"), AttributeError),
        "for_portion": (lambda Q: t.for_portion(ST().from_to("a", "b")), lambda x: x.for_portion(ST().from_to("c", "d")), AttributeError),
        "for_-after-for_portion": (lambda Q: t.for_portion(ST().from_to("a", "b")), lambda x: x.for_(ST() == "2021"), AttributeError),
        "for_portion-after-for_": (lambda Q: t.for_(ST() == "2020"), lambda x: x.for_portion(ST().from_to("c", "d")), AttributeError),
        "rows-twice": (lambda Q: reg["an.Sum"](t.a).rows(reg["an.Preceding"](1)), lambda x: x.rows(reg["an.Preceding"](2)), AttributeError),
        "range-after-rows": (lambda Q: reg["an.Sum"](t.a).rows(reg["an.Preceding"](1)), lambda x: x.range(reg["an.Preceding"](2)), AttributeError),
        "insert-without-into": (lambda Q: Q.from_(t), lambda q: q.insert(1), AttributeError),
        "columns-without-into": (lambda Q: Q.from_(t), lambda q: q.columns("a"), AttributeError),
        "select-str-without-from": (lambda Q: Q.select(1), lambda q: q.select("a"), reg["QueryException"]),
        "join-without-criterion": (lambda Q: Q.from_(t).select(t.a), lambda q: q.join(T("u")).on(None), reg["JoinException"]),
        "join-unknown-type": (lambda Q: Q.from_(t).select(t.a), lambda q: q.join("u"), ValueError),
        "on_field-empty": (lambda Q: Q.from_(t).select(t.a), lambda q: q.join(T("u")).on_field(), reg["JoinException"]),
        "using-empty": (lambda Q: Q.from_(t).select(t.a), lambda q: q.join(T("u")).using(), reg["JoinException"]),
        "top-not-int": (lambda Q: R()["MSSQLQuery"].from_(t).select(t.a), lambda q: q.top("abc"), reg["QueryException"]),
    }


ONE_SHOT = ["into-after-select-into", "into-after-into-select", "into-after-into-insert", "into-after-into-columns", "update-after-update-set",
            "delete-after-delete-where", "primary_key-after-unique", "into", "update", "delete", "delete-after-select", "update-after-select", "update-after-delete", "delete-after-update",
            "create_table", "primary_key", "columns-after-as_select", "as_select-after-columns", "drop_table", "rollup-after-mysql-rollup",
            "mysql-rollup-without-groupby", "for_", "for_portion", "for_-after-for_portion", "for_portion-after-for_", "rows-twice",
            "range-after-rows", "insert-without-into", "columns-without-into", "select-str-without-from", "join-without-criterion",
            "join-unknown-type", "on_field-empty", "using-empty", "top-not-int"]


def run_oneshot(case, mon):
    reg = R()
    tab = _oneshot_table()
    first, second, exc = tab[case["name"]]
    Q = reg[case["d"]]
    try:
        o = first(Q)
    except Exception as e:
        mon.violation("oneshot:false-reject:%s" % case["name"], "first call raised %r" % e)
        return
    mon.count("oneshot_cases")
    try:
        o2 = second(o)
        sql = None
        try:
            sql = o2.get_sql(contexts()[case["d"]]) if hasattr(o2, "get_sql") else str(o2)
        except Exception:
            pass
        mon.violation("oneshot:missed:%s" % case["name"], "the repeated / out-of-place call was accepted (rendering %r)" % (sql or "")[:120])
    except exc:
        mon.nontrivial(case)
    except Exception as e:
        mon.violation("oneshot:wrong-exception:%s:%s" % (case["name"], type(e).__name__), "expected %s, got %r" % (exc.__name__, e))


def run_case(case, mon):
    {"join": run_join, "setop": run_setop, "case": run_case_stmt, "conflict": run_conflict, "returning": run_returning,
     "oneshot": run_oneshot}[case["k"]](case, mon)


def FLOORS(tier):
    return {"zoo_operand_joins": 5000, "join_calls": 5000, "join_invalid_by_reference": 1000, "join_valid_by_reference": 1000, "setop_renders": 300,
            "case_renders": 100, "conflict_sequences": 1000, "returning_calls": 100, "oneshot_cases": 100}
