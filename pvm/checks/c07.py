"""C07 - user-supplied names are emitted as single, correctly quoted identifiers.

Differential tokenisation: a statement is rendered with the name n and with a marker name at one emission site and both
renderings are tokenised with the dialect's reference lexer.  The streams must agree everywhere except at identifier
tokens, which must be delimited by the dialect's identifier quote and denote exactly n - the same way at the defining
and at every referencing occurrence.  SQLite: the statement is prepared against a schema whose objects carry exactly
those names.
"""
from __future__ import annotations

import random
import sqlite3

from ..fingerprint import contexts
from ..lex import DIALECT_OF, sig, tokenize
from ..prog import DIALECT_CLASSES, registry
from ..values import NAME_CLASSES, random_name

PROP = "C07"
LEVEL = "exploration"
RULE = ("complete product emission site x name class x dialect (30 name classes: reserved words, spaces, mixed case, dots, the "
        "three quote characters singly and doubled, backslash, comment openers, placeholders, Unicode) plus names of 1-3 characters and of 31/64/200 characters, plus seeded random names; sites include the Tables()/Query.Tables() "
        "factories, Schema/Database attribute chains, item access, Index/Column objects and every DDL builder; each statement is also "
        "rendered with str() (no context) and must come out the same; "
        "non-trivial = the name is not a plain lower-case identifier; distinct = (site, dialect, name)"
        " also: absolute identifier sequences for DDL twins / USING lists / schema targets of every statement kind, table shortcuts, attribute access and string columns, names a convenience layer might reinterpret, a foreign context through get_parameterized_sql. (DESIGN.md 6a)")
ASSUMPTIONS = [
    "identifier lexing per dialect: \"..\" with \"\" escape (SQLite, PostgreSQL, SQL Server with QUOTED_IDENTIFIER ON, Oracle), "
    "`..` with `` escape (MySQL, where \"..\" is a string)",
    "SQLite prepare is attempted for the sites whose statement is executable on the fixed schema",
]
ANCHORS = ["format_quotes", "format_alias_sql", "Field.get_sql", "Star.get_sql", "Index.get_sql", "Table.get_sql",
           "Schema.get_sql", "Column.get_name_sql", "PeriodFor.get_sql", "AliasedQuery.get_sql", "QueryBuilder._with_sql",
           "QueryBuilder._group_sql", "QueryBuilder._orderby_sql", "QueryBuilder._for_update_sql", "_SetOperation._orderby_sql"]
WORKERS = {"quick": 16, "thorough": 16}
MARK = "mk424242"
FIXED_NAMES = {"t", "u", "a", "b", "c", "id", "db", "s", "tbl", "p", "one", "other", "f", "x", "t2", "u2"}


def _r():
    return registry()


def S_from(Q, n):
    r = _r()
    return Q.from_(r["Table"](n)).select("a")


def S_from_str(Q, n):
    return Q.from_(n).select("a")


def S_join(Q, n):
    r = _r()
    t, u = r["Table"]("t"), r["Table"](n)
    return Q.from_(t).select(t.a).join(u).on(t.id == u.id)


def S_schema1(Q, n):
    r = _r()
    return Q.from_(r["Table"]("t", schema=n)).select("a")


def S_schema2(Q, n):
    r = _r()
    return Q.from_(r["Table"]("t", schema=["db", n])).select("a")


def S_schema3(Q, n):
    r = _r()
    return Q.from_(r["Schema"](n, parent=r["Database"]("db")).tbl).select("a")


def S_schema_list3_outer(Q, n):
    return Q.from_(_r()["Table"]("t", schema=[n, "db", "sch"])).select("a")


def S_schema_list3_middle(Q, n):
    return Q.from_(_r()["Table"]("t", schema=("srv", n, "sch"))).select("a")


def S_schema_list3_inner(Q, n):
    t = _r()["Table"]("t", schema=["srv", "db", n])
    return Q.from_(t).select(t.a).where(t.b == 1)


def S_schema_list4_middle(Q, n):
    return Q.from_(_r()["Table"]("t", schema=["h", "srv", n, "sch"])).select("a")


def S_schema_factory_list(Q, n):
    t, u = Q.Tables("t", "u", schema=["srv", n, "sch"])
    return Q.from_(t).select(t.a).join(u).on(t.id == u.id)


def S_schema_object_chain3(Q, n):
    r = _r()
    S = r["Schema"]
    return Q.from_(r["Table"]("t", schema=S("sch", parent=S(n, parent=S("srv"))))).select("a")


def S_temporal_table_name(Q, n):
    r = _r()
    t = r["Table"](n).for_(r["SystemTimeValue"]() == "2020-01-01")
    return Q.from_(t).select(t.a)


def S_temporal_table_schema(Q, n):
    r = _r()
    t = r["Table"]("t", schema=n).for_portion(r["SystemTimeValue"]().from_to("2020-01-01", "2021-01-01"))
    return Q.update(t).set("a", 1)


def S_temporal_table_alias(Q, n):
    r = _r()
    t = r["Table"]("t", alias=n).for_(r["SystemTimeValue"]() == "2020-01-01")
    return Q.from_(t).select(t.a)


def S_column_select(Q, n):
    r = _r()
    t = r["Table"]("t")
    return Q.from_(t).select(t.field(n))


def S_column_str(Q, n):
    r = _r()
    t = r["Table"]("t")
    return Q.from_(t).select(n) if n != "*" else Q.from_(t).select("a")


def S_column_where(Q, n):
    r = _r()
    t = r["Table"]("t")
    return Q.from_(t).select(t.a).where(t.field(n) == 1)


def S_column_groupby(Q, n):
    r = _r()
    t = r["Table"]("t")
    return Q.from_(t).select(r["fn.Count"]("*")).groupby(t.field(n)).having(r["fn.Max"](t.field(n)) > 1)


def S_column_groupby_str(Q, n):
    r = _r()
    t = r["Table"]("t")
    return Q.from_(t).select(r["fn.Count"]("*")).groupby(n).orderby(n)


def S_column_orderby(Q, n):
    r = _r()
    t = r["Table"]("t")
    return Q.from_(t).select(t.a).orderby(t.field(n), order=r["Order"].desc)


def S_column_function(Q, n):
    r = _r()
    t = r["Table"]("t")
    return Q.from_(t).select(r["fn.Coalesce"](t.field(n), 0), r["Case"]().when(t.field(n) > 1, 1).else_(t.field(n)))


def S_table_alias(Q, n):
    r = _r()
    t = r["Table"]("t", alias=n)
    return Q.from_(t).select(t.a, t.star).where(t.b > 0)


def S_table_alias_join(Q, n):
    r = _r()
    t, u = r["Table"]("t"), r["Table"]("u", alias=n)
    return Q.from_(t).select(t.a, u.b).join(u).on(t.id == u.id)


def S_star_qualifier(Q, n):
    r = _r()
    t, u = r["Table"](n), r["Table"]("u")
    return Q.from_(t).select(t.star).join(u).on(t.id == u.id)


def S_term_alias(Q, n):
    r = _r()
    t = r["Table"]("t")
    return Q.from_(t).select(t.a.as_(n), (t.b + 1).as_("other"))


def S_alias_groupby(Q, n):
    r = _r()
    t = r["Table"]("t")
    e = (t.b + 1).as_(n)
    return Q.from_(t).select(e, r["fn.Count"]("*")).groupby(e).orderby(e)


def S_function_alias(Q, n):
    r = _r()
    t = r["Table"]("t")
    return Q.from_(t).select(r["fn.Sum"](t.a).as_(n), r["ValueWrapper"](1).as_("one"))


def S_subquery_alias(Q, n):
    r = _r()
    t = r["Table"]("t")
    sub = Q.from_(t).select(t.a).as_(n)
    return Q.from_(sub).select(sub.a)


def S_subquery_alias_join(Q, n):
    r = _r()
    t, u = r["Table"]("t"), r["Table"]("u")
    sub = Q.from_(u).select(u.id).as_(n)
    return Q.from_(t).select(t.a).join(sub).on(t.id == sub.id)


def S_setop_alias(Q, n):
    r = _r()
    t = r["Table"]("t")
    so = Q.from_(t).select(t.a).union(Q.from_(t).select(t.b)).as_(n)
    return Q.from_(so).select(so.a)


def S_setop_orderby_alias(Q, n):
    r = _r()
    t = r["Table"]("t")
    e = t.a.as_(n)
    return Q.from_(t).select(e).union(Q.from_(t).select(t.b)).orderby(e)


def S_force_index(Q, n):
    r = _r()
    t = r["Table"]("t")
    return Q.from_(t).select(t.a).force_index(n)


def S_use_index(Q, n):
    r = _r()
    t = r["Table"]("t")
    return Q.from_(t).select(t.a).use_index(r["Index"](n))


def S_for_update_of(Q, n):
    r = _r()
    t = r["Table"]("t")
    return Q.from_(t).select(t.a).for_update(of=(n,))


def S_cte(Q, n):
    r = _r()
    t = r["Table"]("t")
    c = r["AliasedQuery"](n)
    return Q.with_(Q.from_(t).select(t.a), n).from_(c).select(c.a)


def S_cte_join(Q, n):
    r = _r()
    t = r["Table"]("t")
    c = r["AliasedQuery"](n)
    return Q.with_(Q.from_(t).select(t.id), n).from_(t).select(t.a).join(c).on(t.id == c.id)


def S_using(Q, n):
    r = _r()
    t, u = r["Table"]("t"), r["Table"]("u")
    return Q.from_(t).select(t.a).join(u).using(n)


def S_on_field(Q, n):
    r = _r()
    t, u = r["Table"]("t"), r["Table"]("u")
    return Q.from_(t).select(t.a).join(u).on_field(n)


def S_insert_table(Q, n):
    return Q.into(n).insert(1)


def S_insert_columns(Q, n):
    r = _r()
    t = r["Table"]("t")
    return Q.into(t).columns(n, t.b).insert(1, 2)


def S_set_target(Q, n):
    r = _r()
    t = r["Table"]("t")
    return Q.update(t).set(n, 1).set(t.field(n), 2)


def S_update_table(Q, n):
    return Q.update(n).set("a", 1)


def S_on_conflict(Q, n):
    r = _r()
    t = r["Table"]("t")
    return Q.into(t).insert(1).on_conflict(n).do_update(n, 5)


def S_on_conflict_excluded(Q, n):
    r = _r()
    t = r["Table"]("t")
    return Q.into(t).insert(1).on_conflict(t.field(n)).do_update(n)


def S_returning(Q, n):
    r = _r()
    t = r["Table"]("t")
    return Q.into(t).insert(1).returning(n, t.field(n))


def S_distinct_on(Q, n):
    r = _r()
    t = r["Table"]("t")
    return Q.from_(t).select(t.a).distinct_on(n)


def S_create_table(Q, n):
    return Q.create_table(n).columns(("a", "INT"))


def S_create_columns(Q, n):
    r = _r()
    return Q.create_table("t").columns((n, "INT"), r["Column"]("b", "TEXT")).unique(n).primary_key(n)


def S_create_case_twins(Q, n):
    # two declared columns whose names differ in letter case only, each with a key constraint of its own (quoted identifiers are
    # case-sensitive: the constraint names the spelling it was given)
    r = _r()
    m = n.swapcase()
    return Q.create_table("t").columns((n, "INT"), (m, "INT"), r["Column"]("b", "TEXT")).unique(m, "b").primary_key(n)


def S_create_case_twins_reverse(Q, n):
    m = n.swapcase()
    return Q.create_table("t").columns((m, "INT"), (n, "INT")).primary_key(m).unique(n)


def S_period_for(Q, n):
    return Q.create_table("t").columns(("a", "INT"), ("b", "INT")).period_for(n, "a", "b")


def S_period_cols(Q, n):
    return Q.create_table("t").columns((n, "INT"), ("b", "INT")).period_for("p", n, "b")


def S_drop_table(Q, n):
    return Q.drop_table(n).if_exists()


def S_mysql_upsert_alias(Q, n):
    r = _r()
    t = r["Table"]("t")
    return Q.into(t).insert(1).as_(n).on_conflict().do_update("a")


def S_select_into(Q, n):
    r = _r()
    t = r["Table"]("t")
    return Q.from_(t).select(t.a).into(n)


def S_load(Q, n):
    return Q.load("/f.csv").into(n)


def S_function_schema(Q, n):
    r = _r()
    t = r["Table"]("t")
    return Q.from_(t).select(r["Function"]("F", t.a, schema=r["Schema"](n)))


def S_tables_factory(Q, n):
    t = _r()["make_tables"](n)[0]
    return Q.from_(t).select(t.a)


def S_tables_factory_many(Q, n):
    t, u = Q.Tables(n, "u")
    return Q.from_(t).select(t.a).join(u).on(t.id == u.id)


def S_tables_factory_alias_pair(Q, n):
    t = Q.Tables(("t", n))[0]
    return Q.from_(t).select(t.a)


def S_tables_factory_name_pair(Q, n):
    t = Q.Tables((n, "al"))[0]
    return Q.from_(t).select(t.a)


def S_query_table(Q, n):
    t = Q.Table(n)
    return Q.from_(t).select(t.a)


def S_database_chain(Q, n):
    t = getattr(getattr(_r()["Database"](n), "s"), "tbl")
    return Q.from_(t).select(t.a)


def S_schema_attr_table(Q, n):
    t = getattr(_r()["Schema"]("s"), n)
    return Q.from_(t).select(t.a)


def S_table_attr_column(Q, n):
    t = _r()["Table"]("t")
    return Q.from_(t).select(t[n], t.field(n))  # (attribute access is not used: names of methods are methods)


def S_table_getattr_column(Q, n):
    """Attribute access on a table (and on a derived table) names the column spelt exactly like the attribute."""
    t = _r()["Table"]("t")
    def col(src):  # (names of real attributes and methods are not columns: those go through field())
        real = n.startswith("__") or hasattr(type(src), n) or n in vars(src)
        return src.field(n) if real else getattr(src, n)
    inner = Q.from_(t).select(col(t)).as_("i1")
    return Q.from_(inner).select(col(inner))


def S_groupby_str(Q, n):
    t = _r()["Table"]("t")
    return Q.from_(t).select(n).groupby(n)


def S_orderby_str(Q, n):
    t = _r()["Table"]("t")
    return Q.from_(t).select(n).orderby(n)


def S_groupby_str_join(Q, n):
    r = _r()
    t, u = r["Table"]("t"), r["Table"]("u")
    return Q.from_(t).join(u).on(t.id == u.id).select(t.a).groupby(n).orderby(n)


def S_index_object(Q, n):
    r = _r()
    t = r["Table"]("t")
    return Q.from_(t).select(t.a).force_index(r["Index"](n))


def S_column_object(Q, n):
    r = _r()
    return Q.create_table("t").columns(r["Column"](n, "INT", nullable=False, default=1))


# index hints: every argument, an Index object or a string, in whatever position
def S_index_second_object(Q, n):
    r = _r()
    t = r["Table"]("t")
    return Q.from_(t).select(t.a).force_index(r["Index"]("ix1"), r["Index"](n))


def S_index_mixed_arguments(Q, n):
    r = _r()
    t = r["Table"]("t")
    return Q.from_(t).select(t.a).use_index("ix1", r["Index"](n), "ix3").force_index(n, r["Index"]("ix4"))


# an aliased table as the target of UPDATE / INSERT: the alias is introduced right after the table and used as qualifier
def S_update_target_alias(Q, n):
    t = _r()["Table"]("t").as_(n)
    return Q.update(t).set(t.a, 1).where(t.b == 2)


def S_insert_target_alias(Q, n):
    t = _r()["Table"]("t").as_(n)
    return Q.into(t).columns("x").insert(1)


# JOIN .. USING (<names>) with joined items that carry an alias (given, automatic, derived table): the list holds bare names
def S_using_aliased_item(Q, n):
    t = _r()["Table"]("t")
    return Q.from_(t).select(t.a).join(_r()["Table"]("u", alias="al")).using(n)


def S_using_self_join(Q, n):
    t = _r()["Table"]("t")
    return Q.from_(t).select(t.a).join(_r()["Table"]("t")).using(n, "id")


def S_using_subquery_item(Q, n):
    r = _r()
    t = r["Table"]("t")
    s = Q.from_(r["Table"]("u")).select("id").as_("sq")
    return Q.from_(t).select(t.a).left_join(s).using("id", n)


# a schema-qualified (or aliased) Table object as the target of every statement kind
def S_load_schema(Q, n):
    return Q.load("/f.csv").into(_r()["Table"]("t", schema=n))


def S_load_database_chain(Q, n):
    return Q.load("/f.csv").into(getattr(getattr(_r()["Database"](n), "sch"), "tbl"))


def S_load_aliased_table(Q, n):
    return Q.load("/f.csv").into(_r()["Table"](n).as_("al"))


def S_insert_schema(Q, n):
    return Q.into(_r()["Table"]("t", schema=n)).insert(1)


def S_update_schema(Q, n):
    t = _r()["Table"]("t", schema=n)
    return Q.update(t).set("a", 1)


def S_delete_schema(Q, n):
    t = _r()["Table"]("t", schema=["srv", n])
    return Q.from_(t).delete().where(t.a == 1)


def S_create_schema(Q, n):
    return Q.create_table(_r()["Table"]("t", schema=n)).columns(_r()["Column"]("a", "INT"))


def S_drop_schema(Q, n):
    return Q.drop_table(_r()["Table"]("t", schema=n))


def S_join_schema(Q, n):
    r = _r()
    t, u = r["Table"]("t"), r["Table"]("u", schema=n)
    return Q.from_(t).join(u).on(t.id == u.id).select(t.a)


# statements started from the shortcuts of a table bound to the dialect class (Q.Table / Q.Tables / Table(query_cls=Q))
def S_shortcut_select(Q, n):
    t = Q.Table(n)
    return t.select(t.a, "b").where(t.a == 1)


def S_shortcut_update(Q, n):
    t = Q.Table(n)
    return t.update().set(t.a, 1).where(t.b == 2)


def S_shortcut_insert(Q, n):
    t = Q.Table(n, schema="sch")
    return t.insert(1, 2)


def S_shortcut_insert_columns(Q, n):
    t = Q.Tables("t")[0]
    return t.insert(1, 2).columns(n, "b")


def S_shortcut_insert_query_cls(Q, n):
    t = _r()["Table"](n, query_cls=Q)
    return t.insert(1, 2)


def S_shortcut_update_column(Q, n):
    t = Q.Tables(("t", "al"))[0]
    return t.update().set(n, 1)


SITES = {k[2:].replace("_", "-"): v for k, v in list(globals().items()) if k.startswith("S_")}
EXPECT_IDENTS = {
    "create-case-twins": lambda n: ["t", n, n.swapcase(), "b", n.swapcase(), "b", n],
    "create-case-twins-reverse": lambda n: ["t", n.swapcase(), n, n, n.swapcase()],
    "create-columns": lambda n: ["t", n, "b", n, n],
    "index-second-object": lambda n: ["a", "t", "ix1", n], "index-mixed-arguments": lambda n: ["a", "t", n, "ix4", "ix1", n, "ix3"],
    "update-target-alias": lambda n: ["t", n, n, "a", n, "b"], "insert-target-alias": lambda n: ["t", n, n, "x"],
    "using-aliased-item": lambda n: ["t", "a", "t", "u", "al", n], "using-self-join": lambda n: ["t", "a", "t", "t", "t2", n, "id"],
    "using-subquery-item": lambda n: ["t", "a", "t", "id", "u", "sq", "id", n],
    "load-schema": lambda n: [n, "t"], "load-database-chain": lambda n: [n, "sch", "tbl"],
    "insert-schema": lambda n: [n, "t"], "drop-schema": lambda n: [n, "t"], "create-schema": lambda n: [n, "t", "a"],
}
ONLY = {"returning": {"PostgreSQLQuery"}, "distinct-on": {"PostgreSQLQuery"}, "mysql-upsert-alias": {"MySQLQuery"},
        "load": {"MySQLQuery"}, "load-schema": {"MySQLQuery"}, "load-database-chain": {"MySQLQuery"}, "load-aliased-table": {"MySQLQuery"}}
# sites whose SQLite statement can be prepared against a schema built from the name: site -> (ddl using {n})
SQLITE_SCHEMA = {
    "from": 'CREATE TABLE {n}(a)', "from-str": 'CREATE TABLE {n}(a)', "join": 'CREATE TABLE t(a,id); CREATE TABLE {n}(id)',
    "column-select": 'CREATE TABLE t({n})', "column-where": 'CREATE TABLE t(a,{n})', "column-orderby": 'CREATE TABLE t(a,{n})',
    "column-groupby": 'CREATE TABLE t({n})', "column-function": 'CREATE TABLE t({n})', "table-alias": 'CREATE TABLE t(a,b)',
    "table-alias-join": 'CREATE TABLE t(a,id); CREATE TABLE u(b,id)', "term-alias": 'CREATE TABLE t(a,b)',
    "alias-groupby": 'CREATE TABLE t(a,b)', "function-alias": 'CREATE TABLE t(a,b)', "subquery-alias": 'CREATE TABLE t(a,b)',
    "subquery-alias-join": 'CREATE TABLE t(a,id); CREATE TABLE u(id)', "star-qualifier": 'CREATE TABLE {n}(id); CREATE TABLE u(id)',
    "using": 'CREATE TABLE t(a,{n}); CREATE TABLE u({n})', "on-field": 'CREATE TABLE t(a,{n}); CREATE TABLE u({n})',
    "insert-table": 'CREATE TABLE {n}(a)', "insert-columns": 'CREATE TABLE t({n},b)', "set-target": 'CREATE TABLE t({n})',
    "update-table": 'CREATE TABLE {n}(a)', "drop-table": 'CREATE TABLE {n}(a)', "create-table": '', "create-columns": '',
    "cte": 'CREATE TABLE t(a)', "cte-join": 'CREATE TABLE t(a,id)',
}


def cases(tier, seed, shard, nshards):
    k = 0
    for d in DIALECT_CLASSES:
        for site in SITES:
            if site in ONLY and d not in ONLY[site]:
                continue
            for label, n in NAME_CLASSES:
                k += 1
                if k % nshards == shard:
                    yield {"site": site, "d": d, "label": label, "n": n}
    cnt = (120000 if tier == "quick" else 1600000) // nshards
    rnd = random.Random("C07:%d:%d" % (seed, shard))
    sites = list(SITES)
    for i in range(cnt):
        d = DIALECT_CLASSES[i % 6]
        site = rnd.choice(sites)
        if site in ONLY and d not in ONLY[site]:
            continue
        yield {"site": site, "d": d, "label": "random", "n": random_name(rnd)}


def render(site, d, n, default_root=False):
    reg = registry()
    try:
        o = SITES[site](reg[d], n)
        if default_root:
            return str(o), None  # the way users render: no context given
        return o.get_sql(contexts()[d]), None
    except Exception as e:
        return None, e


def quote_of(d):
    return "`" if DIALECT_OF[d] == "mysql" else '"'


def run_case(case, mon):
    site, d, n = case["site"], case["d"], case["n"]
    fam = DIALECT_OF[d] if d != "Query" else "generic"
    if n.lower() in FIXED_NAMES:
        return  # would collide with the fixed names of the site templates
    sql_m, em = render(site, d, MARK)
    sql_n, en = render(site, d, n)
    if sql_m is None:
        mon.inconc("marker statement of site %s raised %r" % (site, em))
        return
    if sql_n is None:
        mon.violation("raises:%s:%s" % (site, fam), "name %r at %s/%s raised %r" % (n, site, d, en))
        return
    if n == "*" and site in ("column-str",):
        return
    tm, tn = tokenize(sql_m, d), tokenize(sql_n, d)
    mon.count("statements_compared")
    mon.add("cells", "%s|%s" % (site, fam))
    q = quote_of(d)
    # 1. the marker statement itself: every occurrence of the marker is one identifier token in the dialect's quote
    occ = [t for t in tm if MARK in t.text]
    if not occ:
        mon.violation("name-dropped:%s:%s" % (site, fam), "the name given at site %s does not appear in the statement at all: %r" % (site, sql_m[:240]))
        return
    for t in occ:
        if not (t.kind == "IDENT" and t.value == MARK and t.text[0] == q):
            fault = "unquoted" if t.kind == "WORD" else ("wrong-quote" if t.kind in ("STR", "IDENT") else "not-an-identifier")
            mon.violation("%s:%s:%s" % (fault, site, fam), "at site %s the name is emitted as %s token %r, not as a %s-quoted identifier: %r" % (
                site, t.kind, t.text, q, sql_m[:200]), {"sql": sql_m})
            return
    mon.count("identifier_occurrences", len(occ))
    if len(occ) > 1:
        mon.count("definition_reference_sites")
    # 2. differential walk
    fault = None
    if len(tm) != len(tn):
        fault = "token streams differ in length (%d vs %d)" % (len(tm), len(tn))
    else:
        for a, b in zip(tm, tn):
            if a.kind == "IDENT" and a.value == MARK:
                if not (b.kind == "IDENT" and b.value == n and b.text[0] == q):
                    fault = "identifier token %r does not denote %r" % (b.text[:40], n)
                    break
            elif a.kind == "IDENT" and a.value == MARK.swapcase():
                if not (b.kind == "IDENT" and b.value == n.swapcase() and b.text[0] == q):
                    fault = "identifier token %r does not denote %r (the case twin of the name)" % (b.text[:40], n.swapcase())
                    break
            elif (a.kind, a.value if a.kind in ("IDENT", "STR", "NUM", "WORD") else a.text) != (
                    b.kind, b.value if b.kind in ("IDENT", "STR", "NUM", "WORD") else b.text):
                fault = "token %r became %r" % (a.text[:30], b.text[:30])
                break
    if fault:
        kind = "quote-char-unescaped" if q in n else ("backslash" if "\\" in n and fam == "mysql" else "name-damaged")
        mon.violation("%s:%s:%s" % (kind, site, fam), "name %r at %s/%s: %s; emitted %r" % (n, site, d, fault, sql_n[:240]),
                      {"sql": sql_n, "marker_sql": sql_m})
        return
    want_idents = EXPECT_IDENTS.get(site)
    if want_idents is not None:
        # absolute expectation (a differential walk cannot see a fault that the marker statement shares)
        got_idents = [t_.value for t_ in tn if t_.kind == "IDENT"]
        mon.count("absolute_identifier_sequences_checked")
        if got_idents != want_idents(n):
            mon.violation("wrong-identifier-sequence:%s:%s" % (site, fam), "identifiers %r, expected %r: %r" % (got_idents[:10], want_idents(n)[:10], sql_n[:240]))
            return
    mon.count("names_emitted_ok")
    # the same statement rendered without a context (str()): identical text, so every name keeps the dialect's quoting
    sql_s, es = render(site, d, n, default_root=True)
    mon.count("default_root_renders")
    if sql_s != sql_n:
        mon.violation("default-root-differs:%s:%s" % (site, fam), "str() of the statement differs from its rendering through %s.SQL_CONTEXT: %r vs %r" % (
            d, (sql_s or repr(es))[:240], sql_n[:240]))
        return
    # the active context decides the quote character, also through get_parameterized_sql(ctx) with a context that carries no
    # parameterizer: the same statement under the *other* quoting convention must be the same text with the other quote character
    if mon.evaluations % 3 == 0:
        try:
            reg = registry()
            o = SITES[site](reg[d], n)
            if isinstance(o, reg["QueryBuilder"]):
                other = "MySQLQuery" if DIALECT_OF[d] != "mysql" else "PostgreSQLQuery"
                octx = contexts()[other]
                via_param = o.get_parameterized_sql(octx)[0]
                direct = o.get_sql(octx.copy(parameterizer=reg["Parameterizer"]()))
                mon.count("foreign_context_entry_path_checks")
                if via_param != direct:
                    mon.violation("caller-context-ignored:%s:%s" % (site, fam), "get_parameterized_sql(ctx) with %s's context renders %r, get_sql with that context and a "
                                  "parameterizer %r" % (other, via_param[:220], direct[:220]))
                    return
        except Exception:
            mon.count("foreign_context_entry_path_raises")
    if not (n.isalnum() and n.islower()):
        mon.nontrivial([site, d, n])
    # 3. engine
    if d in ("SQLLiteQuery", "Query") and site in SQLITE_SCHEMA and "\0" not in n:
        qn = '"' + n.replace('"', '""') + '"'
        con = sqlite3.connect(":memory:")
        try:
            con.setconfig(sqlite3.SQLITE_DBCONFIG_DQS_DML, False)
            con.setconfig(sqlite3.SQLITE_DBCONFIG_DQS_DDL, False)
            for stmt in SQLITE_SCHEMA[site].split(";"):
                if stmt.strip():
                    con.execute(stmt.format(n=qn))
            con.execute("EXPLAIN " + sql_n)
            mon.count("sqlite_prepares")
        except sqlite3.Error as e:
            msg = str(e)
            if site.startswith("cte") and n.lower() in ("select", "order"):
                pass
            mon.violation("engine:%s:%s" % (site, fam), "SQLite rejects %r against a schema named with %r: %s" % (sql_n[:200], n, msg))
            return
        finally:
            con.close()
    if mon.evaluations % 499 == 1:
        mon.sample({"site": site, "dialect": d, "name": n, "sql": sql_n[:200]})


def post(m, tier, inconclusive):
    want = set()
    for d in DIALECT_CLASSES:
        for site in SITES:
            if site in ONLY and d not in ONLY[site]:
                continue
            want.add("%s|%s" % (site, DIALECT_OF[d] if d != "Query" else "generic"))
    got = m["sets"].get("cells", set())
    if want - got:
        inconclusive.append("site/dialect cells not covered: %s" % sorted(want - got)[:10])


def coverage_extra(m, tier):
    return {"sites": sorted(SITES), "name_classes": len(NAME_CLASSES), "exhaustive": True,
            "explanation": "sites x name classes x dialects enumerated completely on both tiers"}


def FLOORS(tier):
    return {"statements_compared": 10000, "sqlite_prepares": 200}
