"""The term zoo: one constructor per Term subclass found in the live modules, with explicit operand slots.

Each entry is (label, class, arity, make(ops, reg) -> term).  `ops` are already-built operand terms; slot i of the
result holds ops[i].  Classes discovered in the live package that have no explicit entry are constructed through a
generic recipe driven by inspect.signature (operand-like parameter names get operands, everything else a benign
default); classes that cannot be constructed are reported (and make a run inconclusive if they define get_sql).
"""
from __future__ import annotations

import inspect

from .hooks import all_classes
from .prog import registry

OPERAND_PARAMS = {"term", "field", "left", "right", "start", "end", "nested", "value", "container", "param", "condition",
                  "start_date", "end_date", "start_time", "end_time", "interval", "subterm", "stop", "pattern", "delimiter",
                  "index", "format_mask", "modifiers", "exponent", "modulus", "default_values", "terms", "args", "values"}


def explicit(reg):
    E = []

    def add(label, cls, arity, make, crit_slots=()):
        E.append({"label": label, "cls": cls, "arity": arity, "make": make, "crit_slots": set(crit_slots)})

    Eq, Bool, Arith, Match = reg["Equality"], reg["Boolean"], reg["Arithmetic"], reg["Matching"]
    add("Negative", "Negative", 1, lambda o: reg["Negative"](o[0]))
    for name, op in (("add", Arith.add), ("sub", Arith.sub), ("mul", Arith.mul), ("div", Arith.div)):
        add("ArithmeticExpression:" + name, "ArithmeticExpression", 2, lambda o, op=op: reg["ArithmeticExpression"](op, o[0], o[1]))
    add("BasicCriterion:eq", "BasicCriterion", 2, lambda o: reg["BasicCriterion"](Eq.eq, o[0], o[1]))
    add("BasicCriterion:like", "BasicCriterion", 2, lambda o: reg["BasicCriterion"](Match.like, o[0], o[1]))
    add("BasicCriterion:json", "BasicCriterion", 2, lambda o: reg["BasicCriterion"](reg["JSONOperators"].GET_TEXT_VALUE, o[0], o[1]))
    for name, op in (("and", Bool.and_), ("or", Bool.or_), ("xor", Bool.xor_)):
        add("ComplexCriterion:" + name, "ComplexCriterion", 2, lambda o, op=op: reg["ComplexCriterion"](op, o[0], o[1]), crit_slots=(0, 1))
    add("ContainsCriterion", "ContainsCriterion", 3, lambda o: reg["ContainsCriterion"](o[0], reg["Tuple"](o[1], o[2])))
    add("ContainsCriterion:negated", "ContainsCriterion", 2, lambda o: reg["ContainsCriterion"](o[0], reg["Tuple"](o[1], 1)).negate())
    add("BetweenCriterion", "BetweenCriterion", 3, lambda o: reg["BetweenCriterion"](o[0], o[1], o[2]))
    add("PeriodCriterion", "PeriodCriterion", 3, lambda o: reg["PeriodCriterion"](o[0], o[1], o[2]))
    add("BitwiseAndCriterion", "BitwiseAndCriterion", 1, lambda o: reg["BitwiseAndCriterion"](o[0], reg["ValueWrapper"](6)))
    add("NullCriterion", "NullCriterion", 1, lambda o: reg["NullCriterion"](o[0]))
    add("Not", "Not", 1, lambda o: reg["Not"](o[0]))
    add("All", "All", 1, lambda o: reg["All"](o[0]))
    add("Tuple", "Tuple", 2, lambda o: reg["Tuple"](o[0], o[1]))
    add("Array", "Array", 2, lambda o: reg["Array"](o[0], o[1]))
    add("Bracket", "Bracket", 1, lambda o: reg["Bracket"](o[0]))
    add("NestedCriterion", "NestedCriterion", 3, lambda o: reg["NestedCriterion"](Eq.eq, Bool.and_, o[0], o[1], o[2]))
    add("Case", "Case", 3, lambda o: reg["Case"]().when(o[0], o[1]).else_(o[2]), crit_slots=(0,))
    add("Case:two-whens", "Case", 4, lambda o: reg["Case"]().when(o[0], o[1]).when(o[2], o[3]), crit_slots=(0, 2))
    add("Function", "Function", 2, lambda o: reg["Function"]("F", o[0], o[1]))
    add("Function:schema", "Function", 1, lambda o: reg["Function"]("F", o[0], schema=reg["Schema"]("sch")))
    add("AggregateFunction", "AggregateFunction", 1, lambda o: reg["AggregateFunction"]("AGG", o[0]))
    add("AggregateFunction:filter", "AggregateFunction", 2, lambda o: reg["AggregateFunction"]("AGG", o[0]).filter(o[1]), crit_slots=(1,))
    add("AnalyticFunction:over", "AnalyticFunction", 2, lambda o: reg["AnalyticFunction"]("AN", o[0]).over(o[1]))
    add("AnalyticFunction:orderby", "AnalyticFunction", 2, lambda o: reg["AnalyticFunction"]("AN", o[0]).orderby(o[1], order=reg["Order"].desc))
    add("AnalyticFunction:filter", "AnalyticFunction", 2, lambda o: reg["AnalyticFunction"]("AN", o[0]).filter(o[1]).over(), crit_slots=(1,))
    add("WindowFrameAnalyticFunction", "WindowFrameAnalyticFunction", 2,
        lambda o: reg["WindowFrameAnalyticFunction"]("WF", o[0]).over(o[1]).rows(reg["an.Preceding"](2), reg["an.Following"](1)))
    add("IgnoreNullsAnalyticFunction", "IgnoreNullsAnalyticFunction", 1, lambda o: reg["IgnoreNullsAnalyticFunction"]("IGN", o[0]).ignore_nulls().over())
    add("Pow", "Pow", 1, lambda o: reg["Pow"](o[0], 2))
    add("Mod", "Mod", 1, lambda o: reg["Mod"](o[0], 3))
    add("Rollup", "Rollup", 2, lambda o: reg["Rollup"](o[0], o[1]))
    add("AtTimezone", "AtTimezone", 1, lambda o: reg["AtTimezone"](o[0], "UTC"))
    add("Values", "Values", 1, lambda o: reg["Values"](o[0]))
    # functions module
    f = lambda n: reg["fn." + n]  # noqa: E731
    add("fn.Count", "fn.Count", 1, lambda o: f("Count")(o[0]))
    add("fn.Count:distinct", "fn.Count", 1, lambda o: f("Count")(o[0]).distinct())
    add("fn.Sum", "fn.Sum", 1, lambda o: f("Sum")(o[0]))
    for n in ("Avg", "Min", "Max", "Std", "StdDev", "Abs", "First", "Last", "Sqrt", "Floor", "Signed", "Unsigned", "Date", "Timestamp",
              "Ascii", "Bin", "Length", "Upper", "Lower", "Reverse", "Trim", "IsNull"):
        add("fn." + n, "fn." + n, 1, lambda o, n=n: f(n)(o[0]))
    add("fn.ApproximatePercentile", "fn.ApproximatePercentile", 1, lambda o: f("ApproximatePercentile")(o[0], 0.5))
    add("fn.Cast", "fn.Cast", 1, lambda o: f("Cast")(o[0], "INTEGER"))
    add("fn.Convert", "fn.Convert", 1, lambda o: f("Convert")(o[0], reg["Order"].asc))
    add("fn.ToChar", "fn.ToChar", 2, lambda o: f("ToChar")(o[0], o[1]))
    add("fn.DateDiff", "fn.DateDiff", 2, lambda o: f("DateDiff")("day", o[0], o[1]))
    add("fn.TimeDiff", "fn.TimeDiff", 2, lambda o: f("TimeDiff")(o[0], o[1]))
    add("fn.DateAdd", "fn.DateAdd", 1, lambda o: f("DateAdd")("day", 1, o[0]))
    add("fn.ToDate", "fn.ToDate", 1, lambda o: f("ToDate")(o[0], "YYYY"))
    add("fn.TimestampAdd", "fn.TimestampAdd", 1, lambda o: f("TimestampAdd")("day", 1, o[0]))
    add("fn.NullIf", "fn.NullIf", 2, lambda o: f("NullIf")(o[0], o[1]))
    add("fn.Concat", "fn.Concat", 2, lambda o: f("Concat")(o[0], o[1]))
    add("fn.Insert", "fn.Insert", 2, lambda o: f("Insert")(o[0], 1, 2, o[1]))
    add("fn.Substring", "fn.Substring", 1, lambda o: f("Substring")(o[0], 1, 2))
    add("fn.SplitPart", "fn.SplitPart", 1, lambda o: f("SplitPart")(o[0], ",", 1))
    add("fn.RegexpMatches", "fn.RegexpMatches", 1, lambda o: f("RegexpMatches")(o[0], "x"))
    add("fn.RegexpLike", "fn.RegexpLike", 1, lambda o: f("RegexpLike")(o[0], "x"))
    add("fn.Extract", "fn.Extract", 1, lambda o: f("Extract")(reg["DatePart"].year, o[0]))
    add("fn.Coalesce", "fn.Coalesce", 2, lambda o: f("Coalesce")(o[0], o[1]))
    add("fn.IfNull", "fn.IfNull", 2, lambda o: f("IfNull")(o[0], o[1]))
    add("fn.NVL", "fn.NVL", 2, lambda o: f("NVL")(o[0], o[1]))
    a = lambda n: reg["an." + n]  # noqa: E731
    for n in ("NTile", "Median", "Avg", "StdDev", "StdDevPop", "StdDevSamp", "Variance", "VarPop", "VarSamp", "Count", "Sum", "Max", "Min"):
        add("an." + n, "an." + n, 2, lambda o, n=n: a(n)(o[0]).over(o[1]))
    for n in ("FirstValue", "LastValue", "Lag", "Lead"):
        add("an." + n, "an." + n, 2, lambda o, n=n: a(n)(o[0]).over(o[1]).orderby(o[1]))
    for n in ("Rank", "DenseRank", "RowNumber"):
        add("an." + n, "an." + n, 1, lambda o, n=n: a(n)().over(o[0]))
    return E


LEAVES = {  # classes without operand slots (or constructed only as leaves)
    "Field", "Star", "ValueWrapper", "JSON", "LiteralValue", "NullValue", "SystemTimeValue", "PseudoColumn", "Parameter", "Index",
    "Term", "Criterion", "MySQLValueWrapper", "SQLLiteValueWrapper", "RangeCriterion", "DistinctOptionFunction",
    "QueryBuilder", "_SetOperation", "MySQLQueryBuilder", "PostgreSQLQueryBuilder", "SQLLiteQueryBuilder", "MSSQLQueryBuilder",
    "OracleQueryBuilder", "fn.Now", "fn.UtcTimestamp", "fn.CurTimestamp", "fn.CurDate", "fn.CurTime",
}


def leaf_terms(reg, table):
    """(label, term) for leaf classes, attached to `table` where the class has a table."""
    out = [
        ("Field", reg["Field"]("lf", table=table)),
        ("Star", reg["Star"](table)),
        ("ValueWrapper", reg["ValueWrapper"](7)),
        ("ValueWrapper:str", reg["ValueWrapper"]("s")),
        ("MySQLValueWrapper", reg["MySQLValueWrapper"]("s")),
        ("SQLLiteValueWrapper", reg["SQLLiteValueWrapper"](True)),
        ("JSON", reg["JSON"]({"k": 1})),
        ("LiteralValue", reg["LiteralValue"]("CURRENT_USER")),
        ("NullValue", reg["NullValue"]()),
        ("SystemTimeValue", reg["SystemTimeValue"]()),
        ("PseudoColumn", reg["PseudoColumn"]("ROWNUM")),
        ("Parameter", reg["Parameter"]("?")),
        ("Parameter:idx", reg["Parameter"](idx=1)),
        ("Index", reg["Index"]("ix")),
        ("fn.Now", reg["fn.Now"]()),
        ("fn.UtcTimestamp", reg["fn.UtcTimestamp"]()),
        ("fn.CurTimestamp", reg["fn.CurTimestamp"]()),
        ("fn.CurDate", reg["fn.CurDate"]()),
        ("fn.CurTime", reg["fn.CurTime"]()),
    ]
    return out


def discovered_term_classes():
    """qualified label -> class for every Term subclass defined in the live package."""
    reg = registry()
    Term = reg["Term"]
    out = {}
    for c in all_classes():
        if isinstance(c, type) and issubclass(c, Term):
            mod = c.__module__.split(".")[-1]
            label = c.__name__ if mod not in ("functions", "analytics") else ("fn." if mod == "functions" else "an.") + c.__name__
            out[label] = c
    return out


def generic_entry(label, cls, reg):
    """Recipe from the constructor signature for classes without an explicit entry."""
    try:
        sig = inspect.signature(cls.__init__)
    except (TypeError, ValueError):
        return None
    params = [p for p in list(sig.parameters.values())[1:]]
    slots = []
    plan = []
    for p in params:
        if p.kind == p.VAR_POSITIONAL:
            plan.append(("star", len(slots)))
            slots += [p.name, p.name]
        elif p.kind == p.VAR_KEYWORD:
            continue
        elif p.name in OPERAND_PARAMS:
            plan.append(("pos", len(slots)))
            slots.append(p.name)
        elif p.default is not p.empty:
            continue
        elif p.name in ("name", "alias"):
            plan.append(("const", "nm"))
        else:
            plan.append(("const", "INTEGER"))

    def make(o):
        args = []
        for kind, v in plan:
            if kind == "pos":
                args.append(o[v])
            elif kind == "star":
                args += [o[v], o[v + 1]]
            else:
                args.append(v)
        return cls(*args)
    return {"label": label + ":generic", "cls": label, "arity": len(slots), "make": make, "crit_slots": set(), "generic": True}


def zoo():
    """All entries: explicit ones plus generic recipes for discovered classes without one. Returns (entries, unconstructible)."""
    reg = registry()
    entries = explicit(reg)
    have = {e["cls"] for e in entries} | LEAVES
    missing = []
    for label, cls in sorted(discovered_term_classes().items()):
        if label in have:
            continue
        g = generic_entry(label, cls, reg)
        if g is None:
            missing.append(label)
            continue
        try:
            t = reg["Table"]("zz")
            g["make"]([reg["Field"]("p%d" % i, table=t) for i in range(max(g["arity"], 1))])
            entries.append(g)
        except Exception as e:
            missing.append("%s (%s)" % (label, type(e).__name__))
    return entries, missing
