"""Reference tokenizers, one per dialect family, written from the dialects' lexical rules and independent of
pypika_tortoise.  They are the trusted base wherever no engine is available (MySQL, PostgreSQL, SQL Server, Oracle)
and are cross-checked against the sqlite3 engine for the SQLite family (see _selftest).

Token = (kind, text, value, start, end)
  kind: IDENT  quoted identifier (value = the name it denotes, text includes the quotes)
        WORD   bare word: keyword, function name, unquoted identifier
        STR    string literal (value = decoded string)
        NUM    numeric literal (value = Decimal)
        PARAM  placeholder (?, %s, $n)
        OP     operator
        PUNCT  ( ) , . ; [ ] { }
        COMMENT  comment (value = text)
        ERR    unterminated string / identifier / comment
"""
from __future__ import annotations

import decimal
import re
from collections import namedtuple

Tok = namedtuple("Tok", "kind text value start end")

DIALECT_OF = {"Query": "sqlite", "SQLLiteQuery": "sqlite", "MySQLQuery": "mysql", "PostgreSQLQuery": "postgresql",
              "MSSQLQuery": "mssql", "OracleQuery": "oracle"}

_OPS = ["#>>", "->>", "<=>", "#>", "->", "@>", "<@", "?|", "?&", "<>", "!=", ">=", "<=", "||", "::", "<<", ">>", ":=",
        "=", "<", ">", "+", "-", "*", "/", "%", "&", "|", "^", "~", "!", "@", ":", "?", "#"]
_NUM = re.compile(r"(?:\d+\.?\d*|\.\d+)(?:[eE][+-]?\d+)?")
_WORD = re.compile(r"[^\W\d]\w*(?:\$\w*)*", re.UNICODE)
_WS = re.compile(r"\s+")

MYSQL_ESC = {"0": "\0", "'": "'", '"': '"', "b": "\b", "n": "\n", "r": "\r", "t": "\t", "Z": "\x1a", "\\": "\\",
             "%": "\\%", "_": "\\_"}


class Lexer:
    def __init__(self, dialect):
        self.d = dialect
        self.ident_q = "`" if dialect == "mysql" else '"'
        self.str_quotes = ("'", '"') if dialect == "mysql" else ("'",)
        self.backslash = dialect == "mysql"
        self.brackets_ident = dialect in ("mssql",)

    # -------------------------------------------------------------- quoted spans
    def _quoted(self, s, i, q, backslash):
        """Scan a span delimited by q starting at s[i]==q. Returns (end, decoded, terminated)."""
        n = len(s)
        j = i + 1
        out = []
        while j < n:
            c = s[j]
            if backslash and c == "\\":
                if j + 1 < n:
                    e = s[j + 1]
                    out.append(MYSQL_ESC.get(e, e))
                    j += 2
                    continue
                return n, "".join(out), False
            if c == q:
                if j + 1 < n and s[j + 1] == q:
                    out.append(q)
                    j += 2
                    continue
                return j + 1, "".join(out), True
            out.append(c)
            j += 1
        return n, "".join(out), False

    def tokens(self, s):
        d = self.d
        toks = []
        i, n = 0, len(s)
        while i < n:
            c = s[i]
            m = _WS.match(s, i)
            if m:
                i = m.end()
                continue
            # comments
            if c == "-" and s.startswith("--", i):
                is_comment = True
                if d == "mysql":
                    # MySQL: "--" starts a comment only when followed by whitespace/control or end of input
                    nxt = s[i + 2] if i + 2 < n else " "
                    is_comment = nxt.isspace() or ord(nxt) < 32
                if is_comment:
                    j = s.find("\n", i)
                    j = n if j < 0 else j
                    toks.append(Tok("COMMENT", s[i:j], s[i:j], i, j))
                    i = j
                    continue
            if c == "/" and s.startswith("/*", i):
                j = s.find("*/", i + 2)
                if j < 0:
                    toks.append(Tok("ERR", s[i:], "unterminated comment", i, n))
                    i = n
                else:
                    toks.append(Tok("COMMENT", s[i:j + 2], s[i:j + 2], i, j + 2))
                    i = j + 2
                continue
            if c == "#" and d == "mysql":
                j = s.find("\n", i)
                j = n if j < 0 else j
                toks.append(Tok("COMMENT", s[i:j], s[i:j], i, j))
                i = j
                continue
            # strings
            if c in self.str_quotes:
                j, val, ok = self._quoted(s, i, c, self.backslash)
                toks.append(Tok("STR" if ok else "ERR", s[i:j], val if ok else "unterminated string", i, j))
                i = j
                continue
            # quoted identifiers
            if c == self.ident_q:
                j, val, ok = self._quoted(s, i, c, False)
                toks.append(Tok("IDENT" if ok else "ERR", s[i:j], val if ok else "unterminated identifier", i, j))
                i = j
                continue
            if c == "`" and d == "sqlite":
                j, val, ok = self._quoted(s, i, c, False)
                toks.append(Tok("IDENT" if ok else "ERR", s[i:j], val if ok else "unterminated identifier", i, j))
                i = j
                continue
            if c == "[" and self.brackets_ident:
                j = s.find("]", i)
                if j < 0:
                    toks.append(Tok("ERR", s[i:], "unterminated identifier", i, n))
                    i = n
                else:
                    toks.append(Tok("IDENT", s[i:j + 1], s[i + 1:j], i, j + 1))
                    i = j + 1
                continue
            # placeholders
            if c == "%" and d == "mysql" and s.startswith("%s", i):
                toks.append(Tok("PARAM", "%s", None, i, i + 2))
                i += 2
                continue
            if c == "$" and d == "postgresql":
                m = re.compile(r"\$(\d+)").match(s, i)
                if m:
                    toks.append(Tok("PARAM", m.group(0), int(m.group(1)), i, m.end()))
                    i = m.end()
                    continue
            if c == "?" and d != "postgresql":
                toks.append(Tok("PARAM", "?", None, i, i + 1))
                i += 1
                continue
            # numbers
            if c in "0123456789" or (c == "." and i + 1 < n and s[i + 1] in "0123456789"):
                m = _NUM.match(s, i)
                txt = m.group(0)
                # "1." followed by a word char is NUM then '.' (never produced here, but keep the lexer sane)
                try:
                    val = decimal.Decimal(txt)
                except decimal.InvalidOperation:
                    val = None
                toks.append(Tok("NUM", txt, val, i, m.end()))
                i = m.end()
                continue
            m = _WORD.match(s, i)
            if m:
                toks.append(Tok("WORD", m.group(0), m.group(0).upper(), i, m.end()))
                i = m.end()
                continue
            if c in "(),.;[]{}":
                toks.append(Tok("PUNCT", c, c, i, i + 1))
                i += 1
                continue
            for op in _OPS:
                if s.startswith(op, i):
                    toks.append(Tok("OP", op, op, i, i + len(op)))
                    i += len(op)
                    break
            else:
                toks.append(Tok("ERR", c, "unexpected character %r" % c, i, i + 1))
                i += 1
        return toks


_lexers = {}


def lexer(dialect_or_class):
    d = DIALECT_OF.get(dialect_or_class, dialect_or_class)
    if d not in _lexers:
        _lexers[d] = Lexer(d)
    return _lexers[d]


def tokenize(sql, dialect_or_class):
    return lexer(dialect_or_class).tokens(sql)


def sig(toks):
    """Comparable form of a token list (positions dropped)."""
    return [(t.kind, t.value if t.kind in ("IDENT", "STR", "NUM", "WORD") else t.text) for t in toks]


def balanced(toks):
    """None if brackets balance, else a description."""
    stack = []
    pair = {")": "(", "]": "[", "}": "{"}
    for t in toks:
        if t.kind == "ERR":
            return "lexical error: %s at %d" % (t.value, t.start)
        if t.kind != "PUNCT":
            continue
        if t.text in "([{":
            stack.append(t.text)
        elif t.text in ")]}":
            if not stack or stack[-1] != pair[t.text]:
                return "unbalanced %r at %d" % (t.text, t.start)
            stack.pop()
    if stack:
        return "unclosed %r" % stack[-1]
    return None


def depth0_split(toks, sep=","):
    """Split a token list at separators of bracket depth 0."""
    out, cur, depth = [], [], 0
    for t in toks:
        if t.kind == "PUNCT" and t.text in "([{":
            depth += 1
        elif t.kind == "PUNCT" and t.text in ")]}":
            depth -= 1
        if depth == 0 and t.kind == "PUNCT" and t.text == sep:
            out.append(cur)
            cur = []
        else:
            cur.append(t)
    out.append(cur)
    return out


def encode_string(s, dialect_or_class):
    """Reference literal writer (used by self-tests and reference SQL): the canonical literal for s."""
    d = DIALECT_OF.get(dialect_or_class, dialect_or_class)
    if d == "mysql":
        return "'" + s.replace("\\", "\\\\").replace("'", "''") + "'"
    return "'" + s.replace("'", "''") + "'"


def encode_ident(name, dialect_or_class):
    d = DIALECT_OF.get(dialect_or_class, dialect_or_class)
    q = "`" if d == "mysql" else '"'
    return q + name.replace(q, q + q) + q


def _selftest():
    import random
    import sqlite3

    rnd = random.Random(7)
    alphabet = ["'", "''", "\\", '"', "`", "--", "/*", "*/", "#", "?", "%s", "$1", ":x", "\n", "\t", "a", "Z", " ", "é",
                "\U0001F600", "‏", ";", "(", ")", ","]
    con = sqlite3.connect(":memory:")
    n = 0
    for _ in range(3000):
        s = "".join(rnd.choice(alphabet) for _ in range(rnd.randint(0, 8)))
        for d in ("sqlite", "mysql", "postgresql", "mssql", "oracle"):
            lit = encode_string(s, d)
            toks = tokenize("SELECT " + lit + " , 1", d)
            assert [t.kind for t in toks] == ["WORD", "STR", "PUNCT", "NUM"], (d, s, toks)
            assert toks[1].value == s, (d, s, toks[1])
            idn = encode_ident(s or "x", d)
            if d != "oracle":
                toks = tokenize("SELECT " + idn + " FROM t", d)
                assert [t.kind for t in toks] == ["WORD", "IDENT", "WORD", "WORD"], (d, s, toks)
                assert toks[1].value == (s or "x"), (d, s, toks[1])
            n += 1
        # the engine agrees with the sqlite lexer on string literals
        got = con.execute("SELECT " + encode_string(s, "sqlite")).fetchone()[0]
        assert got == s, (s, got)
    # comments and operator fusion
    assert [t.kind for t in tokenize('"a"--1', "sqlite")] == ["IDENT", "COMMENT"]
    assert [t.kind for t in tokenize("`a`--1", "mysql")] == ["IDENT", "OP", "OP", "NUM"]
    assert [t.kind for t in tokenize("`a`-- 1", "mysql")] == ["IDENT", "COMMENT"]
    assert [t.kind for t in tokenize("'a\\'b'", "mysql")] == ["STR"]
    assert [t.kind for t in tokenize("'a\\'b'", "sqlite")] == ["STR", "WORD", "ERR"]
    assert [t.kind for t in tokenize('"x"', "mysql")] == ["STR"]
    assert [t.text for t in tokenize("a->>'k'", "postgresql")] == ["a", "->>", "'k'"]
    assert [t.kind for t in tokenize("x ? 'k' AND y=$2", "postgresql")] == ["WORD", "OP", "STR", "WORD", "WORD", "OP", "PARAM"]
    assert [t.kind for t in tokenize("x=? AND y=%s", "mysql")] == ["WORD", "OP", "PARAM", "WORD", "WORD", "OP", "PARAM"]
    assert tokenize("1.5e3", "sqlite")[0].value == decimal.Decimal("1500")
    assert balanced(tokenize("(a,(b))", "sqlite")) is None and balanced(tokenize("(a,(b)", "sqlite")) is not None
    return "%d literal/identifier round-trips over 5 dialect lexers, engine cross-check on sqlite" % n
