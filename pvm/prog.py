"""Programs as data: a small JSON DSL over the public API of pypika_tortoise, and its interpreter.

A program is {"steps": [step, ...]}; step k binds variable k.  Arguments are JSON values; tagged
dicts ({"$": tag, ...}) encode references to earlier variables and non-JSON Python values.
The interpreter executes a program against the live package (imported from /repo) and records a call
event before and a return/raise event after every step (client-boundary history).
"""
from __future__ import annotations

import copy as _copy
import datetime as _dt
import decimal as _decimal
import enum as _enum
import hashlib
import json
import operator as _operator
import pickle as _pickle
import uuid as _uuid

from . import pin_repo

DIALECT_CLASSES = ["Query", "MySQLQuery", "PostgreSQLQuery", "SQLLiteQuery", "MSSQLQuery", "OracleQuery"]


class StrEnumU(_enum.Enum):
    """User-defined enum of str values (used as a value kind in C04/C05)."""

    plain = "plain"
    quote = "it's"
    star = "*"
    pct = "50%_off\\"


class IntEnumU(_enum.Enum):
    one = 1
    neg = -7


class MixIntEnumU(int, _enum.Enum):
    """int-mixin enum that is not an IntEnum: str(member) is 'MixIntEnumU.high', isinstance(member, int) is True."""

    low = 1
    high = 30


class MixStrEnumU(str, _enum.Enum):
    red = "red"
    quote = "o'k"


class PlainIntEnumU(_enum.IntEnum):
    three = 3
    minus = -4


_USER_ENUMS = {"StrEnumU": StrEnumU, "IntEnumU": IntEnumU, "MixIntEnumU": MixIntEnumU, "MixStrEnumU": MixStrEnumU,
               "PlainIntEnumU": PlainIntEnumU}


class Ref:
    __slots__ = ("i",)

    def __init__(self, i):
        self.i = i

    def __repr__(self):
        return "v%d" % self.i


class QParam:
    """The dialect parameter: resolved to one of DIALECT_CLASSES at interpretation time."""

    def __repr__(self):
        return "Q"


Q = QParam()


class Cls:
    def __init__(self, name):
        self.name = name


def enc(v):
    """Python value (possibly holding Ref/Q/Cls) -> JSON value."""
    if isinstance(v, Ref):
        return {"$": "r", "i": v.i}
    if isinstance(v, QParam):
        return {"$": "Q"}
    if isinstance(v, Cls):
        return {"$": "cls", "n": v.name}
    if isinstance(v, _enum.Enum):
        return {"$": "enum", "c": type(v).__name__, "n": v.name}
    if v is None or isinstance(v, (bool, str)):
        return v
    if isinstance(v, int):
        if abs(v) >= 2**53:
            return {"$": "int", "v": str(v)}
        return v
    if isinstance(v, float):
        return {"$": "float", "v": repr(v)}
    if isinstance(v, _decimal.Decimal):
        return {"$": "dec", "v": str(v)}
    if isinstance(v, _dt.datetime):
        return {"$": "datetime", "v": v.isoformat()}
    if isinstance(v, _dt.date):
        return {"$": "date", "v": v.isoformat()}
    if isinstance(v, _dt.time):
        return {"$": "time", "v": v.isoformat()}
    if isinstance(v, _uuid.UUID):
        return {"$": "uuid", "v": str(v)}
    if isinstance(v, _enum.Enum):
        return {"$": "enum", "c": type(v).__name__, "n": v.name}
    if isinstance(v, list):
        return [enc(x) for x in v]
    if isinstance(v, tuple):
        return {"$": "tuple", "v": [enc(x) for x in v]}
    if isinstance(v, (set, frozenset)):
        return {"$": "set", "v": [enc(x) for x in v]}
    if isinstance(v, dict):
        return {"$": "dict", "v": [[enc(k), enc(x)] for k, x in v.items()]}
    if isinstance(v, slice):
        return {"$": "slice", "a": enc(v.start), "b": enc(v.stop)}
    raise TypeError("cannot encode %r" % (v,))


class P:
    """Program builder used by the generators."""

    def __init__(self):
        self.steps = []

    def _add(self, step):
        self.steps.append(step)
        return Ref(len(self.steps) - 1)

    def new(self, cls, *a, **k):
        return self._add({"op": "new", "cls": cls, "a": [enc(x) for x in a], "k": {n: enc(x) for n, x in k.items()}})

    def call(self, r, m, *a, **k):
        return self._add({"op": "call", "r": enc(r), "m": m, "a": [enc(x) for x in a], "k": {n: enc(x) for n, x in k.items()}})

    def attr(self, r, n):
        return self._add({"op": "attr", "r": enc(r), "n": n})

    def bin(self, o, a, b):
        return self._add({"op": "bin", "o": o, "a": enc(a), "b": enc(b)})

    def un(self, o, a):
        return self._add({"op": "un", "o": o, "a": enc(a)})

    def item(self, r, i):
        return self._add({"op": "item", "r": enc(r), "i": enc(i)})

    def dup(self, how, r):
        return self._add({"op": "dup", "how": how, "r": enc(r)})

    def val(self, v):
        return self._add({"op": "val", "v": enc(v)})

    def setattr(self, r, n, v):
        return self._add({"op": "setattr", "r": enc(r), "n": n, "v": enc(v)})

    # conveniences
    def table(self, name, **k):
        return self.new("Table", name, **k)

    def field(self, t, name):
        return self.call(t, "field", name)

    def prog(self, **meta):
        d = {"steps": self.steps}
        if meta:
            d["meta"] = meta
        return d


_BIN = {
    "+": _operator.add, "-": _operator.sub, "*": _operator.mul, "/": _operator.truediv,
    "**": _operator.pow, "%": _operator.mod,
    "==": _operator.eq, "!=": _operator.ne, "<": _operator.lt, "<=": _operator.le,
    ">": _operator.gt, ">=": _operator.ge,
    "&": _operator.and_, "|": _operator.or_, "^": _operator.xor,
}
_UN = {"neg": _operator.neg, "not": _operator.invert, "pos": _operator.pos}

_registry = None


def registry():
    """name -> class/object, from the live modules."""
    global _registry
    if _registry is None:
        pin_repo()
        import importlib

        reg = {}
        # plain names: defining module wins; analytics only as "an.<Name>", functions also "fn.<Name>"
        for modname, prefix in (("enums", None), ("exceptions", None), ("context", None), ("terms", None),
                                ("queries", None), ("pseudocolumns", None), ("dialects.mysql", None),
                                ("dialects.postgresql", None), ("dialects.sqlite", None),
                                ("dialects.mssql", None), ("dialects.oracle", None),
                                ("functions", "fn."), ("analytics", "an.")):
            mod = importlib.import_module("pypika_tortoise." + modname)
            for n, o in vars(mod).items():
                if n.startswith("__"):
                    continue
                own = getattr(o, "__module__", mod.__name__) == mod.__name__
                if prefix:
                    if own:
                        reg[prefix + n] = o
                        if prefix == "fn.":
                            reg[n] = o
                elif own or n not in reg:
                    reg[n] = o
        reg.update(_USER_ENUMS)
        _registry = reg
    return _registry


class Failed:
    """Value of a variable whose step raised (or depended on one that did)."""

    def __init__(self, exc, step):
        self.exc = exc
        self.step = step

    def __repr__(self):
        return "Failed(%s@%d)" % (type(self.exc).__name__, self.step)


class Interp:
    def __init__(self, dialect="Query", on_event=None):
        self.reg = registry()
        self.dialect = dialect
        self.on_event = on_event
        self.env = []

    def dec(self, v):
        if isinstance(v, list):
            return [self.dec(x) for x in v]
        if not isinstance(v, dict):
            return v
        t = v["$"]
        if t == "r":
            x = self.env[v["i"]]
            if isinstance(x, Failed):
                raise _Dep(x)
            return x
        if t == "Q":
            return self.reg[self.dialect]
        if t == "cls":
            return self.reg[v["n"]]
        if t == "int":
            return int(v["v"])
        if t == "float":
            return float(v["v"])
        if t == "dec":
            return _decimal.Decimal(v["v"])
        if t == "datetime":
            return _dt.datetime.fromisoformat(v["v"])
        if t == "date":
            return _dt.date.fromisoformat(v["v"])
        if t == "time":
            return _dt.time.fromisoformat(v["v"])
        if t == "uuid":
            return _uuid.UUID(v["v"])
        if t == "enum":
            return getattr(self.reg[v["c"]], v["n"])
        if t == "tuple":
            return tuple(self.dec(x) for x in v["v"])
        if t == "set":
            return set(self.dec(x) for x in v["v"])
        if t == "dict":
            return {self.dec(k): self.dec(x) for k, x in v["v"]}
        if t == "slice":
            return slice(self.dec(v["a"]), self.dec(v["b"]))
        raise ValueError("bad tag %r" % t)

    def step(self, s):
        op = s["op"]
        if op == "new":
            return self.reg[s["cls"]](*self.dec(s["a"]), **{k: self.dec(x) for k, x in s["k"].items()})
        if op == "call":
            recv = self.dec(s["r"])
            return getattr(recv, s["m"])(*self.dec(s["a"]), **{k: self.dec(x) for k, x in s["k"].items()})
        if op == "attr":
            return getattr(self.dec(s["r"]), s["n"])
        if op == "bin":
            return _BIN[s["o"]](self.dec(s["a"]), self.dec(s["b"]))
        if op == "un":
            return _UN[s["o"]](self.dec(s["a"]))
        if op == "item":
            return self.dec(s["r"])[self.dec(s["i"])]
        if op == "dup":
            o = self.dec(s["r"])
            how = s["how"]
            if how == "copy":
                return _copy.copy(o)
            if how == "deepcopy":
                return _copy.deepcopy(o)
            if how == "pickle":
                return _pickle.loads(_pickle.dumps(o))
            raise ValueError(how)
        if op == "val":
            return self.dec(s["v"])
        if op == "setattr":
            o = self.dec(s["r"])
            setattr(o, s["n"], self.dec(s["v"]))
            return o
        raise ValueError("bad op %r" % op)

    def run(self, program, upto=None):
        steps = program["steps"]
        n = len(steps) if upto is None else upto
        for i in range(len(self.env), n):
            s = steps[i]
            if self.on_event:
                self.on_event("call", i, s, None, self)
            try:
                v = self.step(s)
            except _Dep as d:
                v = Failed(d.failed.exc, d.failed.step)
            except RecursionError as e:
                v = Failed(e, i)
            except Exception as e:  # library exception at this call
                v = Failed(e, i)
            self.env.append(v)
            if self.on_event:
                self.on_event("ret", i, s, v, self)
        return self.env


class _Dep(Exception):
    def __init__(self, failed):
        self.failed = failed


def run(program, dialect="Query", on_event=None):
    it = Interp(dialect, on_event)
    it.run(program)
    return it.env


def refs_of(v, out):
    if isinstance(v, list):
        for x in v:
            refs_of(x, out)
    elif isinstance(v, dict):
        if v.get("$") == "r":
            out.add(v["i"])
        else:
            for x in v.values():
                refs_of(x, out)


def step_refs(s):
    out = set()
    for k, v in s.items():
        if k not in ("op", "cls", "m", "n", "o", "how"):
            refs_of(v, out)
    return out


def _renum(v, m):
    if isinstance(v, list):
        return [_renum(x, m) for x in v]
    if isinstance(v, dict):
        if v.get("$") == "r":
            return {"$": "r", "i": m[v["i"]]}
        return {k: _renum(x, m) for k, x in v.items()}
    return v


def slice_program(program, targets):
    """Sub-program computing the given variables (transitive dependencies, original order).

    Returns (program, map old index -> new index)."""
    steps = program["steps"]
    need = set()
    stack = list(targets)
    while stack:
        i = stack.pop()
        if i in need:
            continue
        need.add(i)
        stack.extend(step_refs(steps[i]))
    order = sorted(need)
    m = {old: new for new, old in enumerate(order)}
    new_steps = []
    for old in order:
        s = steps[old]
        new_steps.append({k: (_renum(v, m) if k not in ("op", "cls", "m", "n", "o", "how") else v) for k, v in s.items()})
    return {"steps": new_steps}, m


def drop_steps(program, drop):
    """Program without the given steps and everything depending on them (for shrinking)."""
    steps = program["steps"]
    dead = set(drop)
    for i, s in enumerate(steps):
        if i in dead:
            continue
        if step_refs(s) & dead:
            dead.add(i)
    keep = [i for i in range(len(steps)) if i not in dead]
    return slice_program(program, keep) if keep else ({"steps": []}, {})


def canon(obj):
    return json.dumps(obj, sort_keys=True, separators=(",", ":"), ensure_ascii=True)


def phash(obj):
    return hashlib.sha256(canon(obj).encode()).hexdigest()[:16]


def show(program):
    """Readable one-line-per-step rendering of a program (for samples and witnesses)."""
    out = []

    def a(v):
        if isinstance(v, list):
            return "[" + ", ".join(a(x) for x in v) + "]"
        if isinstance(v, dict):
            t = v.get("$")
            if t == "r":
                return "v%d" % v["i"]
            if t == "Q":
                return "Q"
            if t == "cls":
                return v["n"]
            if t == "enum":
                return "%s.%s" % (v["c"], v["n"])
            if t in ("tuple", "set"):
                return t + "(" + ", ".join(a(x) for x in v["v"]) + ")"
            if t == "dict":
                return "{" + ", ".join("%s: %s" % (a(k), a(x)) for k, x in v["v"]) + "}"
            if t == "slice":
                return "slice(%s,%s)" % (a(v["a"]), a(v["b"]))
            return "%s(%s)" % (t, v.get("v"))
        return repr(v)

    for i, s in enumerate(program["steps"]):
        op = s["op"]
        if op == "new":
            args = [a(x) for x in s["a"]] + ["%s=%s" % (k, a(x)) for k, x in s["k"].items()]
            r = "%s(%s)" % (s["cls"], ", ".join(args))
        elif op == "call":
            args = [a(x) for x in s["a"]] + ["%s=%s" % (k, a(x)) for k, x in s["k"].items()]
            r = "%s.%s(%s)" % (a(s["r"]), s["m"], ", ".join(args))
        elif op == "attr":
            r = "%s.%s" % (a(s["r"]), s["n"])
        elif op == "bin":
            r = "%s %s %s" % (a(s["a"]), s["o"], a(s["b"]))
        elif op == "un":
            r = "%s(%s)" % (s["o"], a(s["a"]))
        elif op == "item":
            r = "%s[%s]" % (a(s["r"]), a(s["i"]))
        elif op == "dup":
            r = "%s(%s)" % (s["how"], a(s["r"]))
        elif op == "val":
            r = a(s["v"])
        elif op == "setattr":
            r = "setattr(%s, %s, %s)" % (a(s["r"]), s["n"], a(s["v"]))
        else:
            r = str(s)
        out.append("v%d = %s" % (i, r))
    return out
